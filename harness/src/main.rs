//! vh - the implementation-side executor of the /verif conformance checks.
//!
//! It never decides anything: it replays what the TLA+ side generated (operation
//! histories, programs, schedules) against the real `yarel` crate and reports the
//! observable result of every step as one JSON line; the orchestrator (`/verif/check`)
//! compares that with what the specification predicted.

mod exec;
mod export;
mod heapcore;
mod intern;

use std::io::{self, BufRead, Write};

fn main() {
    let args: Vec<String> = std::env::args().collect();
    if args.len() < 2 {
        eprintln!("usage: vh <run|export|tokenize|intern-replay|intern-vm|heap-replay>");
        std::process::exit(2);
    }
    let stdin = io::stdin();
    let stdout = io::stdout();
    let mut out = stdout.lock();
    let cmd = args[1].as_str();
    for line in stdin.lock().lines() {
        let line = match line {
            Ok(l) => l,
            Err(_) => break,
        };
        if line.trim().is_empty() {
            continue;
        }
        let reply = match cmd {
            "run" => exec::run_line(&line),
            "export" => export::export_line(&line),
            "tokenize" => exec::tokenize_line(&line),
            "intern-replay" => intern::replay_line(&line),
            "intern-vm" => intern::vm_line(&line),
            "heap-replay" => heapcore::replay_line(&line),
            _ => {
                eprintln!("unknown command {}", cmd);
                std::process::exit(2);
            }
        };
        let _ = writeln!(out, "{}", reply);
        let _ = out.flush();
    }
}
