//! Export the compiler's actual output (every function reachable through constants)
//! so that Bytecode.tla can explore its control-flow graph.

use serde_json::{json, Value as J};

use yarel::compiler;
use yarel::memory::Gc;
use yarel::object::ObjFunction;
use yarel::value::Value;
use yarel::vm::Vm;

use crate::exec;

fn export(f: Gc<ObjFunction>, out: &mut Vec<J>) -> usize {
    let mut consts = Vec::new();
    for c in f.chunk.constants.iter() {
        consts.push(match c {
            Value::ObjFunction(g) => {
                let idx = export(*g, out);
                json!({"k": "fn", "idx": idx, "upv": g.upvalue_count, "arity": g.arity})
            }
            Value::ObjString(s) => json!({"k": "str", "s": s.as_str()}),
            Value::Number(n) => json!({"k": "num", "v": n}),
            _ => json!({"k": "other"}),
        });
    }
    out.push(json!({"name": f.name.as_str(), "arity": f.arity, "upv": f.upvalue_count,
        "code": f.chunk.code.clone(), "lines": f.chunk.lines.clone(), "consts": consts}));
    out.len() - 1
}

pub fn export_line(line: &str) -> String {
    exec::install_panic_hook();
    let v: J = match serde_json::from_str(line) {
        Ok(v) => v,
        Err(e) => return json!({"harness_error": format!("bad line: {}", e)}).to_string(),
    };
    let id = v["id"].clone();
    let src = v["src"].as_str().unwrap_or("").to_string();
    let id2 = id.clone();
    let handle = std::thread::Builder::new()
        .stack_size(64 << 20)
        .spawn(move || {
            let mut vm = Vm::with_built_ins();
            match compiler::compile(&mut vm, src, None) {
                Ok(f) => {
                    let mut out = Vec::new();
                    let root = export(f.as_gc(), &mut out);
                    json!({"id": id2, "ok": true, "root": root, "fns": out})
                }
                Err(e) => json!({"id": id2, "ok": false, "messages": e.messages()}),
            }
        })
        .expect("spawn");
    match handle.join() {
        Ok(v) => v.to_string(),
        Err(_) => json!({"id": id, "panic": exec::take_panic()}).to_string(),
    }
}
