//! Run yarel programs (one or several snippets on one interpreter) and report what happened.

use std::cell::RefCell;
use std::collections::HashMap;
use std::sync::Mutex;

use serde::Deserialize;
use serde_json::{json, Value as J};

use yarel::error::{Error, ErrorKind};
use yarel::memory;
use yarel::value::Value;
use yarel::verif;
use yarel::vm::{self, Vm};

thread_local! {
    static OUTPUT: RefCell<Vec<String>> = RefCell::new(Vec::new());
    static MODULES: RefCell<HashMap<String, String>> = RefCell::new(HashMap::new());
    static LOADS: RefCell<Vec<String>> = RefCell::new(Vec::new());
}

static PANIC_MSG: Mutex<Option<String>> = Mutex::new(None);

pub fn install_panic_hook() {
    use std::sync::Once;
    static ONCE: Once = Once::new();
    ONCE.call_once(|| {
        std::panic::set_hook(Box::new(|info| {
            let msg = if let Some(s) = info.payload().downcast_ref::<&str>() {
                s.to_string()
            } else if let Some(s) = info.payload().downcast_ref::<String>() {
                s.clone()
            } else {
                "panic".to_string()
            };
            let loc = info
                .location()
                .map(|l| format!("{}:{}", l.file(), l.line()))
                .unwrap_or_default();
            if let Ok(mut g) = PANIC_MSG.lock() {
                if g.is_none() {
                    *g = Some(format!("{} at {}", msg, loc));
                }
            }
        }));
    });
}

pub fn take_panic() -> Option<String> {
    PANIC_MSG.lock().ok().and_then(|mut g| g.take())
}

#[derive(Deserialize, Clone, Default)]
pub struct Snippet {
    #[serde(default)]
    pub src: Option<String>,
    #[serde(default)]
    pub reset: bool,
}

#[derive(Deserialize, Clone, Default)]
pub struct Case {
    #[serde(default)]
    pub id: J,
    #[serde(default)]
    pub main: Option<String>,
    #[serde(default)]
    pub snippets: Vec<Snippet>,
    #[serde(default)]
    pub modules: HashMap<String, String>,
    #[serde(default)]
    pub gc: String,
    #[serde(default)]
    pub events: u32,
    #[serde(default)]
    pub quarantine: bool,
    #[serde(default)]
    pub stats: bool,
    #[serde(default)]
    pub compile_only: bool,
    #[serde(default)]
    pub natives: bool,
    #[serde(default)]
    pub stack_mb: Option<usize>,
    /// keep the events recorded while the interpreter was being created (heap pacing starts from an empty heap)
    #[serde(default)]
    pub boot_events: bool,
}

fn local_print(vm: &mut Vm, num_args: usize) -> Result<Value, Error> {
    if num_args != 1 {
        return Err(Error::with_message(
            ErrorKind::TypeError,
            "Expected one argument to 'print'.",
        ));
    }
    let text = format!("{}", vm.native_arg(1));
    OUTPUT.with(|o| o.borrow_mut().push(text));
    Ok(Value::None)
}

fn module_loader(path: &str) -> Result<String, Error> {
    LOADS.with(|l| l.borrow_mut().push(path.to_string()));
    MODULES.with(|m| match m.borrow().get(path) {
        Some(src) => Ok(src.clone()),
        None => Err(Error::with_message(
            ErrorKind::ImportError,
            &format!("Unable to read file '{}.yl' (file not found).", path),
        )),
    })
}

/// Host natives used by the error-class profile (C17): each fails with one ErrorKind.
fn host_fail(vm: &mut Vm, num_args: usize) -> Result<Value, Error> {
    if num_args != 1 {
        return Err(Error::with_message(
            ErrorKind::TypeError,
            "Expected one argument to 'host_fail'.",
        ));
    }
    let which = format!("{}", vm.native_arg(1));
    let kind = match which.as_str() {
        "AttributeError" => ErrorKind::AttributeError,
        "CompileError" => ErrorKind::CompileError,
        "ImportError" => ErrorKind::ImportError,
        "IndexError" => ErrorKind::IndexError,
        "NameError" => ErrorKind::NameError,
        "RuntimeError" => ErrorKind::RuntimeError,
        "TypeError" => ErrorKind::TypeError,
        "ValueError" => ErrorKind::ValueError,
        _ => return Ok(Value::None),
    };
    Err(Error::with_message(kind, &format!("host failure {}", which)))
}

fn host_string(vm: &mut Vm, num_args: usize) -> Result<Value, Error> {
    if num_args != 1 {
        return Err(Error::with_message(
            ErrorKind::TypeError,
            "Expected one argument to 'host_string'.",
        ));
    }
    let text = format!("{}", vm.native_arg(1));
    Ok(Value::ObjString(vm.new_gc_obj_string(&text)))
}

fn state_json(vm: &Vm) -> J {
    let s = vm.verif_state();
    json!({"frames": s.frames, "stack": s.stack, "handlers": s.handlers,
           "hx": s.handling_exception, "wcd": s.working_class_def,
           "modules": s.modules, "chunks": s.chunks, "interned": s.interned})
}

fn run_case_inner(case: &Case) -> J {
    verif::reset_use_after_free_count();
    verif::reset_alloc_index();
    verif::set_quarantine(case.quarantine);
    match case.gc.as_str() {
        "" | "default" => verif::set_gc_mode(verif::GC_DEFAULT),
        "never" => verif::set_gc_mode(verif::GC_NEVER),
        "always" => verif::set_gc_mode(verif::GC_ALWAYS),
        s if s.starts_with("sched:") => {
            verif::set_gc_schedule(s[6..].chars().map(|c| c == '1').collect())
        }
        s if s.starts_with("every:") => {
            // collect at allocations n with n % k == r  ("every:k:r"), up to 1<<16 allocations
            let parts: Vec<usize> = s[6..].split(':').filter_map(|p| p.parse().ok()).collect();
            let (k, r) = (parts.get(0).copied().unwrap_or(1).max(1), parts.get(1).copied().unwrap_or(0));
            verif::set_gc_schedule((0..(1usize << 16)).map(|n| n % k == r).collect())
        }
        _ => verif::set_gc_mode(verif::GC_DEFAULT),
    }
    if case.events != 0 {
        verif::enable(case.events);
    } else {
        verif::disable();
    }
    let _ = verif::take_events();
    MODULES.with(|m| *m.borrow_mut() = case.modules.clone());
    LOADS.with(|l| l.borrow_mut().clear());
    OUTPUT.with(|o| o.borrow_mut().clear());

    let mut snippets = case.snippets.clone();
    if let Some(main) = &case.main {
        snippets.insert(0, Snippet { src: Some(main.clone()), reset: false });
    }

    let mut vm = Vm::with_built_ins();
    vm.set_printer(local_print);
    vm.set_module_loader(module_loader);
    if case.natives {
        vm.define_native("main", "host_fail", host_fail);
        vm.define_native("main", "host_string", host_string);
    }
    let alloc_base = verif::alloc_index();
    // what the interpreter did while it was being created (compiling and running core.yl) is not part of the case
    let boot = verif::take_events();
    if !case.boot_events {
        // chunks announced while core.yl ran are not part of the kept trace: announce them again on first use
        verif::forget_chunks();
    }

    let mut runs = Vec::new();
    for snip in snippets.iter() {
        if snip.reset {
            vm.reset();
            vm.set_printer(local_print);
            if case.natives {
                vm.define_native("main", "host_fail", host_fail);
                vm.define_native("main", "host_string", host_string);
            }
            runs.push(json!({"reset": true, "state": state_json(&vm)}));
            continue;
        }
        let src = snip.src.clone().unwrap_or_default();
        let result = if case.compile_only {
            yarel::compiler::compile(&mut vm, src, None).map(|_| Value::None)
        } else {
            vm::interpret(&mut vm, src, None)
        };
        let out = OUTPUT.with(|o| std::mem::take(&mut *o.borrow_mut()));
        let run = match result {
            Ok(v) => json!({"ok": true, "out": out, "value": format!("{}", v), "state": state_json(&vm)}),
            Err(e) => json!({"ok": false, "out": out, "kind": format!("{:?}", e.kind()),
                             "messages": e.messages(), "state": state_json(&vm)}),
        };
        if case.events & verif::EV_VM != 0 {
            verif::emit(verif::EV_VM, format!("{{\"e\":\"RunEnd\",\"ok\":{}}}", run["ok"].as_bool().unwrap_or(false) as u8));
        }
        runs.push(run);
    }
    let mut reply = json!({"id": case.id, "runs": runs, "uaf": verif::use_after_free_count(),
                           "allocs": verif::alloc_index() - alloc_base,
                           "loads": LOADS.with(|l| l.borrow().clone())});
    if case.stats {
        memory::verif_collect_now();
        let st = memory::verif_heap_stats();
        reply["stats"] = json!({"bytes": st.bytes_allocated, "thr": st.collection_threshold,
            "objects": st.objects, "quarantined": st.quarantined, "collections": st.collections,
            "by_type": st.by_type});
    }
    if case.events != 0 {
        let mut all = if case.boot_events { boot } else { Vec::new() };
        all.extend(verif::take_events());
        let evs: Vec<J> = all
            .into_iter()
            .map(|s| serde_json::from_str(&s).unwrap_or(J::String(s)))
            .collect();
        reply["events"] = J::Array(evs);
    }
    drop(vm);
    memory::verif_purge_quarantine();
    reply
}

pub fn run_case(case: Case) -> J {
    install_panic_hook();
    let _ = take_panic();
    let id = case.id.clone();
    let stack = case.stack_mb.unwrap_or(8) << 20;
    let handle = std::thread::Builder::new()
        .stack_size(stack)
        .spawn(move || run_case_inner(&case))
        .expect("spawn");
    match handle.join() {
        Ok(v) => v,
        Err(_) => json!({"id": id, "panic": take_panic().unwrap_or_else(|| "panic".to_string())}),
    }
}

pub fn run_line(line: &str) -> String {
    match serde_json::from_str::<Case>(line) {
        Ok(case) => run_case(case).to_string(),
        Err(e) => json!({"harness_error": format!("bad case: {}", e)}).to_string(),
    }
}

pub fn tokenize_line(line: &str) -> String {
    install_panic_hook();
    let v: J = match serde_json::from_str(line) {
        Ok(v) => v,
        Err(e) => return json!({"harness_error": format!("bad line: {}", e)}).to_string(),
    };
    let id = v["id"].clone();
    let src = v["src"].as_str().unwrap_or("").to_string();
    let handle = std::thread::spawn(move || verif::tokenize(&src));
    match handle.join() {
        Ok(toks) => {
            let toks: Vec<J> = toks.into_iter().map(|(k, l, s)| json!([k, l, s])).collect();
            json!({"id": id, "tokens": toks}).to_string()
        }
        Err(_) => json!({"id": id, "panic": take_panic()}).to_string(),
    }
}
