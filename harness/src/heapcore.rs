//! C01 / C16 collector core: replay mutator histories chosen by Heap.tla against the real
//! heap (`Root::new/clone/drop`, `allocate_raw`, `collect`, `mark_roots`, `trace_references`,
//! `sweep`) using a harness-defined managed type whose Drop records the reclaimed serial.

use std::cell::RefCell;
use std::collections::HashMap;
use std::sync::Mutex;

use serde_json::{json, Value as J};

use yarel::memory::{self, Gc, GcManaged, Root, UniqueRoot};
use yarel::verif;

use crate::exec;

static FREED: Mutex<Vec<usize>> = Mutex::new(Vec::new());

#[allow(dead_code)]
const KIND_NODE: usize = 0; // traces every child in mark and blacken
const KIND_BOUND: usize = 1; // like ObjBoundMethod: blacken *marks* child 0, blackens the rest
const KIND_LEAKY: usize = 2; // like the old HashMap impl: child 0 is never traced (self-test only)

#[repr(C)]
struct Node<const P: usize> {
    serial: usize,
    kind: usize,
    children: RefCell<Vec<Option<Gc<Node<P>>>>>,
    pad: [u8; P],
}

impl<const P: usize> GcManaged for Node<P> {
    fn mark(&self) {
        for (i, c) in self.children.borrow().iter().enumerate() {
            if self.kind == KIND_LEAKY && i == 0 {
                continue;
            }
            if let Some(c) = c {
                c.mark();
            }
        }
    }

    fn blacken(&self) {
        for (i, c) in self.children.borrow().iter().enumerate() {
            if self.kind == KIND_LEAKY && i == 0 {
                continue;
            }
            if let Some(c) = c {
                if self.kind == KIND_BOUND && i == 0 {
                    c.mark();
                } else {
                    c.blacken();
                }
            }
        }
    }
}

impl<const P: usize> Drop for Node<P> {
    fn drop(&mut self) {
        if let Ok(mut f) = FREED.lock() {
            f.push(self.serial);
        }
    }
}

fn snapshot(_unit: usize) -> J {
    let st = memory::verif_heap_stats();
    let mut freed = FREED.lock().map(|f| f.clone()).unwrap_or_default();
    freed.sort();
    json!({"freed": freed, "raw_bytes": st.bytes_allocated, "raw_thr": st.collection_threshold,
           "objects": st.objects, "collections": st.collections})
}

fn replay<const P: usize>(ops: &[J], nlabels: usize) -> Vec<J> {
    let unit = std::mem::size_of::<Node<P>>();
    let mut handles: HashMap<usize, Vec<Root<Node<P>>>> = HashMap::new();
    let mut ptrs: HashMap<usize, Gc<Node<P>>> = HashMap::new();
    let mut next_serial = 1usize;
    let mut steps = Vec::new();
    for op in ops {
        let name = op[0].as_str().unwrap_or("");
        let arg = |i: usize| op[i].as_u64().unwrap_or(0) as usize;
        match name {
            "new" => {
                // ["new", kind, collect_before]  collect_before: 1 / 0 = forced by the schedule,
                // 2 = leave the decision to the build's own policy (as built)
                let kind = arg(1);
                match arg(2) {
                    1 => verif::set_gc_mode(verif::GC_ALWAYS),
                    0 => verif::set_gc_mode(verif::GC_NEVER),
                    _ => verif::set_gc_mode(verif::GC_DEFAULT),
                }
                let serial = next_serial;
                next_serial += 1;
                let node = Node::<P> {
                    serial,
                    kind,
                    children: RefCell::new(vec![None; nlabels]),
                    pad: [0u8; P],
                };
                // optional 4th element = 1: allocate through UniqueRoot and convert (as define_class does)
                let root: Root<Node<P>> = if arg(3) == 1 {
                    UniqueRoot::new(node).into()
                } else {
                    Root::new(node)
                };
                ptrs.insert(serial, root.as_gc());
                handles.entry(serial).or_default().push(root);
            }
            "link" => {
                let target = ptrs[&arg(3)];
                ptrs[&arg(1)].children.borrow_mut()[arg(2) - 1] = Some(target);
            }
            "unlink" => {
                ptrs[&arg(1)].children.borrow_mut()[arg(2) - 1] = None;
            }
            "clone" => {
                let r = handles[&arg(1)].last().expect("handle").clone();
                handles.get_mut(&arg(1)).unwrap().push(r);
            }
            "asroot" => {
                let r = ptrs[&arg(1)].as_root();
                handles.entry(arg(1)).or_default().push(r);
            }
            "drop" => {
                handles.get_mut(&arg(1)).and_then(|v| v.pop());
            }
            "collect" => {
                memory::verif_collect_now();
            }
            _ => {}
        }
        steps.push(snapshot(unit));
    }
    // Touch every object still held by a handle (a reclaimed one would be a use after free).
    let mut live = Vec::new();
    for (_, hs) in handles.iter() {
        for h in hs {
            live.push(h.serial);
        }
    }
    live.sort();
    steps.push(json!({"final_handles": live, "unit": unit}));
    drop(handles);
    steps
}

/// line: {"id":..,"big":bool,"labels":n,"ops":[...]}
pub fn replay_line(line: &str) -> String {
    exec::install_panic_hook();
    let v: J = match serde_json::from_str(line) {
        Ok(v) => v,
        Err(e) => return json!({"harness_error": format!("bad line: {}", e)}).to_string(),
    };
    let id = v["id"].clone();
    let big = v["big"].as_bool().unwrap_or(false);
    let nlabels = v["labels"].as_u64().unwrap_or(2) as usize;
    let ops: Vec<J> = v["ops"].as_array().cloned().unwrap_or_default();
    if let Ok(mut f) = FREED.lock() {
        f.clear();
    }
    let handle = std::thread::spawn(move || {
        verif::disable();
        verif::set_quarantine(false);
        if big {
            replay::<{ 16384 - 48 }>(&ops, nlabels)
        } else {
            replay::<0>(&ops, nlabels)
        }
    });
    let res = handle.join();
    // the thread's heap has now been destroyed; its remaining objects were dropped after the
    // last snapshot, which is why snapshots are taken inside the thread.
    match res {
        Ok(steps) => json!({"id": id, "steps": steps}).to_string(),
        Err(_) => json!({"id": id, "panic": exec::take_panic()}).to_string(),
    }
}
