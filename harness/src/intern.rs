//! C11: replay of InternTable.tla histories on the real string store, and the real
//! interning path (FNV hashes) with recorded probe events.

use serde_json::{json, Value as J};

use yarel::verif;
use yarel::vm::verif_intern::Table;
use yarel::vm::Vm;

use crate::exec;

/// line: {"id":..,"ops":[[hash,text],...]}  ->  after every op: hit, id (small ints by first
/// appearance), and the whole slot array as [hash,text,id] / null.
pub fn replay_line(line: &str) -> String {
    exec::install_panic_hook();
    let v: J = match serde_json::from_str(line) {
        Ok(v) => v,
        Err(e) => return json!({"harness_error": format!("bad line: {}", e)}).to_string(),
    };
    let id = v["id"].clone();
    let ops: Vec<(u64, String)> = v["ops"]
        .as_array()
        .map(|a| {
            a.iter()
                .map(|o| (o[0].as_u64().unwrap_or(0), o[1].as_str().unwrap_or("").to_string()))
                .collect()
        })
        .unwrap_or_default();
    let full = v["full"].as_bool().unwrap_or(false);
    let handle = std::thread::spawn(move || {
        let mut table = Table::new();
        let mut ids: Vec<usize> = Vec::new();
        let norm = |ptr: usize, ids: &mut Vec<usize>| -> usize {
            match ids.iter().position(|&p| p == ptr) {
                Some(i) => i + 1,
                None => {
                    ids.push(ptr);
                    ids.len()
                }
            }
        };
        let mut steps = Vec::new();
        let n = ops.len();
        for (i, (h, t)) in ops.iter().enumerate() {
            let r = table.intern(*h, t);
            let rid = norm(r.id, &mut ids);
            if full || i + 1 == n {
                let dump: Vec<J> = table
                    .dump()
                    .into_iter()
                    .map(|e| match e {
                        Some((h, t, p)) => json!([h, t, norm(p, &mut ids)]),
                        None => J::Null,
                    })
                    .collect();
                steps.push(json!({"hit": r.hit, "id": rid, "size": table.size(), "mask": table.mask(), "entries": dump}));
            } else {
                steps.push(json!({"hit": r.hit, "id": rid}));
            }
        }
        steps
    });
    match handle.join() {
        Ok(steps) => json!({"id": id, "steps": steps}).to_string(),
        Err(_) => json!({"id": id, "panic": exec::take_panic()}).to_string(),
    }
}

/// line: {"id":..,"texts":[...]} -> interns every text through Vm::new_gc_obj_string on a fresh
/// interpreter with Intern events on from before the interpreter exists; reports the events and,
/// per text, the identity class (small int by first appearance of the returned pointer).
pub fn vm_line(line: &str) -> String {
    exec::install_panic_hook();
    let v: J = match serde_json::from_str(line) {
        Ok(v) => v,
        Err(e) => return json!({"harness_error": format!("bad line: {}", e)}).to_string(),
    };
    let id = v["id"].clone();
    let texts: Vec<String> = v["texts"]
        .as_array()
        .map(|a| a.iter().map(|t| t.as_str().unwrap_or("").to_string()).collect())
        .unwrap_or_default();
    let handle = std::thread::spawn(move || {
        verif::enable(verif::EV_INTERN);
        let _ = verif::take_events();
        let mut vm = Vm::new();
        let mut ptrs: Vec<yarel::memory::Gc<yarel::object::ObjString>> = Vec::new();
        let mut idents = Vec::new();
        for t in texts.iter() {
            let g = vm.new_gc_obj_string(t);
            let k = match ptrs.iter().position(|p| *p == g) {
                Some(i) => i,
                None => {
                    ptrs.push(g);
                    ptrs.len() - 1
                }
            };
            // content must round-trip
            idents.push(json!([k, g.as_str() == t.as_str()]));
        }
        let evs: Vec<J> = verif::take_events()
            .into_iter()
            .map(|s| serde_json::from_str(&s).unwrap_or(J::String(s)))
            .collect();
        verif::disable();
        (idents, evs)
    });
    match handle.join() {
        Ok((idents, evs)) => json!({"id": id, "idents": idents, "events": evs}).to_string(),
        Err(_) => json!({"id": id, "panic": exec::take_panic()}).to_string(),
    }
}
