import sys
sys.path.insert(0, '/verif/lib')
import vlib, mrun
from yprog import *
from scenarios import inv, get, setf, rng
progs = []
def P(name):
    b = Builder(); progs.append((name, b)); return b
b = P("map"); b.var("v", vec(lit(1), lit(2), lit(3))); b.for_("x", inv(inv(b.v("v"), "iter"), "map", b.lam(["a"], lambda: bin_("*", b.v("a"), lit(2))))); b.print(b.v("x")); b.end()
b = P("chain"); b.print(inv(inv(inv(inv(rng(0, 6), "iter"), "filter", b.lam(["a"], lambda: bin_(">", b.v("a"), lit(2)))), "map", b.lam(["a"], lambda: bin_("+", b.v("a"), lit(10)))), "collect"))
b = P("reduce"); b.print(inv(inv(vec(lit(1), lit(2), lit(3)), "iter"), "reduce", b.lam(["a", "c"], lambda: bin_("+", b.v("a"), b.v("c"))), lit(0))); b.print(inv(inv(tup(), "iter"), "reduce", b.lam(["a", "c"], lambda: lit(1)), lit("init")))
b = P("maperr"); b.print(inv(inv(inv(vec(lit(1), lit("s")), "iter"), "map", b.lam(["a"], lambda: bin_("*", b.v("a"), lit(2)))), "collect"))
b = P("useriter"); b.class_("Count", ctor="new"); b.method("iter", []); b.expr(setf(b.v("self"), "n", lit(0))); b.ret(b.v("self")); b.end(); b.method("next", []); b.if_(bin_("==", get(b.v("self"), "n"), lit(3))); b.ret(inv(b.v("StopIter"), "new")); b.end(); b.expr(setf(b.v("self"), "n", bin_("+", get(b.v("self"), "n"), lit(1)))); b.ret(get(b.v("self"), "n")); b.end(); b.end()
b.for_("i", inv(b.v("Count"), "new")); b.print(b.v("i")); b.end()
b = P("useriterderive"); b.class_("Count", sup="Iter", ctor="new"); b.method("next", []); b.ret(inv(b.v("StopIter"), "new")); b.end(); b.end(); b.print(inv(inv(b.v("Count"), "new"), "collect")); b.print(inv(inv(inv(b.v("Count"), "new"), "map", b.lam(["x"], lambda: b.v("x"))), "collect"))
b = P("noniter"); b.class_("C", ctor="new"); b.end(); b.for_("i", inv(b.v("C"), "new")); b.print(b.v("i")); b.end()
b = P("interleave"); b.var("v", vec(lit(1), lit(2))); b.var("it", inv(b.v("v"), "iter")); b.for_("a", b.v("it")); b.for_("c", b.v("it")); b.print(tup(b.v("a"), b.v("c"))); b.end(); b.end(); b.print(inv(b.v("it"), "next"))
b = P("iternonnext"); b.class_("Bad", ctor="new"); b.method("iter", []); b.ret(lit(5)); b.end(); b.end(); b.for_("i", inv(b.v("Bad"), "new")); b.print(b.v("i")); b.end()
toks = [(n, b.toks) for n, b in progs]
model, res = mrun.model_run(toks)
print("TLC:", res.generated, res.distinct, (res.violation or "")[:3000])
dev = vlib.build_harness("dev")
impl = mrun.impl_run(dev, toks)
bad = 0
for n, t in toks:
    if n not in model:
        print("NO MODEL RESULT", n); bad += 1; continue
    if model[n]["oom"]: print("OOM", n)
    msg = mrun.compare(model[n], impl[n])
    if msg:
        bad += 1
        print("MISMATCH", n, "\n   ", msg, "\n   trig", model[n]["trig"], "\n" + program_src(t))
print("programs", len(toks), "bad", bad)
