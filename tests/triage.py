import sys, time, collections, json, io, contextlib, os
sys.path.insert(0, '/verif/lib')
import vlib, profiles, yprog
from vlib import Report
cfg = sys.argv[1]; n = int(sys.argv[2]) if len(sys.argv) > 2 else 4000; seed = int(sys.argv[3]) if len(sys.argv) > 3 else 1
mode = sys.argv[4] if len(sys.argv) > 4 else "sim"
nshow = int(sys.argv[5]) if len(sys.argv) > 5 else 1
dev = vlib.build_harness("dev")
rep = Report("T" + str(os.getpid()), "quick", seed, "model_checking")
runs, stats = profiles.generate(cfg, simulate=(n if mode == "sim" else None), seed=seed)
print(cfg, "programs", len(runs), stats)
print(" triggers", dict(collections.Counter(t for r in runs for t in r['trig'])))
print(" oom", sum(1 for r in runs if r['oom']), "not done", sum(1 for r in runs if not r['done']), "stuck", sum(1 for r in runs if r['result']['kind'] == 'Stuck'))
buf = io.StringIO()
with contextlib.redirect_stdout(buf), contextlib.redirect_stderr(buf):
    ncmp, nuse = profiles.replay(rep, runs, [("dev", dev)], cfg, "T", known_ok=False)
print(" compared", ncmp, "mismatches", len(rep.violations))
cls = collections.Counter(); ex = collections.defaultdict(list)
for what, path in rep.violations:
    d = json.load(open(path))
    spec = d['case'].get('spec', {})
    key = (tuple(sorted(spec.get('trig', []))), what.split('):')[1][:45] if '):' in what else what[:45])
    cls[key] += 1; ex[key].append(d)
for k, v in cls.most_common(20):
    print('==', v, k)
    for d in ex[k][:nshow]:
        print(d['what'][:700])
        print(d['case'].get('source', ''))
for f in os.listdir('/verif/work/replays'):
    if f.startswith("T" + str(os.getpid())): os.remove('/verif/work/replays/' + f)
