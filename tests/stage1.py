import sys
sys.path.insert(0, '/verif/lib')
import vlib, mrun
from yprog import *

progs = []
def P(name):
    b = Builder(); progs.append((name, b)); return b

b = P("arith"); b.print(bin_("+", lit(1), bin_("*", lit(2), lit(3)))).print(bin_("-", bin_("-", lit(10), lit(3)), lit(2))).print(bin_("+", lit("a"), lit("b"))).print(un("-", lit(0))).print(bin_("/", lit(1), lit(0))).print(bin_("==", lit(0), un("-", lit(0))))
b = P("typeerr"); b.print(lit(1)).print(bin_("+", lit(1), lit("a")))
b = P("globals"); b.var("a", lit(1)); b.expr(b.assign("a", bin_("+", b.v("a"), lit(1)))); b.print(b.v("a")); b.print(b.v("zz"))
b = P("locals"); b.block(); b.var("a", lit(1)); b.block(); b.var("a", lit(2)); b.print(b.v("a")); b.end(); b.print(b.v("a")); b.end()
b = P("ifelse"); b.if_(lit(True)); b.print(lit(1)); b.else_(); b.print(lit(2)); b.end(); b.if_(lit(None)); b.print(lit(3)); b.else_(); b.print(lit(4)); b.end(); b.if_(lit(0)); b.print(lit(5)); b.end(); b.print(lit(6))
b = P("while"); b.var("i", lit(0)); b.while_(bin_("<", b.v("i"), lit(3))); b.expr(b.assign("i", bin_("+", b.v("i"), lit(1)))); b.if_(bin_("==", b.v("i"), lit(2))); b.continue_(); b.end(); b.print(b.v("i")); b.end(); b.print(lit("done"))
b = P("break"); b.block(); b.var("i", lit(0)); b.while_(lit(True)); b.var("j", b.v("i")); b.expr(b.assign("i", bin_("+", b.v("i"), lit(1)))); b.if_(bin_(">", b.v("i"), lit(2))); b.break_(); b.end(); b.end(); b.var("k", lit("K")); b.print(b.v("k")); b.print(b.v("i")); b.end()
b = P("fn"); b.fn("f", ["x", "y"]); b.ret(bin_("+", b.v("x"), b.v("y"))); b.end(); b.print(call(b.v("f"), lit(1), lit(2))); b.print(call(b.v("f"), lit(1))); 
b = P("fnimplicit"); b.fn("f", []); b.print(lit("in")); b.end(); b.print(call(b.v("f"))); b.print(b.v("f"))
b = P("closure"); b.fn("mk", []); b.var("c", lit(0)); b.fn("inc", []); b.expr(b.assign("c", bin_("+", b.v("c"), lit(1)))); b.ret(b.v("c")); b.end(); b.ret(b.v("inc")); b.end(); b.var("a", call(b.v("mk"))); b.var("bb", call(b.v("mk"))); b.print(call(b.v("a"))); b.print(call(b.v("a"))); b.print(call(b.v("bb")))
b = P("lambda"); b.block(); b.var("k", lit(10)); b.var("f", b.lam(["x"], lambda: bin_("+", b.v("x"), b.v("k")))); b.print(call(b.v("f"), lit(1))); b.expr(b.assign("k", lit(20))); b.print(call(b.v("f"), lit(1))); b.print(b.v("f")); b.end()
b = P("recursion"); b.fn("fact", ["n"]); b.if_(bin_("<", b.v("n"), lit(2))); b.ret(lit(1)); b.end(); b.ret(bin_("*", b.v("n"), call(b.v("fact"), bin_("-", b.v("n"), lit(1))))); b.end(); b.print(call(b.v("fact"), lit(5)))
b = P("localrec"); b.block(); b.fn("f", ["n"]); b.if_(bin_("==", b.v("n"), lit(0))); b.ret(lit(0)); b.end(); b.ret(call(b.v("f"), bin_("-", b.v("n"), lit(1)))); b.end(); b.print(call(b.v("f"), lit(3))); b.end()
b = P("trycatch"); b.try_(); b.print(lit(1)); b.throw(lit("boom")); b.print(lit(2)); b.catch("e"); b.print(b.v("e")); b.end(); b.print(lit(3))
b = P("tryfinally"); b.try_(); b.try_(); b.throw(lit(7)); b.finally_(); b.var("i", lit(0)); b.print(b.v("i")); b.end(); b.catch("e"); b.print(b.v("e")); b.finally_(); b.print(lit("f2")); b.end()
b = P("uncaught"); b.fn("g", []); b.throw(lit("x")); b.end(); b.fn("f", []); b.expr(call(b.v("g"))); b.end(); b.print(lit(0)); b.expr(call(b.v("f")))
b = P("builtinerr"); b.try_(); b.print(bin_("-", lit("a"), lit(1))); b.catch("e"); b.print(b.v("e")); b.end(); b.fn("f", []); b.ret(bin_("*", lit(None), lit(2))); b.end(); b.expr(call(b.v("f")))
b = P("nested"); b.try_(); b.try_(); b.throw(lit(1)); b.catch("e"); b.print(lit("inner")); b.end(); b.throw(lit(2)); b.catch("e2"); b.print(lit("outer")); b.print(b.v("e2")); b.end()
b = P("retfinally"); b.fn("f", []); b.try_(); b.ret(lit("r")); b.finally_(); b.print(lit("fin")); b.end(); b.end(); b.print(call(b.v("f")))
b = P("vec"); b.var("v", vec(lit(1), lit("a"), vec(lit(2)))); b.print(b.v("v")); b.print(idx(b.v("v"), lit(-1))); b.print(idx(b.v("v"), lit(3))); 
b = P("andor"); b.print(and_(lit(1), lit(2))); b.print(or_(lit(None), lit("x"))); b.print(and_(lit(False), call(b.v("nope")))); b.print(bin_("==", vec(lit(1)), vec(lit(1)))); b.print(bin_("<=", lit(1), lit(2)))
b = P("callerr"); b.expr(call(lit(3)))
b = P("interp"); b.var("n", lit(3)); b.print({"k":"interp","parts":[lit("a"), b.v("n"), lit("b"), vec(lit(1))]})
b = P("stackoverflow"); b.fn("f", ["n"]); b.ret(call(b.v("f"), bin_("+", b.v("n"), lit(1)))); b.end(); b.try_(); b.expr(call(b.v("f"), lit(0))); b.catch("e"); b.print(b.v("e")); b.end()

toks = [(n, b.toks) for n, b in progs]
model, res = mrun.model_run(toks, max_steps=2000)
print("TLC:", res.generated, res.distinct, (res.violation or "")[:1500])
dev = vlib.build_harness("dev")
impl = mrun.impl_run(dev, toks)
bad = 0
for n, t in toks:
    if n not in model:
        print("NO MODEL RESULT", n); bad += 1; continue
    msg = mrun.compare(model[n], impl[n])
    if msg:
        bad += 1
        print("MISMATCH", n, "\n   ", msg, "\n   trig", model[n]["trig"], "\n" + program_src(t))
print("programs", len(toks), "bad", bad)
