import sys
sys.path.insert(0, '/verif/lib')
import vlib, mrun
from yprog import *
progs = []
def P(name):
    b = Builder(); progs.append((name, b)); return b
def rng(a, b_): return {"k": "range", "l": a, "r": b_}
def inv(o, m, *args): return {"k": "inv", "o": o, "m": m, "args": list(args)}
b = P("forrange"); b.for_("i", rng(lit(0), lit(3))); b.print(b.v("i")); b.end(); b.for_("i", rng(lit(2), lit(0))); b.print(b.v("i")); b.end(); b.for_("i", rng(lit(1), lit(1))); b.print(b.v("i")); b.end()
b = P("forvec"); b.var("v", vec(lit(1), lit("a"))); b.for_("x", b.v("v")); b.print(b.v("x")); b.if_(bin_("==", b.v("x"), lit(1))); b.expr(inv(b.v("v"), "push", lit(9))); b.end(); b.end(); b.print(b.v("v"))
b = P("forbreak"); b.fn("f", []); b.for_("i", rng(lit(0), lit(5))); b.if_(bin_("==", b.v("i"), lit(1))); b.continue_(); b.end(); b.if_(bin_("==", b.v("i"), lit(3))); b.break_(); b.end(); b.var("k", b.v("i")); b.print(b.v("k")); b.end(); b.var("z", lit("z")); b.ret(b.v("z")); b.end(); b.print(call(b.v("f")))
b = P("forclosure"); b.var("fs", vec()); b.for_("i", rng(lit(0), lit(2))); b.var("j", b.v("i")); b.expr(inv(b.v("fs"), "push", b.lam([], lambda: bin_("+", b.v("i"), b.v("j"))))); b.end(); b.print(call(idx(b.v("fs"), lit(0)))); b.print(call(idx(b.v("fs"), lit(1))))
b = P("fornoniter"); b.for_("i", lit(3)); b.print(b.v("i")); b.end()
b = P("fortuple"); b.for_("i", tup(lit(1), lit(2))); b.print(b.v("i")); b.end(); b.print(inv(tup(lit(1)), "len")); b.print(inv(vec(), "pop"))
b = P("vecops"); b.var("v", vec()); b.print(inv(b.v("v"), "push", lit(1))); b.print(inv(b.v("v"), "len")); b.print(inv(b.v("v"), "pop")); b.print(inv(b.v("v"), "len", lit(1)))
b = P("nestedfor"); b.var("v", vec(lit(1), lit(2))); b.for_("a", b.v("v")); b.for_("bb", b.v("v")); b.print(bin_("*", b.v("a"), b.v("bb"))); b.end(); b.end()
b = P("rangeerr"); b.print(rng(lit(1), lit("a")))
b = P("rangeshow"); b.print(rng(lit(1), lit(3))); b.print(bin_("==", rng(lit(1), lit(3)), rng(lit(1), lit(3)))); b.var("it", inv(rng(lit(0), lit(1)), "iter")); b.print(inv(b.v("it"), "next")); b.print(inv(b.v("it"), "next")); b.print(b.v("it"))
toks = [(n, b.toks) for n, b in progs]
model, res = mrun.model_run(toks)
print("TLC:", res.generated, res.distinct, (res.violation or "")[:2500])
dev = vlib.build_harness("dev")
impl = mrun.impl_run(dev, toks)
bad = 0
for n, t in toks:
    if n not in model:
        print("NO MODEL RESULT", n); bad += 1; continue
    msg = mrun.compare(model[n], impl[n])
    if msg:
        bad += 1
        print("MISMATCH", n, "\n   ", msg, "\n   trig", model[n]["trig"], "\n" + program_src(t))
print("programs", len(toks), "bad", bad)
