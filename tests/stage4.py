import sys
sys.path.insert(0, '/verif/lib')
import vlib, mrun
from yprog import *
from scenarios import inv, get
progs = []
def P(name):
    b = Builder(); progs.append((name, b)); return b
def setf(o, m, e): return {"k": "setf", "o": o, "m": m, "e": e}
b = P("basic"); b.class_("C", ctor="new"); b.method("m", ["a"]); b.ret(bin_("+", b.v("a"), lit(1))); b.end(); b.method("s", ["x"], "static"); b.ret(tup(b.Self(), b.v("x"))); b.end(); b.end()
b.var("i", inv(b.v("C"), "new")); b.print(b.v("i")); b.print(inv(b.v("i"), "m", lit(1))); b.print(inv(b.v("C"), "s", lit(2))); b.print(b.v("C")); b.print(inv(b.v("i"), "m")); 
b = P("fields"); b.class_("C", ctor="new"); b.method("get", []); b.ret(get(b.v("self"), "v")); b.end(); b.end(); b.var("i", inv(b.v("C"), "new")); b.print(setf(b.v("i"), "v", lit(5))); b.print(inv(b.v("i"), "get")); b.expr(setf(b.v("i"), "get", b.lam([], lambda: lit("field")))); b.print(inv(b.v("i"), "get")); b.print(get(b.v("i"), "nope"))
b = P("ctor"); b.class_("P"); b.method("make", ["x"], "ctor"); b.expr(setf(b.v("self"), "x", b.v("x"))); b.end(); b.method("show", []); b.ret(get(b.v("self"), "x")); b.end(); b.end(); b.var("p", inv(b.v("P"), "make", lit(3))); b.print(inv(b.v("p"), "show")); b.print(inv(b.v("p"), "make", lit(4))); b.print(inv(b.v("p"), "show")); b.print(inv(b.v("P"), "make"))
b = P("inherit"); b.class_("A", ctor="new"); b.method("hi", []); b.ret(lit("A.hi")); b.end(); b.method("who", []); b.ret(inv(b.v("self"), "hi")); b.end(); b.end()
b.class_("B", sup="A", ctor="new"); b.method("hi", []); b.ret(bin_("+", lit("B.hi>"), b.superinv("hi"))); b.end(); b.end()
b.var("x", inv(b.v("B"), "new")); b.print(inv(b.v("x"), "who")); b.print(inv(b.v("x"), "derives", b.v("A"))); b.print(inv(b.v("x"), "derives", b.v("Object"))); b.print(inv(inv(b.v("A"), "new"), "derives", b.v("B"))); b.print(inv(b.v("x"), "derives", lit(3)))
b = P("bound"); b.class_("C", ctor="new"); b.method("m", []); b.ret(b.v("self")); b.end(); b.end(); b.var("i", inv(b.v("C"), "new")); b.var("f", get(b.v("i"), "m")); b.print(b.v("f")); b.print(bin_("==", call(b.v("f")), b.v("i"))); b.print(bin_("==", get(b.v("i"), "m"), get(b.v("i"), "m")))
b = P("superget"); b.class_("A", ctor="new"); b.method("m", []); b.ret(lit("A.m")); b.end(); b.end(); b.class_("B", sup="A", ctor="new"); b.method("m", []); b.var("s", b.superget("m")); b.ret(call(b.v("s"))); b.end(); b.method("bad", []); b.ret(b.superinv("zz")); b.end(); b.end(); b.print(inv(inv(b.v("B"), "new"), "m")); b.print(inv(inv(b.v("B"), "new"), "bad"))
b = P("nonclasssuper"); b.var("X", lit(3)); b.class_("B", sup="X"); b.end(); b.print(lit("unreached"))
b = P("errors"); b.class_("E", sup="Error", ctor="new"); b.end(); b.try_(); b.throw(inv(b.v("E"), "new")); b.catch("e"); b.print(b.v("e")); b.print(inv(b.v("e"), "derives", b.v("Error"))); b.end(); b.throw(inv(b.v("Error"), "new", lit("ctx")))
b = P("errors2"); b.class_("E", sup="RuntimeError", ctor="new"); b.method("init", ["c"], "ctor"); b.expr(b.superinv("new", b.v("c"))); b.end(); b.end(); b.throw(inv(b.v("E"), "init", lit("my context")))
b = P("setonnoninst"); b.expr(setf(lit(3), "x", lit(1)))
b = P("staticvsmethod"); b.class_("C", ctor="new"); b.method("s", [], "static"); b.ret(lit("static")); b.end(); b.method("s", []); b.ret(lit("method")); b.end(); b.end(); b.print(inv(inv(b.v("C"), "new"), "s")); b.print(inv(b.v("C"), "s"))
b = P("localclass"); b.fn("mk", ["tag"]); b.class_("L", ctor="new"); b.method("t", []); b.ret(b.v("tag")); b.end(); b.end(); b.ret(b.v("L")); b.end(); b.var("K1", call(b.v("mk"), lit("one"))); b.var("K2", call(b.v("mk"), lit("two"))); b.print(inv(inv(b.v("K1"), "new"), "t")); b.print(inv(inv(b.v("K2"), "new"), "t")); b.print(bin_("==", b.v("K1"), b.v("K2")))
b = P("selfclosure"); b.class_("C", ctor="new"); b.method("mk", []); b.ret(b.lam([], lambda: b.v("self"))); b.end(); b.end(); b.var("i", inv(b.v("C"), "new")); b.print(bin_("==", call(inv(b.v("i"), "mk")), b.v("i")))
b = P("rebind"); b.class_("A", ctor="new"); b.method("m", []); b.ret(lit("A")); b.end(); b.end(); b.class_("B", sup="A", ctor="new"); b.method("m", []); b.ret(b.superinv("m")); b.end(); b.end(); b.expr(b.assign("A", lit(None))); b.print(inv(inv(b.v("B"), "new"), "m"))
b = P("typeof"); b.class_("C", ctor="new"); b.end(); b.print(call(b.v("type"), inv(b.v("C"), "new"))); b.print(call(b.v("type"), lit(1))); b.print(call(b.v("type"), vec()))
toks = [(n, b.toks) for n, b in progs]
model, res = mrun.model_run(toks)
print("TLC:", res.generated, res.distinct, (res.violation or "")[:3000])
dev = vlib.build_harness("dev")
impl = mrun.impl_run(dev, toks)
bad = 0
for n, t in toks:
    if n not in model:
        print("NO MODEL RESULT", n); bad += 1; continue
    if model[n]["oom"]: print("OOM", n)
    msg = mrun.compare(model[n], impl[n])
    if msg:
        bad += 1
        print("MISMATCH", n, "\n   ", msg, "\n   trig", model[n]["trig"], "\n" + program_src(t))
print("programs", len(toks), "bad", bad)
