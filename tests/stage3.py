import sys
sys.path.insert(0, '/verif/lib')
import vlib, mrun
from yprog import *
from scenarios import inv
progs = []
def P(name):
    b = Builder(); progs.append((name, b)); return b
F = lambda b: b.v("Fiber")
b = P("basic"); b.fn("body", ["x"]); b.print(b.v("x")); b.var("y", inv(F(b), "yield", lit(1))); b.print(b.v("y")); b.var("z", inv(F(b), "yield")); b.print(b.v("z")); b.ret(lit("ret")); b.end()
b.var("f", inv(F(b), "new", b.v("body"))); b.print(inv(b.v("f"), "call", lit("a"))); b.print(inv(b.v("f"), "has_finished")); b.print(inv(b.v("f"), "call", lit("b"))); b.print(inv(b.v("f"), "call")); b.print(inv(b.v("f"), "has_finished")); b.print(b.v("f")); b.print(inv(b.v("f"), "call"))
b = P("noarg"); b.var("f", inv(F(b), "new", b.lam([], lambda: lit(5)))); b.print(inv(b.v("f"), "call")); b.print(inv(b.v("f"), "call"))
b = P("wrongargs"); b.var("f", inv(F(b), "new", b.lam(["x"], lambda: b.v("x")))); b.try_(); b.print(inv(b.v("f"), "call")); b.catch("e"); b.print(b.v("e").__class__ and inv(b.v("e"), "derives", b.v("TypeError")) if False else b.v("e")); b.end(); b.print(inv(b.v("f"), "call", lit(1)))
b = P("yieldtop"); b.print(inv(F(b), "yield", lit(1)))
b = P("newerr"); b.try_(); b.expr(inv(F(b), "new", lit(3))); b.catch("e"); b.print(lit("c1")); b.end(); b.expr(inv(F(b), "new", b.lam(["a","b"], lambda: lit(1), name="lambda-0")))
b = P("nested"); b.fn("inner", []); b.print(lit("i1")); b.expr(inv(F(b), "yield", lit("iy"))); b.print(lit("i2")); b.end(); b.fn("outer", []); b.var("fi", inv(F(b), "new", b.v("inner"))); b.print(inv(b.v("fi"), "call")); b.expr(inv(F(b), "yield", lit("oy"))); b.print(inv(b.v("fi"), "call")); b.ret(lit("odone")); b.end(); b.var("fo", inv(F(b), "new", b.v("outer"))); b.print(inv(b.v("fo"), "call")); b.print(inv(b.v("fo"), "call")); b.print(inv(b.v("fo"), "has_finished"))
b = P("reenter"); b.var("f", lit(None)); b.fn("body", []); b.print(inv(b.v("f"), "call")); b.end(); b.expr(b.assign("f", inv(F(b), "new", b.v("body")))); b.expr(inv(b.v("f"), "call"))
b = P("throwinfiber"); b.fn("body", []); b.expr(inv(F(b), "yield", lit(1))); b.throw(lit("boom")); b.end(); b.var("f", inv(F(b), "new", b.v("body"))); b.try_(); b.expr(inv(b.v("f"), "call")); b.expr(inv(b.v("f"), "call")); b.catch("e"); b.print(lit("caught outside")); b.end()
b = P("yieldinnested"); b.fn("helper", ["v"]); b.var("r", inv(F(b), "yield", b.v("v"))); b.ret(bin_("+", b.v("r"), lit(1))); b.end(); b.fn("body", []); b.var("a", call(b.v("helper"), lit(10))); b.print(b.v("a")); b.ret(call(b.v("helper"), lit(20))); b.end(); b.var("f", inv(F(b), "new", b.v("body"))); b.print(inv(b.v("f"), "call")); b.print(inv(b.v("f"), "call", lit(1))); b.print(inv(b.v("f"), "call", lit(2)))
b = P("tryacross"); b.fn("body", []); b.try_(); b.expr(inv(F(b), "yield", lit(1))); b.throw(lit("t")); b.catch("e"); b.print(b.v("e")); b.end(); b.ret(lit("r")); b.end(); b.var("f", inv(F(b), "new", b.v("body"))); b.try_(); b.print(inv(b.v("f"), "call")); b.print(inv(b.v("f"), "call")); b.finally_(); b.print(lit("fin")); b.end()
toks = [(n, b.toks) for n, b in progs]
model, res = mrun.model_run(toks)
print("TLC:", res.generated, res.distinct, (res.violation or "")[:2500])
dev = vlib.build_harness("dev")
impl = mrun.impl_run(dev, toks)
bad = 0
for n, t in toks:
    if n not in model:
        print("NO MODEL RESULT", n); bad += 1; continue
    msg = mrun.compare(model[n], impl[n])
    if msg:
        bad += 1
        print("MISMATCH", n, "\n   ", msg, "\n   trig", model[n]["trig"], "\n" + program_src(t))
print("programs", len(toks), "bad", bad)
