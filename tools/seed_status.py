#!/usr/bin/env python3
"""table of all seeded changes and their latest screening result"""
import json, glob, os, sys
rows = []
for root, tag in (("/tmp/seed", ""), ("/tmp/seed2", "r2")):
    for md in sorted(glob.glob(root + "/out/C*/m*")):
        if not os.path.exists(md + "/patch.diff"):
            continue
        pid, m = md.split("/")[-2:]
        conf = None
        try:
            conf = json.load(open(md + "/confirm.json")).get("confirmed")
        except Exception:
            pass
        res = {}
        for f in sorted(glob.glob(md + "/screen_*.json"), key=os.path.getmtime):
            for c, r in json.load(open(f))["checks"].items():
                res[c] = r
        cells = []
        for c, r in res.items():
            det = "DET" if (r["exit"] == 1 and r["violations"] > 0) else ("TOOL" if r["exit"] == 2 else "MISS")
            cells.append("%s:%s(%d,%ds)" % (c, det, r["violations"], r["wall"]))
        rows.append("%s%s/%s conf=%s %s" % (tag, pid, m, conf, " ".join(cells) or "PENDING"))
print("\n".join(rows))
