#!/usr/bin/env python3
"""Bulk screening of seeded changes WITHOUT touching /repo: for each mutant, a private copy of /verif is
made whose harness depends on the mutant's scratch worktree (patch applied there), and the listed checks
are run in that copy.  Used to iterate quickly / in parallel; the results recorded under /verif/seeded/ come
from tools/try_seed.sh (patch applied to /repo itself, check run from /verif, patch undone).
usage: seed_screen.py <ID> <mN> [CHECK ...]      (worktree /tmp/seed/<ID>, mutant /tmp/seed/out/<ID>/<mN>)"""
import json, os, re, shutil, subprocess, sys, time

pid, m = sys.argv[1], sys.argv[2]
checks = sys.argv[3:] or [pid]
tier = os.environ.get("SEED_TIER", "quick")
root = os.environ.get("SEED_ROOT", "/tmp/seed")
wt = "%s/%s" % (root, pid)
md = "%s/out/%s/%s" % (root, pid, m)
clone = "/root/scratch/vseed/%s%s" % (os.path.basename(root), pid)


def sh(cmd, cwd=None, timeout=7200, env=None):
    p = subprocess.run(cmd, cwd=cwd, shell=True, capture_output=True, text=True, timeout=timeout, env=env)
    return p.returncode, p.stdout, p.stderr


def run_until_violation(cmd, cwd, env, timeout=7200):
    """bulk screening only: the check is stopped shortly after its first VIOLATION line (the recorded results come from seed_record.py,
    which always lets the check run to its end)"""
    import signal, tempfile, threading
    errf = tempfile.TemporaryFile(mode="w+")
    p = subprocess.Popen(cmd, cwd=cwd, shell=True, stdout=subprocess.PIPE, stderr=errf, text=True, env=env, start_new_session=True)
    out = []
    t0 = time.time()
    killer = {"at": None}

    def watchdog():
        while p.poll() is None:
            if (killer["at"] and time.time() > killer["at"]) or time.time() - t0 > timeout:
                try:
                    os.killpg(p.pid, signal.SIGKILL)
                except ProcessLookupError:
                    pass
                return
            time.sleep(1)
    threading.Thread(target=watchdog, daemon=True).start()
    for line in p.stdout:
        out.append(line)
        if line.startswith("VIOLATION") and killer["at"] is None and os.environ.get("SEED_FULL") != "1":
            killer["at"] = time.time() + 8
    p.wait()
    errf.seek(0)
    e = errf.read()
    rc = p.returncode
    if killer["at"] is not None and rc != 0:
        rc = 1
    return rc, "".join(out), e


os.makedirs("/root/scratch/vseed", exist_ok=True)
if "VERIF_SRC" not in os.environ:
    # screen with the COMMITTED /verif (edits in progress in the working tree must not leak into a screening run)
    sha = sh("git -C /verif rev-parse HEAD")[1].strip()
    snap = "/root/scratch/vsnap/" + sha
    if not os.path.exists(snap + "/.done"):
        os.makedirs(snap, exist_ok=True)
        sh("git -C /verif archive HEAD | tar -x -C %s && touch %s/.done" % (snap, snap))
    os.environ["VERIF_SRC"] = snap
sh("rsync -a --delete --exclude work --exclude .git --exclude __pycache__ --exclude harness/target %s/ %s/" % (os.environ.get("VERIF_SRC", "/verif"), clone))
ct = re.sub(r'path = "[^"]*/yarel"', 'path = "%s/yarel"' % wt, open(clone + "/harness/Cargo.toml").read())
open(clone + "/harness/Cargo.toml", "w").write(ct)
sh("git checkout -q -- yarel yarel-cli", cwd=wt)
# the scratch worktree follows /repo's HEAD (hook commits made after the worktree was created)
sh("git checkout -q --detach %s" % sh("git -C /repo rev-parse HEAD")[1].strip(), cwd=wt)
rc, o, e = sh("git apply %s/patch.diff" % md, cwd=wt)
assert rc == 0, e
res = {"mutant": "%s/%s" % (pid, m), "checks": {}}
env = dict(os.environ, VERIF_REPO=wt)
try:
    for c in checks:
        t0 = time.time()
        rc, o, e = run_until_violation("./check %s --tier %s" % (c, tier), clone, env)
        viol = [l for l in o.splitlines() if l.startswith("VIOLATION")]
        what = [l.strip()[:400] for l in e.splitlines() if l.startswith("  -> ")]
        res["checks"][c] = {"exit": rc, "violations": len(viol), "first": what[:3], "known": len([l for l in o.splitlines() if l.startswith("KNOWN-FINDING")]),
                            "tool_error": [l for l in e.splitlines() if l.startswith("TOOL-ERROR")][:2], "wall": round(time.time() - t0)}
finally:
    sh("git checkout -q -- yarel yarel-cli", cwd=wt)
json.dump(res, open("%s/screen_%s.json" % (md, "_".join(checks)), "w"), indent=1)
print(json.dumps(res))
