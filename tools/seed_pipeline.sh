#!/bin/sh
# usage: [SEED_ROOT=/tmp/seed2] seed_pipeline.sh <ID> [CHECK ...]   confirm (scratch worktree) + screen (private copy of /verif) every mutant of <ID>
# at most four pipelines run at a time (four lock files shared by all rounds)
id=$1; shift
root=${SEED_ROOT:-/tmp/seed}
if [ -z "$SEED_LOCKED" ]; then
  slot=${SEED_SLOT:-$(( $$ % 4 ))}
  SEED_LOCKED=1 exec flock /tmp/seed/lock.$slot "$0" "$id" "$@"
fi
for md in $root/out/$id/m*; do
  m=$(basename $md)
  [ -f $md/patch.diff ] || continue
  [ -f $md/confirm.json ] || python3 /verif/tools/seed_confirm.py $root/$id $md > $md/confirm.log 2>&1
  SEED_ROOT=$root python3 /verif/tools/seed_screen.py $id $m "$@" > $md/screen.log 2>&1
  echo "$id $m confirmed=$(python3 -c "import json;print(json.load(open('$md/confirm.json')).get('confirmed'))" 2>/dev/null) $(tail -1 $md/screen.log | cut -c1-600)"
done
