#!/usr/bin/env python3
"""Regenerates /verif/MANIFEST.json from the table below (single source of truth for the interface)."""
import json, os, subprocess
V = os.path.dirname(os.path.dirname(os.path.abspath(__file__)))
props = [json.loads(l) for l in open(os.path.join(V, "properties.jsonl"))]

CHECKS = {
 "C11": dict(
    level="model_checking",
    text="InternTable.tla is an executable twin of vm::string_store (find_index / insert / adjust_capacity). TLC "
         "explores every history over a key pool with full-hash twins, low-bit colliders and wrap-around chains "
         "(exhaustive state graph), checks NoDuplicate/Findable/AlwaysAHole/IdStable, and every transition is replayed "
         "on the real table comparing the whole slot array and object identities; the real FNV path is bound the other "
         "way round: every Vm::new_gc_obj_string call logs its probe result and TraceIntern.tla must explain each event.",
    note="Trusts TLC and the harness; full-hash collisions reach the real code only through the hook wrapper "
         "verif_intern::Table (same get/insert code with a caller-chosen hash). In-program string producers are "
         "covered by the C05/C13 replays, not here.",
    technique="TLA+ spec + TLC exhaustive + spec->impl replay of every transition + impl->spec trace validation",
    design="4 C11"),
}

def load_hook_commits():
    try:
        out = subprocess.check_output(["git", "-C", "/repo", "log", "--format=%H %s"], text=True)
        return [l.split()[0] for l in out.splitlines() if "verif hooks" in l]
    except Exception:
        return []

m = {
 "version": 1,
 "setup_cmd": "./check setup",
 "hooks": {"guard": "yarel_verif",
           "enable": "rustc cfg flag: RUSTFLAGS='--cfg yarel_verif --check-cfg cfg(yarel_verif)' (set in /verif/harness/.cargo/config.toml; no Cargo feature, no Cargo.toml change in /repo)",
           "baseline_off_cmd": "cd /repo && cargo nextest run --workspace --no-fail-fast --test-threads 8 --offline",
           "source_commits": load_hook_commits(),
           "add_only": True},
 "engines": [
   {"name": "tlc", "path": "/opt/veriftools/tla/tla2tools.jar", "serves_properties": sorted(CHECKS), "kind_free_text": "TLA+ explicit-state model checker (exhaustive, simulation, trace validation)"},
   {"name": "vh", "path": "/verif/harness", "serves_properties": sorted(CHECKS), "kind_free_text": "Rust conformance harness linked against /repo/yarel with --cfg yarel_verif"}],
 "checks": [],
 "not_applicable": [],
 "notes": "Model-based verification with explicit TLA+ specifications (spec/), bound to the code by replay and trace validation; see DESIGN.md.",
}
for p in props:
    pid = p["id"]
    if pid in CHECKS:
        c = CHECKS[pid]
        m["checks"].append({
            "property_id": pid,
            "quick_cmd": "./check %s --tier quick" % pid,
            "thorough_cmd": "./check %s --tier thorough" % pid,
            "evidence_file": "/verif/evidence/%s.json" % pid,
            "replay_cmd_template": "./check %s --replay {path}" % pid,
            "engine": "tlc",
            "level_claimed": {"category": c["level"], "text": c["text"], "design_ref": c["design"]},
            "level_note": c["note"],
            "technique": c["technique"]})
    else:
        m["not_applicable"].append({"property_id": pid, "reason": "check not built yet (framework under construction; DESIGN.md section 8 gives the build order)"})
json.dump(m, open(os.path.join(V, "MANIFEST.json"), "w"), indent=1)
print("checks:", [c["property_id"] for c in m["checks"]])
