#!/usr/bin/env python3
"""Regenerates /verif/MANIFEST.json from the table below (single source of truth for the interface)."""
import json, os, subprocess
V = os.path.dirname(os.path.dirname(os.path.abspath(__file__)))
props = [json.loads(l) for l in open(os.path.join(V, "properties.jsonl"))]

MACHINE_NOTE = 'The reference machine (spec/Machine.tla + Values.tla) is a transcription of the intended semantics checked for totality (NotStuck) by TLC; where no language document exists the pinned behaviour is the definition. Numbers outside the modelled domain are not compared.'
CHECKS = {
 "C02": dict(
    level="model_checking",
    text="Natives.tla is the dispatch-and-validation layer of vm.rs / core.rs as total functions over an adversarial pool of 78 values "
         "(every Value variant; boundary numbers -0, 0.5, NaN, +-inf, +-2^63; empty / multi-byte strings; empty, invalid-byte and self-containing "
         "vectors, maps; unhashable tuples; classes, metaclasses, instances incl. of classes derived from built-ins; closures of every arity, bound "
         "methods and natives; fresh / exhausted iterators; new / suspended / finished fibers; a module; ranges and slices with bounds at +-2^63). "
         "TLC enumerates every case of 17 forms (method call with 0-3 arguments of every name on every receiver, property get / set, calls, 18 binary and "
         "3 unary operators, indexing, index assignment, ranges, iteration incl. stepping every iterable, map keys, inheritance, throw, formatting, each "
         "operation repeated on the same objects, and each operation with an argument that IS the receiver) as initial states, proves the outcome function total (invariant Defined) and prints the predicted outcome - completes, or error class + exact "
         "message; each case runs on the checked and the optimised build and must give exactly that, a rejected operation must leave the variables "
         "holding its operands untouched, and the host must survive every case. The iteration and fiber scenario products (containers mutated while "
         "iterated, iterators shared between loops, fibers called in every state) are executed by the reference machine and replayed. "
         "StackBudget.tla models the frame and slot budgets of a fiber; its terminal states predict the outcome of call chains (functions, methods, "
         "lambdas, inside fibers) around the 64-frame limit with narrow and wide frames, and of deeply nested data. The capture-order and class-hierarchy products are replayed too, and every scenario replay (of every property) runs with reclaimed objects quarantined: an access to one is reported, whatever the program then prints.",
    note="Exhaustive over the stated pool and forms only (not over all programs). String byte semantics are Strings.tla's (C13); results of "
         "successful operations are checked by C05/C12/C13, here only that they complete. Four genuine defects (natives on instances of classes "
         "derived from built-ins, == on two self-containing containers, value-stack overrun with wide frames, deep nesting) are recorded findings: "
         "their cases are expected to crash today and are reported as KNOWN-FINDING.",
    technique="TLA+ total outcome function (Natives.tla, StackBudget.tla) + TLC exhaustive case enumeration + one implementation run per case on two builds; scenario products through Machine.tla",
    design="4 C02"),
 "C19": dict(
    level="model_checking",
    text="NumFormat.tla models doubles exactly (sign, 53-bit mantissa as a bit sequence, binary exponent) and computes exact decimal expansions "
         "with unbounded decimal arithmetic on digit sequences. For every number of a dyadic lattice, every listed boundary (zero, smallest / "
         "largest subnormal, smallest normal, largest finite, 2^53 and 2^63 neighbours, powers of two) and TLC-drawn random mantissas and exponents "
         "of both signs, the interpreter must print the predicted text (exact where the expansion has <= 15 significant digits), read its own output "
         "back to the identical number (sign of zero via 1/x), and read the exact expansion, the midpoint of the gap above (ties to even, with a "
         "negative control), texts just above / below it and the quarter points as the predicted neighbour, through String.to_num and as source "
         "literals. Every text of <= 4 characters over a number alphabet is accepted / rejected as the grammar in the specification says. In a two-phase replay 2 000 TLC-drawn "
         "bit patterns (thorough 20 000) are printed and the printed text - 16-17 significant digits, the length the printer produces - must denote the number again as a "
         "source literal and as to_num argument of a second program. "
         "Scanner.tla decides `1.len`, `1..3`, `1.5`, `1.` token by token for all sources up to 5 characters over the Numbers alphabet.",
    note="Not for all 2^64 doubles: boundaries + lattice + TLC-drawn samples. Where the exact expansion has more than 15 significant digits the "
         "shortest-digit text is not predicted (no model of that algorithm, which lives in the Rust standard library); it is constrained by the "
         "round trip and by the reading of the texts around every gap.",
    technique="TLA+ exact-arithmetic model of doubles and decimal text (NumFormat.tla) + TLC case enumeration + implementation run per case; Scanner.tla exhaustive",
    design="4 C19"),
 "C03": dict(
    level="model_checking",
    text="Scanner.tla is an executable specification of scan_token (white space, comments, the two-character number look-ahead, keywords, every "
         "operator, strings with escapes, hexadecimal / Unicode escapes validated as UTF-8, the interpolation brace stack and its depth limit, line "
         "counting). TLC enumerates every source over eight alphabets up to 3-5 characters (incl. line breaks / carriage returns / tabs inside and outside literals, and escape digit windows running into 2-, 3- and 4-byte characters) as initial states, checks ScanTerminates, and the real "
         "scanner must produce exactly the predicted kinds, texts and lines. The parser is bound by trace validation: every compilation of "
         "~70 000 inputs (prefixes, token-range deletions / duplications / swaps / substitutions / insertions, Unicode noise over the repository's "
         "scripts; all pairs and sampled longer sequences over the token vocabulary; nesting around the stated bounds) must return, fail only with "
         "located compile errors, and its ErrorAt / Synchronise / ParseEnd events must be accepted by TraceParser.tla. Parser.tla is the recogniser "
         "half of compiler.rs as a total function of the token sequence (one operator per parser function, the same order of advance calls, the "
         "Pratt table, every consume with its message, statements, attributes, and the context rules: return / break / continue / self / Self / "
         "super placement, duplicate declarations, reads in a variable's own initialiser, a class deriving itself, importing main); under TLC it "
         "predicts for the repository's scripts, ~3 000 mutations of them, all token pairs and 30 000 longer sequences (one token per line) whether "
         "compilation succeeds and otherwise the first recorded error - offending token, its line, the message - and the compiler must agree exactly; likewise for the context rules "
         "(return / break / continue / self / Self / super placement) under every chain of up to three enclosing constructs (11 110 sources).",
    note="After the first recorded error only the recovery discipline is specified, not which later messages appear. Sources with non-ASCII "
         "characters, quotes or backslashes in token texts are not given to the parser twin (TLC strings) but are still compiled and trace-validated. "
         "Unbounded nesting (10^5 open parentheses) is outside the property's stated bounds and is not generated.",
    technique="TLA+ scanner spec + TLC exhaustive enumeration replayed on the real scanner; TLA+ parser twin (accept / reject, first error) evaluated by TLC per input and compared with the compiler; trace validation of parser events", design="4 C03"),
 "C10": dict(
    level="model_checking",
    text="One specification (Machine.tla) is the arbiter for every build configuration: a stratified sample of all scenario families (closures, "
         "exceptions, fibers, classes, iteration, errors, modules, snippet sequences, HashMap) and of TLC-generated programs is executed by the machine "
         "under TLC and replayed on each build of the configuration set - quick: dev and release; thorough: additionally release with each of safe_stack, "
         "safe_active_fiber, safe_vm_opcodes, safe_class_lookup, debug_stress_gc, release with all of them, dev with all of them. Agreement with the "
         "specification on every build implies pairwise agreement; the repository's 546 scripts are also compared pairwise across the builds, as are "
         "the operations of Natives.tla with boundary operands (overflow-checked vs wrapping arithmetic: extreme ranges, shifts, indices) and the "
         "programs whose correctness depends on when the collector runs (C01's edge probes under each build's own collection schedule). On every build "
         "the control events (TraceVm.tla: both active-fiber representations equal at every event) and every executed instruction (TraceOps.tla: same "
         "offsets and value-stack heights as the instruction table predicts) of the repository's scripts are trace-validated. Call chains whose value stack peaks at SlotsMax-2 .. SlotsMax (StackBudget.tla's budget; the peak measured from the instruction events of the optimised build) must complete alike on every build.",
    note=MACHINE_NOTE + " The other profile checks (C05-C09, C12-C18) already replay on dev and release; this check adds the feature matrix.",
    technique="TLA+ reference machine (TLC) + replay of the same expectations on every build configuration", design="4 C10"),
 "C13": dict(
    level="model_checking",
    text="Strings.tla is a byte-level reference model (UTF-8 boundaries, characters, code points, validity) of string / vector / tuple indexing and "
         "slicing and of every string function, with the error classes, messages and check order of the code. TLC enumerates every case of the pools "
         "as an initial state - all strings of <= 2 (thorough 3) characters over an alphabet mixing 1-, 2-, 3- and 4-byte characters x every index "
         "around every boundary x special numbers x non-numbers, every range incl. bounds at the two ends of the integer domain, every function with every argument combination, byte and code point "
         "sequences valid and invalid - proves that every produced string is valid UTF-8, and prints the expected result of each case; each case is "
         "run as a one-line program on the implementation and must print exactly that. Conversion to and from numbers is decided with NumFormat.tla (exact doubles, exact decimal "
         "expansions): the boundary numbers, TLC-drawn random patterns, every short text over a number alphabet, and the two-phase round trip of printed texts (see C19).",
    note="Exhaustive over the stated pools only. The dyadic-lattice sweep of number printing runs in C19 only.",
    technique="TLA+ functional model + TLC exhaustive case enumeration + one implementation run per case", design="4 C13"),
 "C12": dict(
    level="model_checking",
    text="In Machine.tla a HashMap is a list of pairs whose keys are pairwise not == under the language's equality (NaN never equal, 0 == -0, tuples "
         "structural, strings by content, classes and cached ranges by identity); hashability is Value::has_hash. All 361 ordered pairs of a 19-key "
         "pool (1 / 2-1, 0 / -0, NaN, equal strings and tuples built separately, tuples holding 0 / -0, nil, true, a class, a range, unhashable "
         "vectors and tuples - fresh and held in a variable) run under an 8-operation script; every sequence of 4 operations on one key; and seeded "
         "longer sequences with literals, insert, remove, get, has_key, len, clear and keys / values / items compared as multisets. Executed by the "
         "machine under TLC, replayed on both builds. A value-replacement product inserts a second value that is == to the stored one but distinguishable from it (0 / -0, NaN, equal containers that are different objects and are mutated afterwards).",
    note=MACHINE_NOTE + " Enumeration order of a HashMap is unspecified and compared as a multiset.",
    technique="TLA+ reference machine (TLC) + scenario products replayed on the implementation", design="4 C12"),
 "C14": dict(
    level="model_checking",
    text="Machine.tla models the module table (absent / loading / loaded), runs a module body once as a call in the importing fiber with its own "
         "globals (built-ins + core classes), delivers ImportError for circular, missing and uncompilable modules to the importing statement, and "
         "keeps the as-built rule that a module whose body failed stays 'loading'. Seeded import graphs over main + 1-3 modules (self loops, cycles, "
         "diamonds; imports at top level / in try / in functions / aliased; missing, uncompilable, throwing members; same global names everywhere; "
         "reads, writes and calls through module objects; the importer's globals of every kind - values, built-in functions, classes, closures - "
         "stay invisible inside modules and are not attributes of them) are executed by the machine under TLC and replayed on both builds through a "
         "module loader serving the generated sources; 120 products of how control comes back into a module (exception landing on a handler, fiber "
         "yield / finish, return, import completing or failing) x what the continuing code does with its globals; 45 products of a built-in name "
         "(print, type, Vec, StopIter, Error, Fiber, String, Object, TypeError) rebound by the importer, by the imported module's body or by one of "
         "its functions, before or after another module is loaded, while every other module keeps using the built-in. Module paths that carry the file extension (loaded once, part of cycle detection), imports of an already loaded module in the deepest call frames, and aliased imports whose path has no file name (a run-time ImportError, not a compile error) have a product of their own.",
    note=MACHINE_NOTE + " Scenario products are built outside TLC; not exhaustive.",
    technique="TLA+ reference machine (TLC) + scenario products replayed on the implementation", design="4 C14"),
 "C15": dict(
    level="model_checking",
    text="Machine.tla runs a sequence of snippets on one interpreter state: globals, classes, modules, heap and fibers persist, every snippet gets "
         "a fresh main fiber, a compile error changes nothing, an uncaught error clears only the failing fiber's frames, reset restores the initial "
         "globals. Seeded sequences of 2-6 snippets from a catalogue of 23 (definitions and later uses, compile errors, uncaught throws from every "
         "depth including fibers and finally blocks, imports of good and failing modules, fibers and closures kept across snippets, reset) are "
         "replayed snippet by snippet on ONE Vm per sequence on both builds; per snippet output and outcome must be equal; the control events of every "
         "sequence are validated by TraceVm.tla (every run starts with the exception-in-flight flag clear and ends, when it succeeds, with no frame and no "
         "handler left). A sample of the sequences is typed, one snippet per line, into the shipped REPL (yarel-cli, checked and optimised build): its "
         "stdout and stderr must be what the specification predicts.",
    note=MACHINE_NOTE + " In the REPL layer line numbers are masked (a snippet is one input line).",
    technique="TLA+ reference machine (TLC) + scenario products replayed on the implementation", design="4 C15"),
 "C17": dict(
    level="model_checking",
    text="Machine.tla builds the error a host sees for an uncaught exception exactly as new_error_from_value / runtime_error do: class from the "
         "thrown value, 'Unhandled <class>: <context>', one '[module, line] in f()' entry per active frame of the failing fiber, innermost first, "
         "with the raise location kept only while the innermost frame still belongs to the raising function. Seeded products cross 23 failure "
         "kinds (every built-in failure class, thrown values, a host native failing with each ErrorKind) x call chains through functions, methods, "
         "bound and static methods, constructors, lambdas and fibers x catch site x an earlier handled throw; programs are printed one statement "
         "per line so every line number is predicted (string literals containing escaped line breaks included). Compile errors: 12 kinds of syntax "
         "error placed at a random line must be reported at that line; and Parser.tla (the recogniser half of compiler.rs, see C03) predicts the first "
         "recorded error - offending token, its line, message - of those programs, of 80 programs whose offending token sits on a line of its own "
         "(attribute names and arguments, duplicate declarations, misplaced return / break / continue / self / super, missing delimiters after line "
         "breaks) and of 1 500 mutations of the repository's multi-line scripts; the compiler's first message must be exactly that. A sample of the scenarios and of the non-compiling programs is also run by the "
         "shipped command-line program (yarel-cli, both builds): stdout, the messages on stderr and the exit status (0 / 65 / 70) must be what the "
         "specification's result implies. The error scenarios are also replayed 2^15, 2^16 and 2^17 lines further down the file (every trace line shifted), with two fibers whose failures are pending at the same time, and Scanner.tla's token lines (comments, the end-of-input token) are compared with the scanner's for the Broad alphabet.",
    note=MACHINE_NOTE + " Module frames in traces are covered by C14's scenarios.",
    technique="TLA+ reference machine (TLC) + scenario products replayed on the implementation", design="4 C17"),
 "C18": dict(
    level="model_checking",
    text="The for statement is desugared in Machine.tla as the compiler does (iter(), next(), assign the loop variable, test StopIter), built-in "
         "iterators are index based, and map / filter / collect / reduce are core.yl's own code (Iter, MapIter, FilterIter as a token prelude with "
         "their core.yl line numbers) executed by the machine. Seeded products: 13 iterables x 0-3 adapters x 11 consumers (break / continue / "
         "return, nested and interleaved loops over one iterator, manual next; vectors of 1-5 elements pushed to / popped from during iteration so that "
         "the length moves onto, below and past the cursor; user iterables whose iter() rewinds, or that have next() only, under map / filter / "
         "collect / reduce), replayed on both builds. Ranges are translation invariant: the machine runs a family of range programs with K = 1000 and the implementation runs the same programs with every bound moved up by 2^31, 2^32, 2^32 + 2^31 and 2^52 (only differences to K are printed); sequences of 70-200 elements (long runs rejected by a filter, long chains, reduce, continue on most passes) are replayed too.",
    note=MACHINE_NOTE + " String iteration is decided by C13.",
    technique="TLA+ reference machine (TLC) + scenario products replayed on the implementation", design="4 C18"),
 "C07": dict(
    level="model_checking",
    text="Machine.tla models class definition as the VM performs it (variable nil while defining, superclass check, methods copied down at "
         "definition, the hidden `super` variable, statics in the metaclass only, default and explicit initialisers with Construct, bound "
         "methods, fields before methods, Self, derives over the declared ancestry). Seeded products over hierarchies of depth 1-3 with "
         "define / override / super-call / super-value / omit per level, static methods, constructor chains, fields shadowing methods (also "
         "a field named like a method that an ancestor reaches through super), static methods and constructors read as values through the class, bound "
         "methods in variables and fields, superclass rebinding, local classes and all arities are executed by the machine under TLC and "
         "replayed on checked and optimised builds. A class may override a method it inherits from Object itself (derives), at any level and with super.derives; subclasses inherit the override. Constructors left by a bare return from inside try / finally, the for statement's protocol members (iter, next) as instance fields, and an instance method that reuses a static method's name in the same class body are part of the product. Where self / Self / super may be used at all is decided by Parser.tla "
         "for every chain of up to three enclosing constructs (functions, lambdas, loops, methods / static methods / constructors of classes with and without a superclass declared inside one another; 11 110 sources, accept or first error with line and message).",
    note=MACHINE_NOTE + " Scenario products are built outside TLC; not exhaustive.",
    technique="TLA+ reference machine (TLC) + scenario products replayed on the implementation", design="4 C07"),
 "C05": dict(
    level="model_checking",
    text="Gen.tla generates programs token by token (operator expressions in reverse Polish order over 13 operand values of every kind; "
         "control-flow programs with if/else, while, for, break, continue, blocks, functions, return) and Machine.tla executes each one in the "
         "same TLC behaviour, so TLC visits every program of the exhaustive budgets with its complete run and random larger ones in simulation; "
         "every program is pretty-printed with minimal parentheses from the specification's precedence table and run on the real interpreter; "
         "printed lines, outcome, error class, message and trace must be equal. Added products: loop exits past partly captured locals, every way a "
         "function can end (18 last-statement shapes x 4 kinds of function, every path taken), expression forms outside the operator profiles "
         "(compound assignment to properties / module attributes with every operator, chained assignments, short-circuit operators with effects, "
         "nested interpolation); every operator, index, index assignment and range construction over the adversarial operand pool of Natives.tla "
         "(outcome class and message); and the rule that an assignment is not an operand (`2 * o.x = 5` is a compile error for every operator and "
         "every kind of target). Shift counts around the word size (0, 1, 31-33, 62-65, 127, 128, negative) and bit operations on negative operands, plain and compound, are separate one-case programs.",
    note=MACHINE_NOTE, technique="TLA+ reference machine + TLC-generated programs (exhaustive + simulation) replayed on the implementation", design="4 C05"),
 "C06": dict(
    level="model_checking",
    text="Variables are store cells in Machine.tla, closures capture the environment of cells, and name resolution is done statically by the "
         "generator exactly as the single-pass compiler does (declaration ids in every variable node). TLC enumerates / simulates programs with "
         "blocks, functions, lambdas that read and write captured variables, loops and shadowing; a scenario family (1008 programs) crosses the "
         "capturing scope (block, if, function, while, for, try, catch, finally) x preceding locals x capture kind x exit path (fall-through, break, "
         "continue, return, throw, failing built-in) x escape route, with stack reuse before the closure is called. Replayed on checked and optimised builds. A further product suspends the declaring scope while closures over its variables exist (it yields, a function it called yields, it calls another fiber): direct and closure writes and reads must keep seeing one variable on both sides of every switch.",
    note=MACHINE_NOTE, technique="TLA+ reference machine + TLC-generated programs + scenario products replayed on the implementation", design="4 C06"),
 "C08": dict(
    level="model_checking",
    text="Machine.tla delivers completions (throw / return / break / continue) structurally: to the innermost try whose body is active, through every "
         "finally exactly once. TLC generates programs nesting try/catch/finally with loops, functions, explicit throws, failing built-ins and throws from "
         "callees (exhaustive small budget + simulation); 108 scenarios cross raise site x handler shape and 156 cross the block that is left (try body / "
         "catch / finally) x what the try statement has x what ran before (a completed or catching inner try) x the exit (fall through, return, throw, "
         "callee throw, break, continue), each followed by probes that only a stale handler would disturb. The control events of every trigger-free "
         "program are validated by TraceVm.tla (a handler is popped only by its own frame, no frame returns with a handler installed, an exception lands "
         "on the innermost installed record with the recorded frame count and height, the in-flight flag changes only at Throw / Landed). The ideal run records trigger events for the "
         "six recorded try/finally findings; a differing behaviour is attributed to a finding only if its ideal run contains that finding's trigger, "
         "every other program must agree exactly (output, outcome, error class, message, trace lines). The error scenario products that have a handler (every kind of built-in failure at the end of call chains through functions, methods, constructors, lambdas and fibers) and two fibers suspended inside finally blocks with their exceptions waiting are replayed as well. A variable of the handling function declared before the try statement and captured by closures stays shared with them through the unwinding.",
    note=MACHINE_NOTE + " Six genuine defects of try/finally compilation are recorded in known_findings.json (not small repairs).",
    technique="TLA+ reference machine + TLC-generated programs + scenario products replayed on the implementation; findings attributed by trigger", design="4 C08"),
 "C09": dict(
    level="model_checking",
    text="Machine.tla keeps one frame stack (with its own control stack, cells and handlers) per fiber and models call / yield / return / finish, the "
         "argument and result transfer, and the as-built error cases (finished, already called, wrong argument count, yield at module level, the is_new "
         "quirk). Every one-fiber program with a body of <= 2 actions (11 kinds) under two schedules, plus seeded products of 2-3 fibers x bodies x main "
         "schedules (yields from nested frames, try/finally across a switch, closures shared with a suspended fiber, fibers calling fibers), and 80 "
         "products of the caller's context at the switch (try body, catch block, finally with nothing / an exception / a return value pending, loop, "
         "argument evaluation) x the kind of switch x main-or-fiber, are run through the machine by TLC and replayed on checked and optimised builds; "
         "TraceVm.tla validates every switch event (a resumed fiber is exactly as it was left, caller chain +-1, both representations of the active fiber equal, "
         "the in-flight flag untouched by a switch). Closures over a suspended scope's variables are written and read from both sides of the switch; two fibers suspended inside finally blocks with their exceptions waiting continue with their own exception; StackBudget.tla's rule that fibers nest to any depth - also after runs that died deep inside nested fibers - is replayed for depths 2 .. 1200. The innermost of 2-4 nested fibers calls any fiber up the chain (or a finished / suspended outsider): every waiting fiber refuses, nothing is re-entered, the chain completes in order.",
    note=MACHINE_NOTE + " Scenario products are built outside TLC (same static resolution as the compiler); the expectation always comes from the TLC run of Machine.tla.",
    technique="TLA+ reference machine (TLC) + scenario products replayed on the implementation", design="4 C09"),
 "C04": dict(
    level="model_checking",
    text="Bytecode.tla explores, per emitted function, the complete control-flow graph of the compiler's actual output as a TLC "
         "behaviour (worklist dataflow over abstract states: operand-stack height, handler stack, pending finally-return, exception "
         "in flight; exceptional, JumpFinally and EndFinally edges included) and reports any fetch outside the code, operand naming a "
         "missing constant/local/captured variable, underflow, jump into an operand, or instruction reached with two heights or two "
         "handler stacks, and any scope exit that lowers the stack below a slot a closure has captured without CloseUpvalue (captured-slot "
         "tracking on every path, incl. break / continue). Inputs: every function of the 546 repository scripts and core.yl, programs sized by measurement to sit on / "
         "around every encoding limit (each must be rejected, or be accepted and print the known answer), and the programs generated "
         "for the other properties. The dynamic half of 'every access reads or writes the variable the source names' is the closure "
         "scenario product (capturing scope x exit path x capture order) executed by the reference machine and replayed. "
         "Compile.tla is a generative twin of compiler.rs' code generator (locals, captures, scope exits, jump patching, for / && / || / compound-assignment / "
         "lambda / try-finally / class desugarings, constant sharing, line table): for every scenario program and every program TLC generates from Gen.tla within "
         "the exhaustive budgets it computes the functions the compiler HAS to emit, and the exported chunks must equal them byte for byte (code, line table, "
         "constants, arity, captures). "
         "TraceOps.tla binds the same instruction table (Opcodes.tla) to the interpreter itself: with the instruction hook on, every instruction the "
         "real VM fetches while running the repository's scripts and a sample of every scenario family must be at an offset, in a chunk and with a "
         "value-stack height that the table derives from the previous instruction of that frame (calls enter at offset 0 with arity slots, returns "
         "only from Return, landings at the handler address and height PushExcHandler recorded), on the checked and the optimised build.",
    note="The opcode effect table is transcribed from vm.rs and validated dynamically by TraceOps.tla (trace validation of every executed "
         "instruction). Jump-limit programs (64 KiB of code) go through Bytecode.tla in the thorough tier only.",
    technique="TLA+ spec + TLC exhaustive path exploration of exported bytecode; compiler twin (Compile.tla) compared byte for byte with the emitted chunks; instruction-level trace validation (TraceOps.tla); limit programs with known answers",
    design="4 C04"),
 "C01": dict(
    level="model_checking",
    text="Heap.tla transcribes Heap::collect pass by pass (mark_roots, trace_references loop, sweep) with root handles; "
         "TLC explores every mutator history over 4 boxes x every collection schedule and checks GcSafety (no reachable box "
         "reclaimed, reachability over ALL pointers an object holds), Reclaimed and NoGreyLeft (the trace loop terminates - which "
         "exposed a livelock in the real collector, now fixed). Every history ending in a collection is replayed on the real heap "
         "(reclaimed set after every step). The per-kind pointers of the real object graph are bound by 40-odd edge probes and the 546 "
         "repository scripts run under never/always/periodic schedules with swept objects quarantined: any access to a reclaimed "
         "object, or any output difference between schedules, is a violation. The same schedules are applied to every operation of "
         "Natives.tla written with TEMPORARY operands (nothing but the VM's own rooting keeps them alive while the operation allocates) and "
         "to the scenario products of the other properties (closures in every capture order and exit path, exceptions, fibers, classes, "
         "iteration, maps, runs that die with captured variables live). The probes of a dropped suspended fiber open several captured variables in every order (each must keep the fiber alive by itself).",
    note="Exhaustive only for the collector core within the bound (4 boxes, 2 pointer slots); the whole-program layer is "
         "exploration over a fixed program set under dominating schedules. Trusts the quarantine hook to turn use-after-free into an event.",
    technique="TLA+ spec + TLC exhaustive + history replay on memory::Heap; schedule-differential runs with quarantine",
    design="4 C01"),
 "C16": dict(
    level="model_checking",
    text="Heap.tla under the paced policy (collect iff bytes >= threshold; threshold = 2 x bytes after collection; budget 4 units) "
         "is explored exhaustively over alloc/drop histories with invariants Pacing and Reclaimed; the histories are replayed on the "
         "optimised build with 16 KiB objects so that every threshold equality is hit, comparing bytes_allocated, collection_threshold "
         "and the reclaimed set after every step (and through UniqueRoot -> Root conversion). For whole programs every Alloc/Collect "
         "event recorded from the real heap is validated by TraceHeap.tla (decision to collect, accounting, threshold, Pacing invariant "
         "at every allocation), and n vs 2n loop iterations must leave identical live object counts and bytes. What must be gone after a collection "
         "comes from the specification: Machine.tla computes the reachable set (Live) at the end of every scenario program and of every program TLC "
         "generates from Gen.tla (loops, per-iteration variables, closures, containers, fibers), and the objects surviving a forced collection are "
         "compared with it kind by kind on both builds (garbage kept through a stale internal pointer shows as a surplus). The pacing arithmetic "
         "itself is also discharged over unbounded integers (any budget, any growth factor >= 1, any sizes, any length): spec/Pacing.tla has an inductive invariant "
         "implying Pacing, checked by Apalache and proved as THEOREM Spec => []Pacing by TLAPS (PacingProof.tla, 51 obligations); Heap.tla and TraceHeap.tla step-refine "
         "Pacing.tla (PROPERTY RefinesPacing under TLC), so every explored state and every recorded allocation of the real heap is a step of the proved rule.",
    note="The loop catalogue for n-vs-2n is fixed (24 shapes); the reachable-set comparison runs on scenario products and TLC-generated programs. "
         "A call chain of fibers that died with an uncaught error is kept alive by the implementation for as long as a closure holds a variable "
         "of one of them; the specification models that as built (DESIGN.md 9.3).",
    technique="TLA+ spec + TLC exhaustive + history replay + trace validation of recorded allocation events; reachable set of the reference machine vs surviving objects; Apalache inductive invariant + TLAPS proof of the pacing rule, refined by the TLC-checked specs",
    design="4 C16"),
 "C11": dict(
    level="model_checking",
    text="InternTable.tla is an executable twin of vm::string_store (find_index / insert / adjust_capacity). TLC "
         "explores every history over a key pool with full-hash twins, low-bit colliders and wrap-around chains "
         "(exhaustive state graph), checks NoDuplicate/Findable/AlwaysAHole/IdStable, and every transition is replayed "
         "on the real table comparing the whole slot array and object identities; the real FNV path is bound the other "
         "way round: every Vm::new_gc_obj_string call logs its probe result and TraceIntern.tla must explain each event. StrIdent.tla "
         "enumerates pairs of string PRODUCERS inside programs (literal, concatenation at any split, slice at any byte offset, interpolation, split piece, "
         "replace, from_utf8, character-wise rebuild) x lengths around 8 / 16 / 32 / 64 bytes and around 255 / 256 / 257, 1024, 4097 (thorough: more lengths between 127 and 4097) x misalignments x same-or-one-byte-different contents; "
         "==, reversed == and a map lookup must say exactly 'same bytes'.",
    note="Trusts TLC and the harness; full-hash collisions reach the real code only through the hook wrapper "
         "verif_intern::Table (same get/insert code with a caller-chosen hash).",
    technique="TLA+ spec + TLC exhaustive + spec->impl replay of every transition + impl->spec trace validation",
    design="4 C11"),
}

def load_hook_commits():
    try:
        out = subprocess.check_output(["git", "-C", "/repo", "log", "--format=%H %s"], text=True)
        return [l.split()[0] for l in out.splitlines() if "verif hooks" in l]
    except Exception:
        return []

m = {
 "version": 1,
 "setup_cmd": "./check setup",
 "hooks": {"guard": "yarel_verif",
           "enable": "rustc cfg flag: RUSTFLAGS='--cfg yarel_verif --check-cfg cfg(yarel_verif)' (set in /verif/harness/.cargo/config.toml; no Cargo feature, no Cargo.toml change in /repo)",
           "baseline_off_cmd": "cd /repo && cargo nextest run --workspace --no-fail-fast --test-threads 8 --offline",
           "source_commits": load_hook_commits(),
           "add_only": True},
 "engines": [
   {"name": "tlc", "path": "/opt/veriftools/tla/tla2tools.jar", "serves_properties": sorted(CHECKS), "kind_free_text": "TLA+ explicit-state model checker (exhaustive, simulation, trace validation)"},
   {"name": "vh", "path": "/verif/harness", "serves_properties": sorted(CHECKS), "kind_free_text": "Rust conformance harness linked against /repo/yarel with --cfg yarel_verif"},
   {"name": "apalache", "path": "/opt/veriftools/apalache", "serves_properties": ["C16"], "kind_free_text": "symbolic TLA+ model checker: inductive invariant of spec/Pacing.tla over unbounded integers (supplementary; TLC + replay decide the property)"},
   {"name": "tlapm", "path": "/opt/veriftools/tlapm", "serves_properties": ["C16"], "kind_free_text": "TLA+ proof system: spec/PacingProof.tla, THEOREM Spec => []Pacing (supplementary)"}],
 "checks": [],
 "not_applicable": [],
 "notes": "Model-based verification with explicit TLA+ specifications (spec/), bound to the code by replay and trace validation; see DESIGN.md.",
}
for p in props:
    pid = p["id"]
    if pid in CHECKS:
        c = CHECKS[pid]
        m["checks"].append({
            "property_id": pid,
            "quick_cmd": "./check %s --tier quick" % pid,
            "thorough_cmd": "./check %s --tier thorough" % pid,
            "evidence_file": "/verif/evidence/%s.json" % pid,
            "replay_cmd_template": "./check %s --replay {path}" % pid,
            "engine": "tlc",
            "level_claimed": {"category": c["level"], "text": c["text"], "design_ref": c["design"]},
            "level_note": c["note"],
            "technique": c["technique"]})
    else:
        m["not_applicable"].append({"property_id": pid, "reason": "check not built yet (framework under construction; DESIGN.md section 8 gives the build order)"})
json.dump(m, open(os.path.join(V, "MANIFEST.json"), "w"), indent=1)
print("checks:", [c["property_id"] for c in m["checks"]])
