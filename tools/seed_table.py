#!/usr/bin/env python3
"""Write section 11.3 of DESIGN.md (which check notices which seeded change) from /verif/seeded/*/meta.json.
usage: tools/seed_table.py   (rewrites the block between the 11.3 heading and the next rule in DESIGN.md)"""
import glob, json, re

rows = []
for f in sorted(glob.glob("/verif/seeded/*/meta.json")):
    m = json.load(open(f))
    runs = m.get("checks_run", {})
    by = ", ".join(m.get("detected_by") or []) or "-"
    how = sorted({("applied" if "applied" in (r.get("how") or "") else "screened") for r in runs.values()})
    first = ""
    for c in m.get("detected_by") or []:
        r = runs.get(c, {})
        first = (r.get("first_report") or (r.get("first_reports") or [""])[0] or "").replace("|", "/").replace("\n", " ")
        break
    what = (m.get("breaks") or "").replace("|", "/").replace("\n", " ")
    rows.append("| %s | %s | %s | %s | %s |" % (m["id"], what[:230] + ("..." if len(what) > 230 else ""), by, "/".join(how), first[:160] + ("..." if len(first) > 160 else "")))
n = len(rows)
det = sum(1 for f in glob.glob("/verif/seeded/*/meta.json") if json.load(open(f)).get("detected"))
head = ("%d changes are kept under `/verif/seeded/`; %d are reported by the quick check of the property they break (column *noticed by*; "
        "*applied* = patch applied to /repo and the registered check run from /verif, *screened* = the committed /verif bound to the scratch "
        "worktree carrying the patch). Changes listed with `-` are discussed in 11.2.\n\n"
        "| change | what it does | noticed by | how run | first report |\n|---|---|---|---|---|\n" % (n, det))
block = head + "\n".join(rows) + "\n"
s = open("/verif/DESIGN.md").read()
s2 = re.sub(r"(### 11\.3 Which check notices which change\n\n).*?(\n-{20,}\n\n## Appendix A)", lambda mo: mo.group(1) + block + mo.group(2), s, flags=re.S)
assert s2 != s or "@@SEED_TABLE@@" not in s
open("/verif/DESIGN.md", "w").write(s2)
print(n, det)
