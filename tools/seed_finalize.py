#!/usr/bin/env python3
"""Build /verif/seeded/<id>/ (patch.diff, the demonstration, meta.json) for every confirmed seeded change from the scratch
directories of both rounds, and print the table for DESIGN.md section 11.
The check results recorded are the latest ones: `applied` = tools/seed_record.py (patch applied to /repo, check run from /verif,
patch undone), `screened` = tools/seed_screen.py (a copy of the committed /verif bound to the scratch worktree carrying the patch)."""
import glob, json, os, shutil, sys

OUT = "/verif/seeded"
# what happened before the result recorded below (the earlier screening results were overwritten by the later ones)
HISTORY = {
    "C07-r6m2": "missed on its first screening (no input nested a class without superclass inside a method of a derived class); detected after the context-rule product was given to the parser twin",
    "C02-r5m1": "missed by C02 on its first screening (Natives.tla's pool has few haystack / needle pairs around character boundaries; C13 decides those on the checked build); detected after C02 got the cases of Strings.tla on the optimised build",
    "C02-r5m2": "missed by C02 on its first screening (no range of Natives.tla's pool had a negative end resolving before its start); detected after C02 got the cases of Strings.tla on the optimised build",
    "C03-r5m1": "missed on its first screening (no escape alphabet contained a multi-byte character); detected after the alphabet EscapesU was added",
    "C17-r5m2": "missed on its first screening (no scanner alphabet contained a carriage return); detected after the alphabet Lines was added",
    "C06-r5m1": "missed on its first screening (the second closure over a captured variable was always created while that variable was the head of the open list); detected after the capture-order product got its late re-capture",
    "C19-r5m1": "detected on its first screening (exact expansions of six boundary numbers); the printed-text-as-literal layer was added afterwards to make the detection independent of those",
    "C13-r5m1": "missed by C13 on its first screening (number <-> text was left to C19); C13 now runs the boundary / random / short-text parts of NumFormat.tla itself",
    "C11-r5m3": "the description was read before its screening: StrIdent.tla had no length above 100; lengths 255-257, 1024, 4097 were added first",
    "C14-m3": "missed on its first screening (no scenario rebound a built-in name); detected after module_builtin_scenarios was added",
    "C10-m3": "missed on its first screening (StackBudget.tla does not replay cases within 300 slots of the budget); detected after C10's stack-boundary layer was added",
    "C17-m3": "missed on its first screening (every calling statement was followed by another instruction on its line); detected after the calling statements were varied",
    "C06-r2m1": "missed twice (no closure was exercised across a yield of its declaring scope; then the new family died at its first fiber call); detected after capture_across_switch_scenarios was repaired",
    "C09-r2m2": "missed on its first screening (no fiber further up the chain than the direct caller was re-entered); detected after fiber_reentry_scenarios was added",
    "C01-r2m2": "missed on its first screening (the dropped-suspended-fiber probe captured one variable); detected after the capture-order probes were added",
    "C08-r2m3": "missed on its first screening (no pre-try local of the handling function was captured); detected after handler_intact_scenarios captured one",
    "C02-r2m2": "missed by C02 on its first screening (the capture-order product was replayed by C04 / C06 only); C02 replays it now",
    "C02-r2m3": "missed by C02 on its first screening (a C01-style defect: the class's superclass is not traced); detected after every scenario replay was run with reclaimed objects quarantined and C02 got the class product",
    "C07-r2m1": "missed on its first screening (no constructor left by a bare return from inside a try statement); detected after the class scenarios got one",
    "C07-r2m2": "missed by C07 on its first screening (C18's sources had the protocol members as fields, the class scenarios did not); detected after the `protocol-field` action was added",
    "C07-r2m3": "missed on its first screening (no class body reused a static name for an instance method); detected after the class scenarios did",
    "C18-r2m1": "missed on its first screening (range bounds of 2^32 and above are outside the machine's exact numbers); detected after translated_range_scenarios was added",
    "C18-r2m3": "missed on its first screening (no sequence was longer than a handful of elements); detected after long_run_scenarios was added",
    "C12-r2m3": "missed on its first screening (the values inserted were always distinct strings); detected after the value-replacement product was added",
    "C14-r2m1": "missed on its first screening (no module path carried the file extension); detected after module_path_scenarios was added",
    "C14-r2m2": "missed on its first screening (no import ran in the deepest frames); detected after module_path_scenarios was added",
    "C14-r2m3": "missed on its first screening (no aliased import had a path without a file name); detected after module_path_scenarios was added (the parser twin's inputs got such paths too)",
    "C07-m1": "the patch was read before its screening: Machine.tla resolved `derives` on instances to the native unconditionally and no scenario overrode it; both were changed first, the change was then caught on its first screening",
    "C04-m2": "the patch was read before its screening; the interpolation layouts were added first",
    "C05-m2": "the patch was read before its screening; the shift-count cases were added first",
    "C08-m3": "the patch was read before its screening; C08's caught-failure product was added first",
    "C17-r2m1": "the description was read before its screening; Scanner.tla's line counting was added to C17 first",
    "C17-r2m2": "the description was read before its screening; the far-line replay was added first",
    "C17-r2m3": "the description was read before its screening; interleaved_failure_scenarios was added first (the patch was rebased onto the repair f5a2fd3)",
    "C09-r2m3": "the description was read before its screening; StackBudget.tla's fiber-nesting rule and its replay were added first",
}
rows = []
# rounds: SEED_ROOTS="/tmp/seed5:r5" (default: the scratch roots of rounds 3 and 4)
ROOTS = [tuple(x.split(":")) for x in os.environ.get("SEED_ROOTS", "/tmp/seed:,/tmp/seed2:r2").split(",")]
for root, tag in ROOTS:
    for md in sorted(glob.glob(root + "/out/C*/m*")):
        if not os.path.exists(md + "/patch.diff") or not os.path.exists(md + "/meta.json"):
            continue
        pid, m = md.split("/")[-2:]
        sid = "%s-%s%s" % (pid, tag, m)
        try:
            meta = json.load(open(md + "/meta.json"))
        except Exception:
            continue
        conf = json.load(open(md + "/confirm.json")) if os.path.exists(md + "/confirm.json") else {}
        screens = {}
        for f in sorted(glob.glob(md + "/screen_*.json"), key=os.path.getmtime):
            for c, r in json.load(open(f))["checks"].items():
                screens[c] = dict(r, how="screened (tools/seed_screen.py: committed /verif copy bound to the scratch worktree with the patch applied)")
        dest = os.path.join(OUT, sid)
        applied = {}
        if os.path.exists(os.path.join(dest, "applied.json")):
            applied = json.load(open(os.path.join(dest, "applied.json")))
        if not conf.get("confirmed"):
            # kept only if confirmed (applies, builds, repository suite unchanged, demonstration differs)
            if conf and not conf.get("applies", True) and os.path.isdir(dest):
                pass
            if not os.path.isdir(dest):
                continue
        os.makedirs(dest, exist_ok=True)
        for f in os.listdir(md):
            p = os.path.join(md, f)
            if f.startswith(("screen", "confirm", "pipeline")) or not os.path.isfile(p) or os.path.getsize(p) > 300_000:
                continue
            shutil.copy(p, os.path.join(dest, f if f != "meta.json" else "agent_meta.json"))
        results = dict(screens)
        for c, r in applied.items():
            results[c] = r
        detected_by = sorted(c for c, r in results.items() if r.get("exit") == 1 and r.get("violations", r.get("violation_lines", 0)) > 0)
        out = {"id": sid, "property": pid, "round": int(tag[1:]) if tag[1:].isdigit() else (2 if tag else 1),
               "origin": "independent sub-agent given only the property text and its own scratch worktree of /repo",
               "breaks": meta.get("summary"), "needs": meta.get("needs"), "files": meta.get("files"), "profile": meta.get("profile"),
               "demonstration": {"cmd": meta.get("demo_cmd"), "files": sorted(f for f in os.listdir(dest) if f.startswith(("demo", "expected", "observed")))},
               "confirmed_in_scratch_worktree": {"by": "tools/seed_confirm.py: patch applies, debug + release build, demonstration output differs with / without the change, repository suite unchanged (546 pass, only number_long_decimal fails)",
                                                 "confirmed": conf.get("confirmed"), "tests": (conf.get("tests") or {}).get("summary", "")[-120:], "demo_differs": conf.get("demo_differs")},
               "checks_run": {c: {"cmd": "./check %s --tier quick" % c, "how": r.get("how", "applied to /repo (git -C /repo apply; check from /verif; git -C /repo checkout -- .)"),
                                  "exit": r.get("exit"), "violation_lines": r.get("violations", r.get("violation_lines")),
                                  "first_report": (r.get("first") or r.get("first_reports") or [""])[0][:400], "wall_s": r.get("wall", r.get("wall_s"))}
                              for c, r in results.items()},
               "detected": bool(detected_by), "detected_by": detected_by}
        if sid in HISTORY:
            out["history"] = HISTORY[sid]
        json.dump(out, open(os.path.join(dest, "meta.json"), "w"), indent=1)
        rows.append(out)
print("| id | property | what the change does / what it needs | detected by |")
print("|---|---|---|---|")
for r in rows:
    what = (r["breaks"] or "")[:260].replace("|", "\\|").replace("\n", " ")
    print("| %s | %s | %s | %s |" % (r["id"], r["property"], what, ", ".join(r["detected_by"]) if r["detected"] else "**not detected**"))
print("\n%d seeded changes, %d detected" % (len(rows), sum(1 for r in rows if r["detected"])), file=sys.stderr)
