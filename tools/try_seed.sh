#!/bin/sh
# usage: try_seed.sh <patch.diff> <PROP> [tier]   - apply a seeded change to /repo, run one check, undo the change
set -u
diff=$1; prop=$2; tier=${3:-quick}
cd /repo || exit 2
if ! git diff --quiet; then echo "REFUSING: /repo has uncommitted changes"; exit 2; fi
git apply -3 "$diff" 2>/dev/null || git apply "$diff" || { echo "PATCH DOES NOT APPLY"; git checkout -q -- .; exit 3; }
git reset -q 2>/dev/null
cd /verif && ./check "$prop" --tier "$tier" > /tmp/try_seed.$$.out 2>&1
rc=$?
cd /repo && git checkout -q -- . && git clean -fdq yarel/src 2>/dev/null
grep -E "^(VIOLATION|KNOWN-FINDING|TOOL-ERROR)" /tmp/try_seed.$$.out | head -5
grep -A1 "^VIOLATION" /tmp/try_seed.$$.out | grep "  ->" | head -3 | cut -c1-400
echo "exit=$rc"
rm -f /tmp/try_seed.$$.out
