#!/bin/sh
# usage: try_seed.sh <patch.diff> <PROP> [tier]   - apply a seeded change to /repo, run one check, undo the change
set -u
diff=$1; prop=$2; tier=${3:-quick}
cd /repo || exit 2
if ! git diff --quiet || ! git diff --cached --quiet; then echo "REFUSING: /repo has uncommitted changes"; exit 2; fi
if git apply --check "$diff" 2>/dev/null; then git apply "$diff"
elif git apply -3 "$diff" >/dev/null 2>&1 && ! git status --short | grep -q '^UU'; then git reset -q
else echo "PATCH DOES NOT APPLY"; git reset -q --hard HEAD; exit 3; fi
cd /verif && ./check "$prop" --tier "$tier" > /tmp/try_seed.$$.out 2>&1
rc=$?
cd /repo && git reset -q --hard HEAD && git clean -fdq yarel/src 2>/dev/null
grep -E "^(VIOLATION|TOOL-ERROR)" /tmp/try_seed.$$.out | head -4
grep -c "^KNOWN-FINDING" /tmp/try_seed.$$.out | sed 's/^/known-finding lines: /'
grep -A1 "^VIOLATION" /tmp/try_seed.$$.out | grep "  ->" | head -3 | cut -c1-500
echo "exit=$rc"
rm -f /tmp/try_seed.$$.out
