#!/usr/bin/env python3
"""Run the registered check(s) against a seeded change the prescribed way and record the result under /verif/seeded/:
   git -C /repo apply <patch>;  ./check <PROP> --tier quick  (from /verif, against /repo itself);  git -C /repo checkout -- .
usage: seed_record.py <ID> <mN> [CHECK ...]       (reads /tmp/seed/out/<ID>/<mN>; default check = <ID>)"""
import json, os, shutil, subprocess, sys, time

pid, m = sys.argv[1], sys.argv[2]
checks = sys.argv[3:] or [pid]
md = "%s/out/%s/%s" % (os.environ.get("SEED_ROOT", "/tmp/seed"), pid, m)
dest = "/verif/seeded/%s-%s%s" % (pid, "r2" if os.environ.get("SEED_ROOT", "").endswith("seed2") else "", m)


def sh(cmd, cwd=None, timeout=7200):
    p = subprocess.run(cmd, cwd=cwd, shell=True, capture_output=True, text=True, timeout=timeout)
    return p.returncode, p.stdout, p.stderr


rc, o, e = sh("git status --porcelain --untracked-files=no", cwd="/repo")
assert o.strip() == "", "/repo has uncommitted changes:\n" + o
meta = json.load(open(md + "/meta.json"))
confirm = json.load(open(md + "/confirm.json")) if os.path.exists(md + "/confirm.json") else {}
head = sh("git rev-parse HEAD", cwd="/repo")[1].strip()
vhead = sh("git rev-parse HEAD", cwd="/verif")[1].strip()
rc, o, e = sh("git apply %s/patch.diff" % md, cwd="/repo")
assert rc == 0, e
results = {}
try:
    for c in checks:
        t0 = time.time()
        rc, o, e = sh("./check %s --tier quick" % c, cwd="/verif")
        viol = [l for l in o.splitlines() if l.startswith("VIOLATION")]
        what = [l.strip()[3:].strip()[:500] for l in e.splitlines() if l.startswith("  -> ")]
        results[c] = {"cmd": "./check %s --tier quick" % c, "exit": rc, "violation_lines": len(viol), "known_finding_lines": len([l for l in o.splitlines() if l.startswith("KNOWN-FINDING")]),
                      "first_reports": what[:2], "tool_errors": [l for l in e.splitlines() if l.startswith("TOOL-ERROR")][:2], "wall_s": round(time.time() - t0)}
finally:
    sh("git checkout -- . && git clean -fdq yarel/src yarel-cli/src", cwd="/repo")
os.makedirs(dest, exist_ok=True)
applied = {}
if os.path.exists(os.path.join(dest, "applied.json")):
    applied = json.load(open(os.path.join(dest, "applied.json")))
for c, r in results.items():
    applied[c] = {"exit": r["exit"], "violations": r["violation_lines"], "known": r["known_finding_lines"], "first": r["first_reports"], "wall": r["wall_s"],
                  "tool_error": r["tool_errors"], "repo_head": head, "verif_head": vhead,
                  "how": "applied to /repo (git -C /repo apply patch.diff; ./check from /verif against /repo; git -C /repo checkout -- .)"}
json.dump(applied, open(os.path.join(dest, "applied.json"), "w"), indent=1)
print(pid, m, {c: (r["exit"], r["violation_lines"]) for c, r in results.items()}, "detected" if any(r["exit"] == 1 and r["violation_lines"] > 0 for r in results.values()) else "MISSED")
