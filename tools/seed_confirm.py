#!/usr/bin/env python3
"""Confirm a seeded change independently, in its scratch worktree (never in /repo):
  * the patch applies and the workspace builds (debug + release),
  * the repository's own test suite still passes exactly as on the clean tree (546 pass, only
    number_long_decimal fails),
  * the demonstration (meta.json "demo_cmd", run from the worktree root) behaves differently with
    and without the change.
usage: seed_confirm.py <worktree> <mutant dir, e.g. /tmp/mut/C08/_out/m1>   -> writes <mutant dir>/confirm.json"""
import json, os, re, subprocess, sys

wt, md = sys.argv[1], sys.argv[2]
meta = json.load(open(os.path.join(md, "meta.json")))


def sh(cmd, timeout=2400):
    try:
        p = subprocess.run(cmd, cwd=wt, shell=True, capture_output=True, text=True, timeout=timeout)
        return p.returncode, p.stdout, p.stderr
    except subprocess.TimeoutExpired:
        return -999, "", "TIMEOUT"


def norm(s):
    s = re.sub(r"0x[0-9a-fA-F]+", "0xADDR", s)
    s = re.sub(r"thread '([^']*)' \(\d+\)", r"thread '\1'", s)
    s = re.sub(r"(Finished|Compiling|Running|Blocking|warning:).*\n", "", s)
    s = re.sub(r"\d+\.\d+s", "Ns", s)
    return s


def demo():
    cmds = meta["demo_cmd"]
    if isinstance(cmds, str):
        cmds = [cmds]
    out = []
    for c in cmds:
        c = re.split(r"\s{2,}\(|\s+\(=|\s+;\s*compare|\s+#", c)[0].strip()      # some metas append prose to the command
        c = re.sub(r"git apply \S+\s*&&\s*", "", c)                               # the patch is applied / removed by this script
        c = re.sub(r"\s*(&&|;)\s*git checkout -- \.", "", c)
        rc, o, e = sh(c, timeout=600)
        out.append({"cmd": c, "rc": rc, "out": norm(o)[-4000:], "err": norm(e)[-3000:]})
    return out


res = {"mutant": md}
sh("git checkout -q -- yarel yarel-cli")
sh("git checkout -q --detach %s" % subprocess.run("git -C /repo rev-parse HEAD", shell=True, capture_output=True, text=True).stdout.strip())
rc, o, e = sh("cargo build --offline -q && cargo build --offline -q --release")
assert rc == 0, e[-2000:]
clean = demo()
rc, o, e = sh("git apply %s" % os.path.join(md, "patch.diff"))
res["applies"] = rc == 0
if rc == 0:
    rc, o, e = sh("cargo build --offline -q && cargo build --offline -q --release")
    res["builds"] = rc == 0
    if rc == 0:
        mutant = demo()
        res["demo_differs"] = [c != m for c, m in zip(clean, mutant)]
        res["clean"], res["mutant_run"] = clean, mutant
        rc, o, e = sh("cargo nextest run --workspace --no-fail-fast --test-threads 8 --offline 2>&1 | tail -400")
        summ = re.search(r"(\d+) tests run: (\d+) passed(?: \([^)]*\))?, (\d+) failed", o)
        fails = sorted(set(re.findall(r"FAIL \[[^\]]*\] (?:\(\S+\) )?(\S+ \S+)", o)))
        res["tests"] = {"summary": summ.group(0) if summ else o[-500:], "failed": fails}
        res["tests_ok"] = bool(summ) and summ.group(2) == "546" and summ.group(3) == "1" and all("number_long_decimal" in f for f in fails)
sh("git checkout -q -- yarel yarel-cli")
res["confirmed"] = bool(res.get("applies") and res.get("builds") and res.get("tests_ok") and any(res.get("demo_differs", [])))
json.dump(res, open(os.path.join(md, "confirm.json"), "w"), indent=1)
print(json.dumps({k: v for k, v in res.items() if k not in ("clean", "mutant_run")}))
