#!/bin/sh
# usage: [SEED_ROOT=/tmp/seed2] seed_pipe3.sh <ID> [CHECK ...]   confirm (scratch worktree) + screen (private copy of /verif) every mutant of <ID>
# at most two pipelines run at a time (two lock files); finished steps are not repeated
root=${SEED_ROOT:-/tmp/seed}
export SEED_ROOT=$root
id=$1; shift
if [ -z "$SEED_LOCKED" ]; then
  slot=2
  SEED_LOCKED=1 exec flock /tmp/seed/lock.$slot "$0" "$id" "$@"
fi
checks="$*"; [ -z "$checks" ] && checks=$id
tag=$(echo $checks | tr ' ' '_')
for md in $root/out/$id/m*; do
  m=$(basename $md)
  [ -f $md/patch.diff ] || continue
  [ -f $md/confirm.json ] || python3 /verif/tools/seed_confirm.py $root/$id $md > $md/confirm.log 2>&1
  [ -f $md/screen_$tag.json ] || python3 /verif/tools/seed_screen.py $id $m $checks > $md/screen.log 2>&1
  echo "$id $m confirmed=$(python3 -c "import json;print(json.load(open('$md/confirm.json')).get('confirmed'))" 2>/dev/null) $(cut -c1-700 $md/screen_$tag.json | tr '\n' ' ')"
done
