#!/usr/bin/env python3
"""Confirm a seeded change independently: applies <outdir>/<m>.diff in a scratch worktree, checks that it
builds (debug+release), that the repository's own test suite still passes (only number_long_decimal fails),
and that the demonstration's output differs between the clean and the changed tree.
usage: verify_seed.py <worktree> <outdir> <m> <result.json>"""
import json, os, subprocess, sys, glob, re

wt, outdir, m, resfile = sys.argv[1:5]

def sh(cmd, cwd=wt, timeout=1800, inp=None):
    p = subprocess.run(cmd, cwd=cwd, shell=True, capture_output=True, text=True, timeout=timeout, input=inp)
    return p.returncode, p.stdout, p.stderr

def build():
    for prof in ("", "--release"):
        rc, o, e = sh("cargo build --offline -q -p yarel-cli %s" % prof)
        if rc != 0:
            return False, e[-2000:]
    return True, ""

def run_demos():
    res = {}
    demos = sorted(glob.glob(os.path.join(outdir, m + ".demo*")))
    for d in demos:
        for prof in ("debug", "release"):
            exe = os.path.join(wt, "target", prof, "yarel-cli")
            try:
                if d.endswith(".yl"):
                    rc, o, e = sh("%s %s" % (exe, os.path.basename(d)), cwd=outdir, timeout=120)
                elif d.endswith(".txt"):
                    rc, o, e = sh(exe, cwd=outdir, timeout=120, inp=open(d).read())
                else:
                    continue
            except subprocess.TimeoutExpired:
                rc, o, e = -999, "", "timeout"
            e = re.sub(r"thread 'main' \(\d+\)", "thread 'main'", e)
            res["%s:%s" % (os.path.basename(d), prof)] = {"rc": rc, "out": o[-3000:], "err": e[-1500:]}
    return res

sh("git checkout -q -- . && git clean -fdq -e target")
ok, err = build()
assert ok, err
clean = run_demos()
rc, o, e = sh("git apply %s" % os.path.join(outdir, m + ".diff"))
result = {"seed": os.path.basename(outdir.rstrip('/')) + ":" + m, "applies": rc == 0}
if rc == 0:
    ok, err = build()
    result["builds"] = ok
    if ok:
        mutant = run_demos()
        result["demo_differs"] = {k: clean[k] != mutant[k] for k in clean}
        result["clean"] = clean
        result["mutant"] = mutant
        rc, o, e = sh("cargo nextest run --workspace --no-fail-fast --test-threads 8 --offline 2>&1 | tail -400")
        summ = re.search(r"(\d+) tests run: (\d+) passed, (\d+) failed", o)
        fails = sorted(set(re.findall(r"FAIL \[[^\]]*\] (?:\(\S+\) )?(\S+ \S+)", o)))
        result["tests"] = {"summary": summ.group(0) if summ else o[-500:], "failed": fails}
        result["tests_ok"] = bool(summ) and summ.group(2) == "546" and summ.group(3) == "1"
sh("git checkout -q -- . && git clean -fdq -e target")
json.dump(result, open(resfile, "w"), indent=1)
print(json.dumps({k: v for k, v in result.items() if k not in ("clean", "mutant")}))
