#!/bin/sh
# usage: SEED_ROOT=/tmp/seed5 seed_pipe5.sh <ID> [CHECK ...]   confirm (scratch worktree) + screen (private copy of the committed /verif) every change of <ID>
root=${SEED_ROOT:-/tmp/seed5}
export SEED_ROOT=$root
id=$1; shift
checks="$*"; [ -z "$checks" ] && checks=$id
tag=$(echo $checks | tr ' ' '_')
for md in $root/out/$id/m*; do
  m=$(basename $md)
  [ -f $md/patch.diff ] || continue
  [ -f $md/confirm.json ] || python3 /verif/tools/seed_confirm.py $root/$id $md > $md/confirm.log 2>&1
  [ -f $md/screen_$tag.json ] || python3 /verif/tools/seed_screen.py $id $m $checks > $md/screen.log 2>&1
  echo "$id $m confirmed=$(python3 -c "import json;print(json.load(open('$md/confirm.json')).get('confirmed'))" 2>/dev/null) $(cut -c1-600 $md/screen_$tag.json | tr '\n' ' ')"
done
