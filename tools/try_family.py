#!/usr/bin/env python3
"""Run ONE scenario family through the reference machine (TLC) and the implementation, without writing evidence.
usage: try_family.py <function in lib/scenarios.py> [PROP] [filter-substring]     (development aid; not a registered check)"""
import os, random, sys
HERE = os.path.dirname(os.path.abspath(__file__))
sys.path.insert(0, os.path.join(HERE, "..", "lib"))
import vlib, profcheck, scenarios  # noqa

fam = sys.argv[1]
prop = sys.argv[2] if len(sys.argv) > 2 else "C05"
flt = sys.argv[3] if len(sys.argv) > 3 else ""
fn = getattr(scenarios, fam)
try:
    progs = fn()
except TypeError:
    progs = fn(random.Random(1), int(os.environ.get("COUNT", "200")))
progs = [p for p in progs if flt in p[0]]
rep = vlib.Report(prop, "dev-aid", 1, "model_checking")
vlib.WORK = os.path.join(vlib.WORK, "aid")          # keep the registered checks' work files apart
os.makedirs(vlib.WORK, exist_ok=True)
bins = [("dev", vlib.build_harness("dev")), ("release", vlib.build_harness("release"))]
n = profcheck.run_scenarios(rep, fam[:12], progs, bins, prop)
print("programs", len(progs), "comparisons", n, "violations", len(rep.violations), "known", [k for k, _ in rep.known])
print({k: v for k, v in rep.coverage.items() if k != "samples"})
