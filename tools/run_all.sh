#!/bin/sh
# usage: tools/run_all.sh [PARALLEL] [PROP ...]   - runs the quick checks against /repo as it is, PARALLEL at a time (default 3); logs in work/logs/
par=${1:-3}; [ $# -gt 0 ] && shift
props="$*"; [ -z "$props" ] && props="C03 C09 C04 C06 C10 C02 C05 C01 C19 C08 C16 C13 C18 C11 C17 C14 C07 C15 C12"
mkdir -p /verif/work/logs
cd /verif || exit 2
echo $props | tr ' ' '\n' | xargs -P $par -I{} sh -c 'start=$(date +%s); ./check {} --tier quick > work/logs/{}.log 2>&1; rc=$?; echo "{} exit=$rc wall=$(( $(date +%s) - start ))s violations=$(grep -c ^VIOLATION work/logs/{}.log) known=$(grep -c ^KNOWN-FINDING work/logs/{}.log)"'
