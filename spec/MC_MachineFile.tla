---------------------------- MODULE MC_MachineFile ----------------------------
(* Runs the reference machine on token programs read from a file (one JSON record per line:
   id, prog).  Used for hand-written scenario programs and for debugging the machine itself. *)
EXTENDS Machine, IOUtils
Progs == TLCEval(ndJsonDeserialize(IOEnv.PROGS))
(* Records compare field by field in the order in which TLC first met the field names; values
   are [k, v] records whose kind must be compared before the payload.  The root module is read
   first, so naming k before v here fixes the order (checked by the ASSUME in Values.tla). *)
FieldOrder == [k |-> 0, v |-> 0]
VARIABLES m, pid
Init == \E i \in 1..Len(Progs) : m = InitMachineFull(Progs[i].snips, Progs[i].mods) /\ pid = Progs[i].id
Next == m.status = "run" /\ m.n < MaxSteps /\ m' = Step(m) /\ UNCHANGED pid
Spec == Init /\ [][Next]_<<m, pid>>
Emit == (m.status = "done" \/ m.n >= MaxSteps) =>
          PrintT(<<"RUN", ToJson([id |-> pid, runs |-> m.runs, out |-> m.out, result |-> m.result, trig |-> m.trig, oom |-> m.oom,
                                   done |-> m.status = "done", steps |-> m.n,
                                   heap |-> IF m.status = "done" /\ ~m.oom THEN LiveCounts(m) ELSE [exact |-> FALSE]])>>)
===============================================================================
