SPECIFICATION Spec
CONSTANTS
  InitCap = 4
  KeepHist = TRUE
  KeyPool <- PoolTop
VIEW view
INVARIANTS TypeOK NoDuplicate Findable SizeExact AlwaysAHole EqualIffSame
PROPERTY IdStable
ACTION_CONSTRAINT EmitEdge
