SPECIFICATION Spec
CONSTANTS
  MaxSteps = 300
  ExprBudget = 4
  Budget = 13
  Names = {"a", "b"}
  FnNames = {"f", "g"}
  Vocab = {"print", "var", "set", "block", "if", "fn", "call", "call1", "lam", "return", "while", "exprstmt", "arith"}
INVARIANTS EmitRun NotStuck
CHECK_DEADLOCK FALSE
