SPECIFICATION Spec
CONSTANTS
  Lens = {0, 1, 7, 8, 9, 31, 32, 33, 40, 64}
  Offs = {0, 1, 3, 8}
  LongLens = {255, 256, 257, 1024, 4097}
  LongOffs = {0, 3}
  Routes = {"lit", "cat", "slice", "interp", "split", "replace", "utf8", "join"}
INVARIANTS VerdictIsSame Emit
CHECK_DEADLOCK FALSE
