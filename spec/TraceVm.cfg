SPECIFICATION Spec
CONSTANTS
  FramesMax = 64
INVARIANTS FrameBound HandlersBelongToLiveFrames HandlersNested
POSTCONDITION Accepted
CHECK_DEADLOCK FALSE
