------------------------------- MODULE Machine -------------------------------
(* Reference machine for yarel programs given as flat sequences of structured tokens.

   The whole interpreter state is one record `m`; `Step(m)` is a pure function: fetch the next
   statement token of the active frame (or continue the pending work items of that frame) and
   run work items until the frame has none left or a *blocking* event happened (a frame was
   pushed or popped, the active fiber changed, an exception was delivered, the run ended).
   One TLC step is therefore one statement, one call, one return, one fiber switch, or one
   exception delivery.

   Expressions are trees; they are evaluated by an explicit work stack (`k`, head = next item)
   and a value stack (`vs`, last = top) per frame, so that calls, fiber switches and exceptions
   can happen in the middle of any expression.  Variables are store cells: a frame's `env`
   maps declaration ids to cell addresses, closures capture the env (i.e. the variables, not
   their values), every execution of a declaration allocates a fresh cell.  Name resolution is
   static, as in the single-pass compiler: each variable node carries the id of the declaration
   it resolves to (0 = module global, looked up when the use executes).

   Control flow is structural: `ctl` is the stack of constructs dynamically active in a frame
   (blocks, loops, try statements with their phase and pending completion), and a completion
   (break / continue / return / throw) is delivered by walking it outwards - which is exactly
   what the property statements about exceptions and finally say.                              *)
EXTENDS Values, Json, IOUtils

CONSTANTS MaxSteps        \* bound on machine steps per run (a run that exceeds it is not compared)

(* =========================================================================================
   Programs
   ========================================================================================= *)
(* token fields (all optional except t):
     t   : print var expr if else end while for block break continue return throw try catch finally fn
     e   : expression            x : name          d : declaration id (0 = global)
     ps  : parameters <<[x, d]>>                                                     *)
(* expression nodes [k, ...]:
     lit v | var x d | bin op l r | un op e | and l r | or l r | assign x d e | cassign x d op e
     call f args | lam ps e name | vec es | tup es | idx o i | setidx o i e | range l r | interp parts
     inv o m args | get o m | setf o m e | csetf o m op e | map kvs                                                *)

Openers == {"if", "while", "for", "block", "try", "fn", "class", "method"}
(*  class x d sup(var node or Nil-literal) superd ctor ;  method x ps kind(method|static|ctor) sd ... end ;  end  *)

RECURSIVE ScanTo(_, _, _, _)
ScanTo(p, i, depth, want) ==         \* first j >= i at nesting depth 0 with p[j].t \in want (0 = none)
    IF i > Len(p) THEN 0
    ELSE LET t == p[i].t IN
         IF depth = 0 /\ t \in want THEN i
         ELSE IF t \in Openers THEN ScanTo(p, i + 1, depth + 1, want)
         ELSE IF t = "end" THEN (IF depth = 0 THEN 0 ELSE ScanTo(p, i + 1, depth - 1, want))
         ELSE ScanTo(p, i + 1, depth, want)

EndOf(p, i)     == ScanTo(p, i + 1, 0, {"end"})
ElseOf(p, i)    == ScanTo(p, i + 1, 0, {"else"})
CatchOf(p, i)   == ScanTo(p, i + 1, 0, {"catch"})
FinallyOf(p, i) == ScanTo(p, i + 1, 0, {"finally"})

(* =========================================================================================
   Heap objects
   ========================================================================================= *)
Cell(v)              == [k |-> "cell", v |-> v]
Closure(at, env, name, ps, lam, body, mod) ==
    [k |-> "clo", at |-> at, env |-> env, name |-> name, ps |-> ps, lam |-> lam, body |-> body, mod |-> mod,
     sd |-> 0, ctor |-> ""]      \* sd: declaration id of self / Self in a method; ctor: "" | "default" | "init"
VecObj(es)           == [k |-> "vec", es |-> es]
TupObj(es)           == [k |-> "tuple", es |-> es]
RangeObj(a, b)       == [k |-> "range", a |-> a, b |-> b]
RangeCacheSize == 8
InstObj(cls, fields) == [k |-> "inst", cls |-> cls, fields |-> fields]     \* cls: a class value (Cls(name) built-in, or Ref to a class object)
ClassObj(name, sup, methods, statics) == [k |-> "class", name |-> name, sup |-> sup, methods |-> methods, statics |-> statics]
BoundObj(recv, meth) == [k |-> "bound", recv |-> recv, meth |-> meth]
IterObj(kind, src, pos) == [k |-> "iter", kind |-> kind, src |-> src, pos |-> pos]

ErrorClasses == {"Error", "RuntimeError", "AttributeError", "IndexError", "ImportError", "NameError",
                 "TypeError", "ValueError", "StopIter"}

(* =========================================================================================
   Machine state
   ========================================================================================= *)
(* a completion: kind, value, and - for exceptions - where it was raised (line, function), which
   is what the error trace of an uncaught exception reports for the innermost frame as long as
   that frame still belongs to the raising function *)
NormalC == [c |-> "normal", v |-> Nil, ol |-> 0, of |-> -1, od |-> 0]
Comp(c, v) == [c |-> c, v |-> v, ol |-> 0, of |-> -1, od |-> 0]

Ctl(c, at, envLen) == [c |-> c, at |-> at, envLen |-> envLen, ph |-> "body", pend |-> NormalC, it |-> Nil, vsLen |-> 0]

Frame(clo, pc, env, self, mod) ==
    [clo |-> clo, pc |-> pc, env |-> env, k |-> <<>>, vs |-> <<>>, ctl |-> <<>>, self |-> self, mod |-> mod, line |-> pc,
     selfcell |-> 0, ctor |-> FALSE,     \* ctor: an initialiser's frame returns its `self` whatever is returned
     seg |-> 0]                          \* script / module bodies: the segment they run (function frames: 0)

(* a fiber: its frames (empty = finished), the fiber that called it (0 = none: new, suspended, or the
   main fiber), and `fresh`: the saved ip of its first frame is still the start of the code, which is
   what ObjFiber::is_new() looks at (it stays so until that frame calls a closure or the fiber is
   switched away from) *)
Fiber(frames, st) == [frames |-> frames, st |-> st, caller |-> 0, fresh |-> TRUE, clo |-> 0,
                      parked |-> Nil]      \* ObjFiber::pending_exception: the exception set aside while a finally-only handler runs
Cls(name) == [k |-> "cls", v |-> name]
BuiltinClasses == {"Fiber", "Object", "Error", "RuntimeError", "AttributeError", "IndexError", "ImportError", "NameError",
                   "TypeError", "ValueError", "StopIter", "Type", "Nil", "Bool", "Num", "Func", "BuiltIn", "Method", "BuiltInMethod",
                   "String", "Tuple", "Vec", "Range", "HashMap"}

(* core.yl's iterator classes (Iter, MapIter, FilterIter) are yarel code; the machine runs the same
   code, given as tokens that carry their core.yl line numbers, before the program's own tokens *)
PreludeToks == TLCEval(IF "PRELUDE" \in DOMAIN IOEnv THEN ndJsonDeserialize(IOEnv.PRELUDE)[1].prog ELSE <<>>)

Builtins == [x \in {"print", "type", "clock", "host_fail"} \cup BuiltinClasses |-> IF x \in BuiltinClasses THEN Cls(x) ELSE Nat_(x)]

(* The token sequence is a concatenation of segments: the prelude, the snippets fed to the interpreter
   one after the other (a plain program is one snippet), and the bodies of the modules a loader
   would serve.  A snippet / module that does not compile is represented by its expected error. *)
RECURSIVE Concat(_, _)
Concat(ss, i) == IF i > Len(ss) THEN <<>> ELSE ss[i] \o Concat(ss, i + 1)
RECURSIVE SegTable(_, _, _)
SegTable(ss, i, base) == IF i > Len(ss) THEN <<>> ELSE <<[lo |-> base + 1, hi |-> base + Len(ss[i])]>> \o SegTable(ss, i + 1, base + Len(ss[i]))

(* snips: sequence of [prog, bad, messages, reset]; mods: sequence of [path, prog, bad, msg] *)
InitMachineFull(snips, mods) ==
    LET bodies == <<PreludeToks>> \o [i \in 1..Len(snips) |-> snips[i].prog] \o [i \in 1..Len(mods) |-> mods[i].prog]
        segs == SegTable(bodies, 1, 0)
    IN
    [prog |-> Concat(bodies, 1),
     plen |-> Len(PreludeToks),
     segs |-> segs,
     snips |-> snips,
     mods |-> mods,
     snip |-> 0,                \* current snippet (0 = the prelude)
     modst |-> <<>>,            \* per module: "absent" | "loading" | "loaded", and its object
     runs |-> <<>>,             \* results of finished snippets: [out, result]
     store |-> <<>>,
     wcd |-> 0,                 \* 1: an abandoned class definition is still held by the interpreter (see the class token)
     sbase |-> 0,               \* length of the store when the prelude had run (objects above it are the program's)
     rc |-> <<>>,               \* Vm::range_cache: addresses of the (at most 8) most recently CREATED ranges, oldest first
     glob |-> [mod \in {"main"} |-> Builtins],
     fibers |-> <<Fiber(<<[Frame(0, 1, <<>>, Nil, "main") EXCEPT !.seg = 1]>>, "run")>>,
     cur |-> 1,
     main |-> 1,                \* the fiber running the current snippet
     coreglob |-> Builtins,     \* the globals every module starts with (built-ins + the prelude's classes)
     out |-> <<>>,
     status |-> "run",          \* run | done
     result |-> [ok |-> TRUE, kind |-> "", messages |-> <<>>],
     trig |-> {},
     brk |-> FALSE,
     oom |-> FALSE,
     retv |-> Nil,
     n |-> 0]

InitMachine(p) == InitMachineFull(<<[prog |-> p, bad |-> FALSE, messages |-> <<>>, reset |-> FALSE]>>, <<>>)

SegOf(m, pc) == IF \E i \in 1..Len(m.segs) : pc >= m.segs[i].lo /\ pc <= m.segs[i].hi
                 THEN CHOOSE i \in 1..Len(m.segs) : pc >= m.segs[i].lo /\ pc <= m.segs[i].hi
                 ELSE Len(m.segs)
LineAt(m, pc) == IF pc >= 1 /\ pc <= Len(m.prog) /\ "ln" \in DOMAIN m.prog[pc] THEN m.prog[pc].ln
                  ELSE pc - m.segs[SegOf(m, pc)].lo + 1
CurFiber(m) == m.fibers[m.cur]
NFrames(m) == Len(CurFiber(m).frames)
CurFrame(m) == CurFiber(m).frames[NFrames(m)]
SetFrame(m, fr) == [m EXCEPT !.fibers[m.cur].frames[NFrames(m)] = fr]
Alloc(m, obj) == [m EXCEPT !.store = Append(m.store, obj)]
NewAddr(m) == Len(m.store) + 1
Obj(m, v) == m.store[v.v]
IsKind(m, v, kind) == v.k = "ref" /\ m.store[v.v].k = kind

Top(s) == s[Len(s)]
Pop(s) == SubSeq(s, 1, Len(s) - 1)
PopN(s, n) == SubSeq(s, 1, Len(s) - n)
LastN(s, n) == SubSeq(s, Len(s) - n + 1, Len(s))
Push(fr, v) == [fr EXCEPT !.vs = Append(fr.vs, v)]

RECURSIVE EnvFind(_, _, _)
EnvFind(env, d, i) == IF i = 0 THEN 0 ELSE IF env[i][1] = d THEN env[i][2] ELSE EnvFind(env, d, i - 1)
Lookup(env, d) == EnvFind(env, d, Len(env))

(* =========================================================================================
   Text of values (Display for Value); addresses print as [MEMADDR]
   ========================================================================================= *)
ClassName(m, c) == IF c.k = "cls" THEN c.v ELSE m.store[c.v].name
RECURSIVE Show(_, _, _), ShowSeq(_, _, _, _)
ShowSeq(m, es, i, seen) ==
    IF i > Len(es) THEN ""
    ELSE Show(m, es[i], seen) \o (IF i = Len(es) THEN "" ELSE ", ") \o ShowSeq(m, es, i + 1, seen)
Show(m, v, seen) ==
    CASE v.k = "nil" -> "nil"
      [] v.k = "bool" -> (IF v.v THEN "true" ELSE "false")
      [] v.k \in {"num", "flt"} -> NumText(v)
      [] v.k = "str" -> v.v
      [] v.k = "nat" -> "<built-in fn " \o v.v \o ">"
      [] v.k = "cls" -> "<class " \o (IF v.v = "Bool" THEN "Boolean" ELSE v.v) \o ">"    \* the global `Bool` names the class Boolean
      [] v.k = "ref" ->
         LET o == m.store[v.v] IN
         CASE o.k = "vec" -> (IF v.v \in seen THEN "[...]" ELSE "[" \o ShowSeq(m, o.es, 1, seen \cup {v.v}) \o "]")
           [] o.k = "tuple" -> (IF v.v \in seen THEN "(...)"
                                ELSE "(" \o ShowSeq(m, o.es, 1, seen \cup {v.v}) \o (IF Len(o.es) = 1 THEN "," ELSE "") \o ")")
           [] o.k = "range" -> "Range(" \o ToString(o.a) \o ", " \o ToString(o.b) \o ")"
           [] o.k = "map" -> (IF v.v \in seen THEN "{...}"
                              ELSE IF o.es = <<>> THEN "{}"
                              ELSE "{" \o Show(m, o.es[1][1], seen \cup {v.v}) \o ": " \o Show(m, o.es[1][2], seen \cup {v.v}) \o
                                   (IF Len(o.es) > 1 THEN ", ?" ELSE "") \o "}")
           [] o.k = "clo" -> "<fn " \o o.name \o " @ [MEMADDR]>"
           [] o.k = "inst" -> "<" \o ClassName(m, o.cls) \o " instance @ [MEMADDR]>"
           [] o.k = "class" -> "<class " \o o.name \o ">"
           [] o.k = "bound" -> IF o.meth.k = "natm"
                               THEN "<built-in method " \o (IF o.meth.v = "derives" THEN "derives" ELSE "new") \o " on " \o Show(m, o.recv, seen) \o " @ [MEMADDR]>"
                               ELSE "<method " \o m.store[o.meth.v].name \o " on " \o Show(m, o.recv, seen) \o " @ [MEMADDR]>"
           [] o.k = "fiber" -> "<fiber @ [MEMADDR]>"
           [] o.k = "module" -> "<module \"" \o o.path \o "\">"
           [] o.k = "iter" -> (IF o.kind = "range" THEN "ObjRangeIter instance"
                               ELSE "<Obj" \o (IF o.kind = "vec" THEN "Vec" ELSE "Tuple") \o "Iter instance @ [MEMADDR]>")
           [] OTHER -> "<?>"
Text(m, v) == Show(m, v, {})

(* language `==` (value.rs PartialEq): structural for vec / tuple, identity for other heap objects *)
RECURSIVE ValEq(_, _, _, _), SeqEq(_, _, _, _, _)
SeqEq(m, a, b, i, fuel) == IF i > Len(a) THEN TRUE ELSE ValEq(m, a[i], b[i], fuel) /\ SeqEq(m, a, b, i + 1, fuel)
ValEq(m, a, b, fuel) ==
    IF IsNum(a) /\ IsNum(b) THEN EqNum(a, b)
    ELSE IF a.k # b.k THEN FALSE
    ELSE IF a.k # "ref" THEN a = b
    ELSE IF a.v = b.v THEN TRUE
    ELSE LET x == m.store[a.v] y == m.store[b.v] IN
         IF x.k # y.k THEN FALSE
         ELSE IF x.k \in {"vec", "tuple"} THEN
              (IF Len(x.es) # Len(y.es) THEN FALSE ELSE IF fuel = 0 THEN TRUE ELSE SeqEq(m, x.es, y.es, 1, fuel - 1))
         ELSE FALSE

(* =========================================================================================
   Errors and exception delivery
   ========================================================================================= *)
(* allocate an instance of a built-in error class carrying the message *)
MkError(m, e) == [m |-> Alloc(m, InstObj(Cls(e.kind), [context |-> S(e.msg)])), v |-> Ref(NewAddr(m))]

KindOfThrown(m, v) ==          \* new_error_from_value
    IF IsKind(m, v, "inst") THEN
         LET cls == ClassName(m, Obj(m, v).cls)
             builtin == Obj(m, v).cls.k = "cls" IN
         [kind |-> IF builtin /\ cls \in (ErrorClasses \ {"Error", "StopIter"}) THEN cls ELSE "RuntimeError",
          desc |-> cls,
          ctx  |-> IF "context" \in DOMAIN Obj(m, v).fields THEN Obj(m, v).fields.context ELSE v]
    ELSE [kind |-> "RuntimeError", desc |-> "exception", ctx |-> v]

FnLabel(m, fr) == IF fr.clo = 0 THEN "script" ELSE m.store[fr.clo].name \o "()"
RECURSIVE TraceLines(_, _, _)
TraceLines(m, frames, i) ==
    IF i = 0 THEN <<>>
    ELSE <<"[module \"" \o frames[i].mod \o "\", line " \o ToString(frames[i].line) \o "] in " \o FnLabel(m, frames[i])>>
         \o TraceLines(m, frames, i - 1)

Finish(m, ok, kind, messages) ==
    [m EXCEPT !.status = "done", !.brk = TRUE, !.result = [ok |-> ok, kind |-> kind, messages |-> messages]]

FnId(m, fr) == IF fr.clo = 0 THEN -1000000 - fr.seg ELSE m.store[fr.clo].at
Uncaught(m, c, frames) ==
    LET info == KindOfThrown(m, c.v)
        n == Len(frames)
        \* the raise location describes the ACTIVATION the exception was raised in (od = its depth in the fiber): once unwinding has
        \* discarded that frame it describes none of the remaining ones - not even another activation of the same function
        fs == IF n > 0 /\ n = c.od /\ FnId(m, frames[n]) = c.of THEN [frames EXCEPT ![n].line = c.ol] ELSE frames
    IN Finish([m EXCEPT !.fibers[m.cur].frames = <<>>, !.fibers[m.cur].st = "run"],
              FALSE, info.kind, <<"Unhandled " \o info.desc \o ": " \o Text(m, info.ctx)>> \o TraceLines(m, fs, n))

Trig(m, t) == [m EXCEPT !.trig = m.trig \cup {t}]

(* some try statement of the active fiber is running its finally block with a completion pending *)
(* ... in ANY fiber: the as-built flag is one per interpreter, so a fiber that gave control away from inside such a finally block leaves
   the flag set for whoever runs next, and a catch / a completed try statement of another fiber changes it under the suspended one *)
PendingSomewhere(m) ==
    \E f \in 1..Len(m.fibers) :
        LET fs == m.fibers[f].frames IN
        \E j \in 1..Len(fs) : \E q \in 1..Len(fs[j].ctl) : fs[j].ctl[q].ph = "finally" /\ fs[j].ctl[q].pend.c # "normal"
TrigIf(m, cond, t) == IF cond THEN Trig(m, t) ELSE m

(* Deliver completion c in the active fiber, starting at frame index fi, walking ctl outwards.
   `orig` = the frames at the point of the throw (for the error trace of an uncaught exception). *)
RECURSIVE Deliver(_, _, _, _)
Deliver(m, c, fi, orig) ==
    LET fib == CurFiber(m) IN
    IF fi = 0 THEN
         \* no frame left in this fiber
         IF c.c = "throw" THEN Uncaught(m, c, orig)
         ELSE Finish(m, FALSE, "Stuck", <<"completion " \o c.c \o " left the fiber">>)
    ELSE
    LET fr == fib.frames[fi] IN
    IF fr.ctl = <<>> THEN
         \* leaves the function activation
         IF c.c = "return" /\ fr.ctor /\ c.v # m.store[fr.selfcell].v THEN
              Deliver(m, [c EXCEPT !.v = m.store[fr.selfcell].v], fi, orig)
         ELSE IF c.c = "return" THEN
              IF fi = 1 THEN
                   \* the fiber's body returned
                   [m EXCEPT !.fibers[m.cur].frames = <<>>, !.retv = c.v, !.brk = TRUE]
              ELSE LET caller == fib.frames[fi - 1] IN
                   [m EXCEPT !.fibers[m.cur].frames = Append(SubSeq(fib.frames, 1, fi - 2), Push(caller, c.v)), !.brk = TRUE]
         ELSE IF c.c = "throw" THEN
              Deliver([m EXCEPT !.fibers[m.cur].frames = SubSeq(fib.frames, 1, fi - 1)], c, fi - 1, orig)
         ELSE Finish(m, FALSE, "Stuck", <<"break/continue outside a loop">>)
    ELSE
    LET e == Top(fr.ctl)
        rest == Pop(fr.ctl)
        p == m.prog
        inner == [fr EXCEPT !.ctl = rest, !.env = SubSeq(fr.env, 1, e.envLen), !.k = <<>>, !.vs = SubSeq(fr.vs, 1, e.vsLen)]
        Put(f2) == [m EXCEPT !.fibers[m.cur].frames = Append(SubSeq(fib.frames, 1, fi - 1), f2), !.brk = TRUE]
    IN
    CASE e.c \in {"while", "for"} /\ c.c = "break" ->
              Put([inner EXCEPT !.pc = EndOf(p, e.at) + 1])
      [] e.c = "while" /\ c.c = "continue" ->
              Put([inner EXCEPT !.pc = e.at])
      [] e.c = "for" /\ c.c = "continue" ->
              \* next iteration: keep the loop entry, drop the body's variables
              Put([fr EXCEPT !.env = SubSeq(fr.env, 1, e.envLen + 1), !.k = <<[i |-> "fornext"]>>,
                             !.vs = SubSeq(fr.vs, 1, e.vsLen), !.pc = e.at])
      [] e.c = "try" /\ e.ph = "body" /\ c.c = "throw" /\ CatchOf(p, e.at) # 0 ->
              \* innermost active handler: enter the catch block with the thrown value bound
              LET ct == CatchOf(p, e.at)
                  pending == PendingSomewhere(m)
                  m1 == Alloc(IF pending THEN Trig(m, "CatchWhileCompletionPendingInFinally") ELSE m, Cell(c.v))
                  f2 == [fr EXCEPT !.ctl = Append(rest, [e EXCEPT !.ph = "catch"]),
                                   !.env = Append(SubSeq(fr.env, 1, e.envLen), <<p[ct].d, NewAddr(m)>>),
                                   !.k = <<>>, !.vs = SubSeq(fr.vs, 1, e.vsLen), !.pc = ct + 1]
              IN [m1 EXCEPT !.fibers[m.cur].frames = Append(SubSeq(fib.frames, 1, fi - 1), f2), !.brk = TRUE]
      [] e.c = "try" /\ e.ph \in {"body", "catch"} /\ FinallyOf(p, e.at) # 0 ->
              \* leaving a try statement that has a finally block: run it, then continue with c
              LET fin == FinallyOf(p, e.at)
                  f2 == [fr EXCEPT !.ctl = Append(rest, [e EXCEPT !.ph = "finally", !.pend = c]),
                                   !.env = SubSeq(fr.env, 1, e.envLen), !.k = <<>>, !.vs = SubSeq(fr.vs, 1, e.vsLen),
                                   !.pc = fin + 1]
                  t1 == IF c.c \in {"break", "continue"} THEN {"BreakOrContinueThroughFinally"} ELSE {}
                  t2 == IF c.c = "throw" /\ e.ph = "catch" THEN {"ThrowInCatchWithFinally"} ELSE {}
                  t3 == IF c.c = "return" /\ e.ph = "catch" THEN {"ReturnInCatchWithFinally"} ELSE {}
                  t4 == IF c.c = "return" /\ e.ph = "body" /\ (\E j \in 1..Len(rest) : rest[j].c = "try" /\ rest[j].ph = "body")
                        THEN {"ReturnThroughNestedTry"} ELSE {}
                  t5 == IF PendingSomewhere(m) THEN {"FinallyWhileCompletionPending"} ELSE {}
                  \* unwind_stack parks the exception in the fiber when the handler has no catch block; it stays there until an
                  \* EndFinally takes it back (or the next exception is parked), which is what keeps it alive meanwhile
                  park == c.c = "throw" /\ e.ph = "body" /\ CatchOf(p, e.at) = 0
              IN [Put(f2) EXCEPT !.trig = m.trig \cup t1 \cup t2 \cup t3 \cup t4 \cup t5,
                                 !.fibers[m.cur].parked = IF park THEN c.v ELSE @]
      [] OTHER ->
              \* the construct is simply left
              LET t1 == IF e.c = "try" /\ e.ph = "body" /\ c.c \in {"break", "continue"} THEN {"LeftTryBodyByBreakOrContinue"} ELSE {}
                  t2 == IF e.c = "try" /\ e.ph = "body" /\ c.c = "return" THEN {"ReturnInTryWithoutFinally"} ELSE {}
                  t3 == IF e.c = "try" /\ e.ph = "finally" /\ e.pend.c # "normal" /\ ~(e.pend.c = "throw" /\ c.c = "throw")
                        THEN {"CompletionReplacedInFinally"} ELSE {}
              IN Deliver([m EXCEPT !.fibers[m.cur].frames[fi] = inner, !.trig = m.trig \cup t1 \cup t2 \cup t3], c, fi, orig)

DeliverHere(m, c) == Deliver(m, c, NFrames(m), CurFiber(m).frames)
Raise(m, v) == Deliver(m, [Comp("throw", v) EXCEPT !.ol = CurFrame(m).line, !.of = FnId(m, CurFrame(m)), !.od = NFrames(m)],
                       NFrames(m), CurFiber(m).frames)
RaiseErr(m, e) ==
    IF e.kind = "OutOfModel" THEN [Finish(m, FALSE, "OutOfModel", <<>>) EXCEPT !.oom = TRUE]
    ELSE LET r == MkError(m, e) IN Raise(r.m, r.v)

(* =========================================================================================
   Work items
   ========================================================================================= *)
Ev(e) == [i |-> "ev", e |-> e]
It(i) == [i |-> i]
It1(i, a) == [i |-> i, a |-> a]
It2(i, a, b) == [i |-> i, a |-> a, b |-> b]

RECURSIVE EvAll(_, _)
EvAll(es, i) == IF i > Len(es) THEN <<>> ELSE <<Ev(es[i])>> \o EvAll(es, i + 1)
RECURSIVE EvParts(_, _)
EvParts(es, i) == IF i > Len(es) THEN <<>> ELSE <<Ev(es[i]), It("fmt")>> \o EvParts(es, i + 1)

(* decompose one expression node into items (children first, left to right) *)
Items(e) ==
    CASE e.k = "bin" -> <<Ev(e.l), Ev(e.r), It1("bin", e.op)>>
      [] e.k = "un" -> <<Ev(e.e), It1("un", e.op)>>
      [] e.k = "and" -> <<Ev(e.l), It1("and", e.r)>>
      [] e.k = "or" -> <<Ev(e.l), It1("or", e.r)>>
      [] e.k = "assign" -> <<Ev(e.e), It2("assign", e.x, e.d)>>
      [] e.k = "cassign" -> <<It2("load", e.x, e.d), Ev(e.e), It1("bin", e.op), It2("assign", e.x, e.d)>>
      [] e.k = "call" -> <<Ev(e.f)>> \o EvAll(e.args, 1) \o <<It1("call", Len(e.args))>>
      [] e.k = "vec" -> EvAll(e.es, 1) \o <<It1("mkvec", Len(e.es))>>
      [] e.k = "tup" -> EvAll(e.es, 1) \o <<It1("mktup", Len(e.es))>>
      [] e.k = "map" -> EvAll(e.kvs, 1) \o <<It1("mkmap", Len(e.kvs) \div 2)>>      \* kvs: k1, v1, k2, v2, ...
      [] e.k = "idx" -> <<Ev(e.o), Ev(e.i), It("idx")>>
      [] e.k = "setidx" -> <<Ev(e.o), Ev(e.i), Ev(e.e), It("setidx")>>
      [] e.k = "range" -> <<Ev(e.l), Ev(e.r), It("mkrange")>>
      [] e.k = "interp" -> EvParts(e.parts, 1) \o <<It1("mkstr", Len(e.parts))>>
      [] e.k = "inv" -> <<Ev(e.o)>> \o EvAll(e.args, 1) \o <<It2("inv", e.m, Len(e.args))>>
      [] e.k = "get" -> <<Ev(e.o), It1("get", e.m)>>
      [] e.k = "setf" -> <<Ev(e.o), Ev(e.e), It1("setf", e.m)>>
      \* o.m op= e (compiler.rs dot): the object is evaluated ONCE, the property is read, then e, the operator, the store
      [] e.k = "csetf" -> <<Ev(e.o), It("dup"), It1("get", e.m), Ev(e.e), It1("bin", e.op), It1("setf", e.m)>>
      [] e.k = "superinv" -> <<Ev([k |-> "var", x |-> e.sx, d |-> e.sd])>> \o EvAll(e.args, 1) \o <<[i |-> "superinv", a |-> e.m, b |-> Len(e.args), d |-> e.d]>>
      [] e.k = "superget" -> <<Ev([k |-> "var", x |-> e.sx, d |-> e.sd]), [i |-> "superget", a |-> e.m, d |-> e.d]>>
      [] e.k = "Self" -> <<Ev([k |-> "var", x |-> "Self", d |-> e.d]), It("classof")>>

NameErr(x) == Err("NameError", "Undefined variable '" \o x \o "'.")

(* read / write a variable: d > 0 local or captured cell, d = 0 module global *)
ReadVar(m, fr, x, d) ==
    IF d > 0 THEN Ok(m.store[Lookup(fr.env, d)].v)
    ELSE IF x \in DOMAIN m.glob[fr.mod] THEN Ok(m.glob[fr.mod][x]) ELSE Bad(NameErr(x))

SetGlobal(m, mod, x, v) == [m EXCEPT !.glob[mod] = (x :> v) @@ m.glob[mod]]

IndexErr(kind) == Err("IndexError", kind \o " index out of bounds.")

(* try_as_bounded_index *)
BoundedIndex(m, iv, len, kind) ==
    IF ~IsNum(iv) THEN Bad(IntErrT(Text(m, iv)))
    ELSE IF iv.k = "flt" /\ iv.v # "-0" THEN (IF iv.v = "nan" THEN Bad(IntErrV(Text(m, iv))) ELSE Bad(IndexErr(kind)))
    ELSE LET i0 == Fin(iv)
             i == IF i0 < 0 THEN i0 + len ELSE i0
         IN IF i < 0 \/ i >= len THEN Bad(IndexErr(kind)) ELSE Ok(N(i))

NativeMethodNames == {"derives", "iter", "len", "is_alpha", "is_digit", "is_hexdigit", "count_chars", "char_byte_index", "find", "replace",
                      "split", "starts_with", "ends_with", "to_num", "to_bytes", "to_code_points", "next", "push", "pop", "has_key", "get",
                      "insert", "remove", "clear", "keys", "values", "items", "call", "has_finished", "new", "yield", "from", "from_ascii",
                      "from_utf8", "from_code_points", "map", "filter", "collect", "reduce"}
NatM(name) == [k |-> "natm", v |-> name]
ObjectMethods == [x \in {"derives"} |-> NatM("derives")]
ErrorMethods == [x \in {"derives", "new"} |-> IF x = "new" THEN NatM("Error.new") ELSE NatM("derives")]
StopIterMethods == [x \in {"derives", "new"} |-> IF x = "new" THEN NatM("StopIter.new") ELSE NatM("derives")]
BuiltinErrorNames == ErrorClasses \ {"StopIter"}
(* methods table of a class value (flattened at definition time, as the code copies them down) *)
MethodsOf(m, c) ==
    IF c.k = "ref" THEN m.store[c.v].methods
    ELSE IF c.v \in BuiltinErrorNames THEN ErrorMethods
    ELSE IF c.v = "StopIter" THEN StopIterMethods
    ELSE ObjectMethods
(* declared superclass of a class value (Nil at the root) *)
SuperOf(m, c) ==
    IF c.k = "ref" THEN m.store[c.v].sup
    ELSE IF c.v = "Object" THEN Nil
    ELSE IF c.v \in (ErrorClasses \ {"Error"}) THEN Cls("Error")
    ELSE IF c.v \in {"VecIter", "TupleIter", "RangeIter", "StringIter", "MapIter", "FilterIter"} THEN Cls("Iter")
    ELSE Cls("Object")
(* the built-in classes that have a metaclass of their own (they carry static methods, or are defined in core.yl); the metaclass
   of every other built-in class is Type *)
MetaNamed == ErrorClasses \cup {"String", "Fiber", "Iter", "MapIter", "FilterIter"}
IsClassValue(m, v) == v.k = "cls" \/ IsKind(m, v, "class")
(* get_class *)
ClassOfValue(m, v) ==
    CASE v.k = "nil" -> Cls("Nil") [] v.k = "bool" -> Cls("Bool") [] v.k \in {"num", "flt"} -> Cls("Num") [] v.k = "str" -> Cls("String")
      [] v.k = "nat" -> Cls("BuiltIn")
      [] v.k = "cls" -> IF v.v \in MetaNamed THEN Cls(v.v \o "Class") ELSE Cls("Type")
      [] v.k = "ref" ->
         LET o == m.store[v.v] IN
         CASE o.k = "inst" -> o.cls [] o.k = "vec" -> Cls("Vec") [] o.k = "tuple" -> Cls("Tuple") [] o.k = "range" -> Cls("Range")
           [] o.k = "clo" -> Cls("Func") [] o.k = "bound" -> Cls("Method") [] o.k = "fiber" -> Cls("Fiber")
           [] o.k = "iter" -> Cls(CASE o.kind = "vec" -> "VecIter" [] o.kind = "tuple" -> "TupleIter" [] OTHER -> "RangeIter")
           [] o.k = "class" -> Cls(o.name \o "Class")
           [] o.k = "map" -> Cls("HashMap") [] o.k = "module" -> Cls("Module")
           [] OTHER -> Cls("Object")
RECURSIVE Derives(_, _, _, _)
Derives(m, c, q, fuel) == IF c = q THEN TRUE ELSE IF c.k = "nil" \/ fuel = 0 THEN FALSE ELSE Derives(m, SuperOf(m, c), q, fuel - 1)


(* ---- calls ------------------------------------------------------------------------------- *)
ArityErr(want, got) == Err("TypeError", "Expected " \o ToString(want) \o " arguments but found " \o ToString(got) \o ".")
ParamErr(want, got) == Err("TypeError", "Expected " \o ToString(want) \o " parameter" \o (IF want = 1 THEN "" ELSE "s")
                                          \o " but found " \o ToString(got) \o ".")
FramesMax == 64

RECURSIVE BindParams(_, _, _, _, _)
BindParams(m, env, ps, args, i) ==      \* allocate one cell per parameter
    IF i > Len(ps) THEN [m |-> m, env |-> env]
    ELSE BindParams(Alloc(m, Cell(args[i])), Append(env, <<ps[i].d, NewAddr(m)>>), ps, args, i + 1)

(* call value f with args (already popped from vs of frame fr, which is the frame stored in m) *)
RECURSIVE CallValue(_, _, _, _)
CallValue(m, f, args, self) ==
    IF IsKind(m, f, "bound") THEN CallValue(m, Obj(m, f).meth, args, Obj(m, f).recv)
    ELSE IF f.k = "natm" THEN
         \* built-in methods that reach programs through inheritance from built-in classes
         CASE f.v = "derives" ->
                IF Len(args) # 1 THEN RaiseErr(m, ParamErr(1, Len(args)))
                ELSE IF ~IsClassValue(m, args[1]) THEN
                     RaiseErr(m, Err("ValueError", "Expected a class name but found '" \o Text(m, args[1]) \o "'."))
                ELSE SetFrame(m, Push(CurFrame(m), B(Derives(m, ClassOfValue(m, self), args[1], 8))))
           [] f.v \in {"Error.new", "StopIter.new"} ->
                \* core.yl:  #[constructor] fn new(self, context) { self.context = context; }   (StopIter: super.new(nil))
                LET want == IF f.v = "Error.new" THEN 1 ELSE 0 IN
                IF Len(args) # want THEN RaiseErr(m, ArityErr(want, Len(args)))
                ELSE IF IsClassValue(m, self) THEN
                     LET m2 == Alloc(m, InstObj(self, [context |-> IF want = 1 THEN args[1] ELSE Nil])) IN
                     SetFrame(m2, Push(CurFrame(m2), Ref(NewAddr(m))))
                ELSE IF IsKind(m, self, "inst") THEN
                     SetFrame([m EXCEPT !.store[self.v].fields = ("context" :> (IF want = 1 THEN args[1] ELSE Nil)) @@ @], Push(CurFrame(m), self))
                ELSE RaiseErr(m, Err("AttributeError", "Only instances have fields."))
           [] OTHER -> RaiseErr(m, Err("TypeError", "Can only call functions and methods."))
    ELSE IF IsKind(m, f, "clo") /\ Obj(m, f).ctor = "default" THEN
         \* #[constructor(name)] on the class: Construct 0; return self
         IF Len(args) # 0 THEN RaiseErr(m, ArityErr(0, Len(args)))
         ELSE IF IsClassValue(m, self) THEN
              LET m2 == Alloc(m, InstObj(self, [x \in {} |-> Nil])) IN SetFrame(m2, Push(CurFrame(m2), Ref(NewAddr(m))))
         ELSE SetFrame(m, Push(CurFrame(m), self))
    ELSE IF IsKind(m, f, "clo") THEN
         LET c == Obj(m, f) IN
         IF Len(args) # Len(c.ps) THEN RaiseErr(m, ArityErr(Len(c.ps), Len(args)))
         ELSE IF NFrames(m) = FramesMax THEN RaiseErr(m, Err("IndexError", "Stack overflow."))
         ELSE LET \* an initialiser called through a class constructs the instance first (Construct)
                  mk == c.ctor = "init" /\ IsClassValue(m, self)
                  m0 == IF mk THEN Alloc(m, InstObj(self, [x \in {} |-> Nil])) ELSE m
                  selfv == IF mk THEN Ref(NewAddr(m)) ELSE self
                  \* a method sees its receiver as the variable self / Self
                  m1 == IF c.sd > 0 THEN Alloc(m0, Cell(selfv)) ELSE m0
                  env1 == IF c.sd > 0 THEN Append(c.env, <<c.sd, NewAddr(m0)>>) ELSE c.env
                  b == BindParams(m1, env1, c.ps, args, 1)
                  fr00 == Frame(f.v, IF c.lam THEN 0 ELSE c.at + 1, b.env, selfv, c.mod)
                  fr0 == [fr00 EXCEPT !.selfcell = IF c.sd > 0 THEN NewAddr(m0) ELSE 0, !.ctor = (c.ctor = "init")]
                  fr1 == IF c.lam THEN [fr0 EXCEPT !.k = <<Ev(c.body), It("ret")>>, !.line = -c.at] ELSE fr0
              IN [b.m EXCEPT !.fibers[m.cur].frames = Append(CurFiber(m).frames, fr1), !.brk = TRUE,
                             !.fibers[m.cur].fresh = IF NFrames(m) = 1 THEN FALSE ELSE @]
    ELSE IF f.k = "nat" THEN
         CASE f.v = "print" ->
                IF Len(args) # 1 THEN RaiseErr(m, Err("TypeError", "Expected one argument to 'print'."))
                ELSE SetFrame([m EXCEPT !.out = Append(m.out, Text(m, args[1]))], Push(CurFrame(m), Nil))
           [] f.v = "type" ->
                IF Len(args) # 1 THEN RaiseErr(m, ParamErr(1, Len(args)))
                ELSE IF IsKind(m, args[1], "class") \/ args[1].k = "cls" THEN [Finish(m, FALSE, "OutOfModel", <<>>) EXCEPT !.oom = TRUE]
                ELSE SetFrame(m, Push(CurFrame(m), ClassOfValue(m, args[1])))
           [] f.v = "host_fail" ->
                \* a host-provided native (defined by the harness) failing with the ErrorKind named by its argument
                IF Len(args) # 1 THEN RaiseErr(m, Err("TypeError", "Expected one argument to 'host_fail'."))
                ELSE LET kname == Text(m, args[1]) IN
                     IF kname \in (ErrorClasses \ {"Error", "StopIter"}) \cup {"CompileError"}
                     THEN RaiseErr(m, Err(IF kname = "CompileError" THEN "RuntimeError" ELSE kname, "host failure " \o kname))
                     ELSE SetFrame(m, Push(CurFrame(m), Nil))
           [] OTHER -> RaiseErr(m, Err("TypeError", "Can only call functions and methods."))
    ELSE RaiseErr(m, Err("TypeError", "Can only call functions and methods."))

(* Value::has_hash; tuples recursively (a tuple met again on the way down counts as hashable) *)
RECURSIVE Hashable(_, _, _)
Hashable(m, v, fuel) ==
    IF v.k \in {"nil", "bool", "num", "flt", "str", "cls"} THEN TRUE
    ELSE IF v.k # "ref" THEN FALSE
    ELSE LET o == m.store[v.v] IN
         IF o.k \in {"class", "range"} THEN TRUE
         ELSE IF o.k = "tuple" THEN (fuel = 0 \/ \A i \in 1..Len(o.es) : Hashable(m, o.es[i], fuel - 1))
         ELSE FALSE
UnhashErr(m, v) == Err("ValueError", "Cannot use unhashable value '" \o Text(m, v) \o "' as HashMap key.")
MapObj(es) == [k |-> "map", es |-> es]                     \* es: sequence of <<key, value>>; keys pairwise not ==
MapFind(m, es, key) == LET hit == {i \in 1..Len(es) : ValEq(m, es[i][1], key, 6)} IN IF hit = {} THEN 0 ELSE CHOOSE i \in hit : TRUE
MapPut(m, es, key, v) == LET i == MapFind(m, es, key) IN IF i = 0 THEN Append(es, <<key, v>>) ELSE [es EXCEPT ![i] = <<es[i][1], v>>]
RECURSIVE MapBuild(_, _, _, _)
MapBuild(m, kvs, i, acc) ==          \* build_hash_map: first unhashable key wins; later duplicates overwrite the value
    IF i > Len(kvs) THEN [es |-> acc, err |-> NoErr]
    ELSE IF ~Hashable(m, kvs[i], 6) THEN [es |-> acc, err |-> UnhashErr(m, kvs[i])]
    ELSE MapBuild(m, kvs, i + 2, MapPut(m, acc, kvs[i], kvs[i + 1]))

StopIterV(m) == [m |-> Alloc(m, InstObj(Cls("StopIter"), [context |-> Nil])), v |-> Ref(NewAddr(m))]
AttrErr(name) == Err("AttributeError", "Undefined property '" \o name \o "'.")

(* invoke method `name` on receiver r with args; the active frame of m has r and the args already
   popped.  Natives complete at once (result pushed); closures push a frame. *)
Invoke(m, r, name, args) ==
    LET fr == CurFrame(m)
        n == Len(args)
        Ret(m2, v) == SetFrame(m2, Push(CurFrame(m2), v))
        Arity(k) == n # k
    IN
    IF name = "derives" /\ ~IsClassValue(m, r) /\ ~IsKind(m, r, "inst") THEN
         \* Object's method on a built-in value; an instance finds `derives` like any other member: its own field first, then the
         \* definition nearest in its class's ancestry (a user class may override Object's)
         CallValue(m, NatM("derives"), args, r)
    ELSE IF IsKind(m, r, "vec") THEN
         LET es == Obj(m, r).es IN
         CASE name = "push" -> IF Arity(1) THEN RaiseErr(m, ParamErr(1, n))
                               ELSE Ret([m EXCEPT !.store[r.v].es = Append(es, args[1])], r)
           [] name = "pop" -> IF Arity(0) THEN RaiseErr(m, ParamErr(0, n))
                              ELSE IF es = <<>> THEN RaiseErr(m, Err("RuntimeError", "Cannot pop from empty Vec instance."))
                              ELSE Ret([m EXCEPT !.store[r.v].es = Pop(es)], Top(es))
           [] name = "len" -> IF Arity(0) THEN RaiseErr(m, ParamErr(0, n)) ELSE Ret(m, N(Len(es)))
           [] name = "iter" -> IF Arity(0) THEN RaiseErr(m, ParamErr(0, n))
                               ELSE Ret(Alloc(m, IterObj("vec", r.v, 0)), Ref(NewAddr(m)))
           [] OTHER -> RaiseErr(m, AttrErr(name))
    ELSE IF IsKind(m, r, "map") THEN
         LET es == Obj(m, r).es
             Key == args[1]
             AsVec(xs) == Ret(Alloc(m, VecObj(xs)), Ref(NewAddr(m)))
         IN
         CASE name \in {"has_key", "get", "remove"} ->
                IF Arity(1) THEN RaiseErr(m, ParamErr(1, n))
                ELSE IF ~Hashable(m, Key, 6) THEN RaiseErr(m, UnhashErr(m, Key))
                ELSE LET i == MapFind(m, es, Key) IN
                     IF name = "has_key" THEN Ret(m, B(i # 0))
                     ELSE IF name = "get" THEN Ret(m, IF i = 0 THEN Nil ELSE es[i][2])
                     ELSE IF i = 0 THEN Ret(m, Nil)
                     ELSE Ret([m EXCEPT !.store[r.v].es = SubSeq(es, 1, i - 1) \o SubSeq(es, i + 1, Len(es))], es[i][2])
           [] name = "insert" ->
                IF Arity(2) THEN RaiseErr(m, ParamErr(2, n))
                ELSE IF ~Hashable(m, Key, 6) THEN RaiseErr(m, UnhashErr(m, Key))
                ELSE LET i == MapFind(m, es, Key) IN
                     Ret([m EXCEPT !.store[r.v].es = MapPut(m, es, Key, args[2])], IF i = 0 THEN Nil ELSE es[i][2])
           [] name = "clear" -> IF Arity(0) THEN RaiseErr(m, ParamErr(0, n)) ELSE Ret([m EXCEPT !.store[r.v].es = <<>>], Nil)
           [] name = "len" -> IF Arity(0) THEN RaiseErr(m, ParamErr(0, n)) ELSE Ret(m, N(Len(es)))
           [] name = "keys" -> IF Arity(0) THEN RaiseErr(m, ParamErr(0, n)) ELSE AsVec([i \in 1..Len(es) |-> es[i][1]])
           [] name = "values" -> IF Arity(0) THEN RaiseErr(m, ParamErr(0, n)) ELSE AsVec([i \in 1..Len(es) |-> es[i][2]])
           [] name = "items" ->
                IF Arity(0) THEN RaiseErr(m, ParamErr(0, n))
                ELSE LET RECURSIVE Pairs(_, _, _)
                         Pairs(mm, i, acc) == IF i > Len(es) THEN [m |-> mm, acc |-> acc]
                                              ELSE Pairs(Alloc(mm, TupObj(<<es[i][1], es[i][2]>>)), i + 1, Append(acc, Ref(NewAddr(mm))))
                         pr == Pairs(m, 1, <<>>)
                     IN Ret(Alloc(pr.m, VecObj(pr.acc)), Ref(NewAddr(pr.m)))
           [] OTHER -> RaiseErr(m, AttrErr(name))
    ELSE IF IsKind(m, r, "tuple") THEN
         CASE name = "len" -> IF Arity(0) THEN RaiseErr(m, ParamErr(0, n)) ELSE Ret(m, N(Len(Obj(m, r).es)))
           [] name = "iter" -> IF Arity(0) THEN RaiseErr(m, ParamErr(0, n))
                               ELSE Ret(Alloc(m, IterObj("tuple", r.v, 0)), Ref(NewAddr(m)))
           [] OTHER -> RaiseErr(m, AttrErr(name))
    ELSE IF IsKind(m, r, "range") THEN
         CASE name = "iter" -> IF Arity(0) THEN RaiseErr(m, ParamErr(0, n))
                               ELSE Ret(Alloc(m, IterObj("range", r.v, Obj(m, r).a)), Ref(NewAddr(m)))
           [] OTHER -> RaiseErr(m, AttrErr(name))
    ELSE IF IsKind(m, r, "iter") THEN
         LET it == Obj(m, r) IN
         CASE name = "next" ->
                IF Arity(0) THEN RaiseErr(m, ParamErr(0, n))
                ELSE IF it.kind = "range" THEN
                     LET rg == m.store[it.src] IN
                     IF it.pos = rg.b THEN LET s == StopIterV(m) IN Ret(s.m, s.v)
                     ELSE Ret([m EXCEPT !.store[r.v].pos = it.pos + (IF rg.a < rg.b THEN 1 ELSE -1)], N(it.pos))
                ELSE LET es == m.store[it.src].es IN
                     IF it.pos >= Len(es) THEN LET s == StopIterV(m) IN Ret(s.m, s.v)
                     ELSE Ret([m EXCEPT !.store[r.v].pos = it.pos + 1], es[it.pos + 1])
           [] OTHER ->
                \* the built-in iterator classes derive core.yl's Iter
                LET itc == IF "Iter" \in DOMAIN m.glob["main"] THEN m.glob["main"]["Iter"] ELSE Nil IN
                IF IsKind(m, itc, "class") /\ name \in DOMAIN Obj(m, itc).methods THEN CallValue(m, Obj(m, itc).methods[name], args, r)
                ELSE RaiseErr(m, AttrErr(name))
    ELSE IF IsKind(m, r, "inst") THEN
         \* fields shadow methods; then the class's (flattened) method table
         IF name \in DOMAIN Obj(m, r).fields THEN CallValue(m, Obj(m, r).fields[name], args, Nil)
         ELSE LET ms == MethodsOf(m, Obj(m, r).cls) IN
              IF name \in DOMAIN ms THEN CallValue(m, ms[name], args, r) ELSE RaiseErr(m, AttrErr(name))
    ELSE IF IsKind(m, r, "module") THEN
         LET g == m.glob[Obj(m, r).path] IN
         IF name \in DOMAIN g THEN CallValue(m, g[name], args, Nil) ELSE RaiseErr(m, AttrErr(name))
    ELSE IF IsKind(m, r, "class") THEN
         \* called through the class: only static methods / constructors (the metaclass's table)
         LET c == Obj(m, r) IN
         IF name \in c.statics THEN CallValue(m, c.methods[name], args, r)
         ELSE IF name = "derives" THEN [Finish(m, FALSE, "OutOfModel", <<>>) EXCEPT !.oom = TRUE]
         ELSE RaiseErr(m, AttrErr(name))
    ELSE IF r.k = "cls" /\ r.v \in {"Error", "StopIter"} /\ name = "new" THEN CallValue(m, MethodsOf(m, r)["new"], args, r)
    ELSE IF r.k = "cls" /\ r.v # "Fiber" THEN
         (IF name = "derives" THEN [Finish(m, FALSE, "OutOfModel", <<>>) EXCEPT !.oom = TRUE] ELSE RaiseErr(m, AttrErr(name)))
    ELSE IF r.k = "cls" /\ r.v = "Fiber" THEN
         CASE name = "new" ->
                IF Arity(1) THEN RaiseErr(m, ParamErr(1, n))
                ELSE IF ~IsKind(m, args[1], "clo") THEN
                     RaiseErr(m, Err("TypeError", "Expected a function but found '" \o Text(m, args[1]) \o "'."))
                ELSE IF Len(Obj(m, args[1]).ps) > 1 THEN
                     RaiseErr(m, Err("ValueError", "Fiber expects a closure that accepts at most 1 parameter."))
                ELSE LET fidx == Len(m.fibers) + 1
                         m2 == [Alloc(m, [k |-> "fiber", idx |-> fidx]) EXCEPT
                                  !.fibers = Append(m.fibers, [Fiber(<<>>, "new") EXCEPT !.clo = args[1].v])]
                     IN Ret(m2, Ref(NewAddr(m)))
           [] name = "yield" ->
                IF n > 1 THEN RaiseErr(m, Err("TypeError", "Expected at most 1 parameter but found " \o ToString(n) \o "."))
                ELSE LET me == CurFiber(m) IN
                     IF me.caller = 0 THEN RaiseErr(m, Err("RuntimeError", "Cannot yield from module-level code."))
                     ELSE \* unload_fiber: back to the caller, whose pending `call` evaluates to the yielded value
                          LET v == IF n = 1 THEN args[1] ELSE Nil
                              c == me.caller
                              m2 == [m EXCEPT !.fibers[m.cur].caller = 0, !.fibers[m.cur].fresh = FALSE, !.cur = c, !.brk = TRUE]
                          IN SetFrame(m2, Push(CurFrame(m2), v))
           [] OTHER -> RaiseErr(m, AttrErr(name))
    ELSE IF IsKind(m, r, "fiber") THEN
         LET fi == Obj(m, r).idx
             fb == m.fibers[fi]
             started == fb.frames # <<>> \/ fb.st # "new"
             isNew == (fb.st = "new") \/ (fb.fresh /\ Len(fb.frames) = 1)
             clo == m.store[fb.clo]
         IN
         CASE name = "has_finished" ->
                IF Arity(0) THEN RaiseErr(m, ParamErr(0, n)) ELSE Ret(m, B(fb.st # "new" /\ fb.frames = <<>>))
           [] name = "call" ->
                IF isNew /\ n # Len(clo.ps) THEN RaiseErr(m, ParamErr(Len(clo.ps), n))
                ELSE IF ~isNew /\ n > 1 THEN RaiseErr(m, Err("TypeError", "Expected at most 1 parameter but found " \o ToString(n) \o "."))
                ELSE IF fb.st # "new" /\ fb.frames = <<>> THEN RaiseErr(m, Err("RuntimeError", "Cannot call a finished fiber."))
                ELSE IF fb.caller # 0 \/ fi = m.main THEN RaiseErr(m, Err("RuntimeError", "Cannot call a fiber that has already been called."))
                ELSE IF fb.st = "new" THEN
                     \* first call: the closure's frame, parameter bound to the argument
                     LET b == BindParams(m, clo.env, clo.ps, args, 1)
                         fr0 == Frame(fb.clo, IF clo.lam THEN 0 ELSE clo.at + 1, b.env, Nil, clo.mod)
                         fr1 == IF clo.lam THEN [fr0 EXCEPT !.k = <<Ev(clo.body), It("ret")>>, !.line = -clo.at] ELSE fr0
                     IN [b.m EXCEPT !.fibers[fi].frames = <<fr1>>, !.fibers[fi].st = "run", !.fibers[fi].caller = m.cur,
                                    !.fibers[m.cur].fresh = FALSE, !.cur = fi, !.brk = TRUE]
                ELSE \* resume: the pending yield expression evaluates to the argument (nil if omitted)
                     LET v == IF n = 1 THEN args[1] ELSE Nil
                         m2 == [m EXCEPT !.fibers[fi].caller = m.cur, !.fibers[m.cur].fresh = FALSE, !.cur = fi, !.brk = TRUE]
                     IN SetFrame(m2, Push(CurFrame(m2), v))
           [] OTHER -> RaiseErr(m, AttrErr(name))
    ELSE RaiseErr(m, AttrErr(name))

IsStopIter(m, v) == IsKind(m, v, "inst") /\ Obj(m, v).cls = Cls("StopIter")

(* ---- one work item ----------------------------------------------------------------------- *)
Micro(m) ==
    LET fr == CurFrame(m)
        it == Head(fr.k)
        fr1 == [fr EXCEPT !.k = Tail(fr.k)]
        m1 == SetFrame(m, fr1)
        vs == fr.vs
        Replace(n, v) == SetFrame(m, [fr1 EXCEPT !.vs = Append(PopN(vs, n), v)])    \* pop n, push v
        Fail(e) == RaiseErr(m1, e)
        Res(n, r) == IF IsErr(r.err) THEN Fail(r.err) ELSE Replace(n, r.v)
    IN
    CASE it.i = "ev" ->
         LET e == it.e IN
         CASE e.k = "lit" -> SetFrame(m, Push(fr1, e.v))
           [] e.k = "var" -> LET r == ReadVar(m, fr, e.x, e.d) IN IF IsErr(r.err) THEN Fail(r.err) ELSE SetFrame(m, Push(fr1, r.v))
           [] e.k = "lam" ->
                LET m2 == Alloc(m1, Closure(-fr.line, fr.env, e.name, e.ps, TRUE, e.e, fr.mod))
                IN SetFrame(m2, Push(CurFrame(m2), Ref(NewAddr(m1))))
           [] OTHER -> SetFrame(m, [fr1 EXCEPT !.k = Items(e) \o fr1.k])
      [] it.i = "bin" ->
         LET a == vs[Len(vs) - 1] b == vs[Len(vs)] IN
         IF it.a = "==" THEN Replace(2, B(ValEq(m, a, b, 6)))
         ELSE IF it.a = "!=" THEN Replace(2, B(~ValEq(m, a, b, 6)))
         ELSE Res(2, BinNum(it.a, a, b))
      [] it.i = "un" -> Res(1, UnNum(it.a, Top(vs)))
      [] it.i = "and" -> IF Truthy(Top(vs)) THEN SetFrame(m, [fr1 EXCEPT !.vs = Pop(vs), !.k = <<Ev(it.a)>> \o fr1.k]) ELSE m1
      [] it.i = "or" -> IF Truthy(Top(vs)) THEN m1 ELSE SetFrame(m, [fr1 EXCEPT !.vs = Pop(vs), !.k = <<Ev(it.a)>> \o fr1.k])
      [] it.i = "load" -> LET r == ReadVar(m, fr, it.a, it.b) IN IF IsErr(r.err) THEN Fail(r.err) ELSE SetFrame(m, Push(fr1, r.v))
      [] it.i = "assign" ->
         IF it.b > 0 THEN [m1 EXCEPT !.store[Lookup(fr.env, it.b)].v = Top(vs)]
         ELSE IF it.a \in DOMAIN m.glob[fr.mod] THEN SetGlobal(m1, fr.mod, it.a, Top(vs))
         ELSE Fail(NameErr(it.a))
      [] it.i = "pop" -> SetFrame(m, [fr1 EXCEPT !.vs = Pop(vs)])
      [] it.i = "dup" -> SetFrame(m, Push(fr1, Top(vs)))
      [] it.i = "next" -> SetFrame(m, [fr1 EXCEPT !.pc = fr.pc + 1])
      [] it.i = "print" ->    \* (statement form used by the generator: print(e);) = call of the global `print`
         SetFrame([m EXCEPT !.out = Append(m.out, Text(m, Top(vs)))], [fr1 EXCEPT !.vs = Pop(vs)])
      [] it.i = "vardecl" ->
         IF it.b > 0 THEN
              LET m2 == Alloc(m1, Cell(Top(vs))) IN
              SetFrame(m2, [fr1 EXCEPT !.vs = Pop(vs), !.env = Append(fr.env, <<it.b, NewAddr(m1)>>)])
         ELSE SetFrame(SetGlobal(m1, fr.mod, it.a, Top(vs)), [fr1 EXCEPT !.vs = Pop(vs)])
      [] it.i = "if" ->
         LET p == m.prog
             el == ElseOf(p, fr.pc)
             en == EndOf(p, fr.pc)
             fr2 == [fr1 EXCEPT !.vs = Pop(vs)]
         IN IF Truthy(Top(vs)) THEN
                 SetFrame(m, [fr2 EXCEPT !.ctl = Append(fr.ctl, [Ctl("if", fr.pc, Len(fr.env)) EXCEPT !.vsLen = Len(fr2.vs)]), !.pc = fr.pc + 1])
            ELSE IF el # 0 THEN
                 SetFrame(m, [fr2 EXCEPT !.ctl = Append(fr.ctl, [Ctl("if", fr.pc, Len(fr.env)) EXCEPT !.vsLen = Len(fr2.vs)]), !.pc = el + 1])
            ELSE SetFrame(m, [fr2 EXCEPT !.pc = en + 1])
      [] it.i = "while" ->
         LET fr2 == [fr1 EXCEPT !.vs = Pop(vs)] IN
         IF Truthy(Top(vs)) THEN
              SetFrame(m, [fr2 EXCEPT !.ctl = Append(fr.ctl, [Ctl("while", fr.pc, Len(fr.env)) EXCEPT !.vsLen = Len(fr2.vs)]), !.pc = fr.pc + 1])
         ELSE SetFrame(m, [fr2 EXCEPT !.pc = EndOf(m.prog, fr.pc) + 1])
      [] it.i = "ret" -> DeliverHere(m1, Comp("return", Top(vs)))
      [] it.i = "throw" -> Raise(SetFrame(m, [fr1 EXCEPT !.vs = Pop(vs)]), Top(vs))
      [] it.i = "call" ->
         LET n == it.a
             f == vs[Len(vs) - n]
             args == LastN(vs, n)
         IN CallValue(SetFrame(m, [fr1 EXCEPT !.vs = PopN(vs, n + 1)]), f, args, Nil)
      [] it.i = "mkvec" ->
         LET m2 == Alloc(m1, VecObj(LastN(vs, it.a))) IN
         SetFrame(m2, [fr1 EXCEPT !.vs = Append(PopN(vs, it.a), Ref(NewAddr(m1)))])
      [] it.i = "mktup" ->
         LET m2 == Alloc(m1, TupObj(LastN(vs, it.a))) IN
         SetFrame(m2, [fr1 EXCEPT !.vs = Append(PopN(vs, it.a), Ref(NewAddr(m1)))])
      [] it.i = "mkmap" ->
         LET r == MapBuild(m, LastN(vs, 2 * it.a), 1, <<>>) IN
         IF IsErr(r.err) THEN Fail(r.err)
         ELSE LET m2 == Alloc(m1, MapObj(r.es)) IN SetFrame(m2, [fr1 EXCEPT !.vs = Append(PopN(vs, 2 * it.a), Ref(NewAddr(m1)))])
      [] it.i = "idx" ->
         LET o == vs[Len(vs) - 1] i == vs[Len(vs)] IN
         IF IsKind(m, o, "vec") \/ IsKind(m, o, "tuple") THEN
              LET es == Obj(m, o).es
                  kind == IF Obj(m, o).k = "vec" THEN "Vec" ELSE "Tuple"
              IN IF IsNum(i) THEN
                      LET r == BoundedIndex(m, i, Len(es), kind) IN
                      IF IsErr(r.err) THEN Fail(r.err) ELSE Replace(2, es[r.v.v + 1])
                 ELSE IF IsKind(m, i, "range") THEN
                      \* ObjRange::make_bounded_range, then a NEW vector / tuple holding elements[begin..end]
                      LET len == Len(es)
                          b0 == Obj(m, i).a  e0 == Obj(m, i).b
                          b1 == IF b0 < 0 THEN b0 + len ELSE b0
                          e1 == IF e0 < 0 THEN e0 + len ELSE e0
                      IN IF b1 < 0 \/ b1 >= len THEN Fail(Err("IndexError", kind \o " slice start out of range."))
                         ELSE IF e1 < 0 \/ e1 > len THEN Fail(Err("IndexError", kind \o " slice end out of range."))
                         ELSE LET e2 == IF e1 >= b1 THEN e1 ELSE b1
                                  part == SubSeq(es, b1 + 1, e2)
                                  m2 == Alloc(m1, IF kind = "Vec" THEN VecObj(part) ELSE TupObj(part))
                              IN SetFrame(m2, [fr1 EXCEPT !.vs = Append(PopN(vs, 2), Ref(NewAddr(m1)))])
                 ELSE Fail(Err("TypeError", "Expected an integer or range."))
         ELSE IF o.k = "str" THEN [Finish(m, FALSE, "OutOfModel", <<>>) EXCEPT !.oom = TRUE]
         ELSE Fail(Err("TypeError", "Value '" \o Text(m, o) \o "' is not indexable."))
      [] it.i = "setidx" ->
         LET o == vs[Len(vs) - 2] i == vs[Len(vs) - 1] v == vs[Len(vs)] IN
         IF ~IsKind(m, o, "vec") THEN Fail(Err("TypeError", "Only Vec objects are index-assignable."))
         ELSE LET r == BoundedIndex(m, i, Len(Obj(m, o).es), "Vec") IN
              IF IsErr(r.err) THEN Fail(r.err)
              ELSE SetFrame([m EXCEPT !.store[o.v].es[r.v.v + 1] = v], [fr1 EXCEPT !.vs = Append(PopN(vs, 3), Nil)])
      [] it.i = "inv" ->
         LET n == it.b
             r == vs[Len(vs) - n]
         IN Invoke(SetFrame(m, [fr1 EXCEPT !.vs = PopN(vs, n + 1)]), r, it.a, LastN(vs, n))
      [] it.i = "mkrange" ->
         \* pops end then begin (utils::validate_integer each); ranges are cached objects
         LET a == vs[Len(vs) - 1] b == vs[Len(vs)]
             Chk(x) == IF ~IsNum(x) THEN IntErrT(Text(m, x))
                       ELSE IF x.k = "flt" /\ x.v # "-0" THEN (IF x.v = "nan" THEN IntErrV(Text(m, x)) ELSE OOM) ELSE NoErr
         IN IF IsErr(Chk(b)) THEN Fail(Chk(b))
            ELSE IF IsErr(Chk(a)) THEN Fail(Chk(a))
            ELSE \* Vm::build_range: a hit in the cache returns the cached object (a hit does not refresh its age); a miss creates
                 \* the range and caches it, replacing the entry that was created longest ago once RANGE_CACHE_SIZE = 8 are held.
                 \* `==` on ranges is identity, so whether two evaluations of `a..b` are equal depends on exactly this.
                 LET hit == {j \in 1..Len(m.rc) : m.store[m.rc[j]].a = Fin(a) /\ m.store[m.rc[j]].b = Fin(b)} IN
                 IF hit # {} THEN Replace(2, Ref(m.rc[CHOOSE j \in hit : TRUE]))
                 ELSE LET m2 == Alloc(m1, RangeObj(Fin(a), Fin(b)))
                          rc2 == Append(m.rc, NewAddr(m1))
                          m3 == [m2 EXCEPT !.rc = IF Len(rc2) > RangeCacheSize THEN Tail(rc2) ELSE rc2] IN
                      SetFrame(m3, [fr1 EXCEPT !.vs = Append(PopN(vs, 2), Ref(NewAddr(m1)))])
      [] it.i = "foriter" ->
         \* the iterable is on the value stack: fetch its iterator (.iter())
         Invoke(SetFrame(m, [fr1 EXCEPT !.vs = Pop(vs), !.k = <<It("forenter")>> \o fr1.k]), Top(vs), "iter", <<>>)
      [] it.i = "forenter" ->
         \* iterator on the value stack: open the loop (one variable for the whole loop, as compiled)
         LET tk == m.prog[fr.pc]
             m2 == Alloc(m1, Cell(Nil))
             entry == [Ctl("for", fr.pc, Len(fr.env)) EXCEPT !.it = Top(vs), !.vsLen = Len(vs) - 1]
         IN SetFrame(m2, [fr1 EXCEPT !.vs = Pop(vs), !.ctl = Append(fr.ctl, entry),
                                     !.env = Append(fr.env, <<tk.d, NewAddr(m1)>>), !.k = <<It("fornext")>> \o fr1.k])
      [] it.i = "fornext" ->
         LET e == Top(fr.ctl) IN
         Invoke(SetFrame(m, [fr1 EXCEPT !.k = <<It("fornext2")>> \o fr1.k, !.line = LineAt(m, e.at)]), e.it, "next", <<>>)
      [] it.i = "fornext2" ->
         \* the value of next(): assigned to the loop variable first, then tested (as compiled)
         LET e == Top(fr.ctl)
             v == Top(vs)
             cell == Lookup(fr.env, m.prog[e.at].d)
             m2 == [m EXCEPT !.store[cell].v = v]
         IN IF IsStopIter(m, v) THEN
                 SetFrame(m2, [fr1 EXCEPT !.vs = Pop(vs), !.ctl = Pop(fr.ctl), !.env = SubSeq(fr.env, 1, e.envLen),
                                          !.pc = EndOf(m.prog, e.at) + 1])
            ELSE SetFrame(m2, [fr1 EXCEPT !.vs = Pop(vs), !.pc = e.at + 1])
      [] it.i = "startimport" ->
         LET path == it.a
             known == {j \in 1..Len(m.modst) : m.modst[j].path = path}
             srcs == {j \in 1..Len(m.mods) : m.mods[j].path = path}
         IN
         IF known # {} THEN
              LET st == m.modst[CHOOSE j \in known : TRUE] IN
              IF st.st = "loaded" THEN SetFrame(m, [fr1 EXCEPT !.vs = Append(Append(vs, Ref(st.obj)), Nil)])
              ELSE Fail(Err("ImportError", "Circular dependency encountered when importing module '" \o path \o "'."))
         ELSE IF srcs = {} THEN Fail(Err("ImportError", "Unable to read file '" \o path \o ".yl' (file not found)."))
         ELSE LET j == CHOOSE q \in srcs : TRUE
                  md == m.mods[j] IN
              IF md.bad THEN Fail(Err("ImportError", md.msg))
              ELSE \* the module exists (not yet imported) while its body runs as a call in this fiber
                   LET oaddr == NewAddr(m1)
                       m2 == [Alloc(m1, [k |-> "module", path |-> path]) EXCEPT
                                !.modst = Append(m.modst, [path |-> path, st |-> "loading", obj |-> oaddr]),
                                !.glob = (path :> m.coreglob) @@ m.glob]
                       seg == 1 + Len(m.snips) + j
                       body == [Frame(0, m.segs[seg].lo, <<>>, Nil, path) EXCEPT !.seg = seg]
                   IN IF NFrames(m) = FramesMax THEN Fail(Err("IndexError", "Stack overflow."))
                      ELSE [SetFrame(m2, [fr1 EXCEPT !.vs = Append(vs, Ref(oaddr))]) EXCEPT
                              !.fibers[m.cur].frames = Append(@, body), !.brk = TRUE,
                              !.fibers[m.cur].fresh = IF NFrames(m) = 1 THEN FALSE ELSE @]
      [] it.i = "finishimport" ->
         \* value stack: module, result of the body; the module is now imported
         LET modv == vs[Len(vs) - 1]
             path == Obj(m, modv).path
         IN SetFrame([m EXCEPT !.modst = [j \in 1..Len(m.modst) |-> IF m.modst[j].path = path THEN [m.modst[j] EXCEPT !.st = "loaded"] ELSE m.modst[j]]],
                     [fr1 EXCEPT !.vs = Pop(vs)])
      [] it.i = "get" /\ IsKind(m, Top(vs), "module") ->
         LET g == m.glob[Obj(m, Top(vs)).path] IN
         IF it.a \in DOMAIN g THEN Replace(1, g[it.a]) ELSE Fail(AttrErr(it.a))
      [] it.i = "setf" /\ IsKind(m, vs[Len(vs) - 1], "module") ->
         SetFrame(SetGlobal(m, Obj(m, vs[Len(vs) - 1]).path, it.a, Top(vs)), [fr1 EXCEPT !.vs = Append(PopN(vs, 2), Top(vs))])
      [] it.i = "get" ->
         LET o == Top(vs)
             Bind(meth) == LET m2 == Alloc(m1, BoundObj(o, meth)) IN
                           SetFrame(m2, [fr1 EXCEPT !.vs = Append(Pop(vs), Ref(NewAddr(m1)))])
         IN
         IF IsKind(m, o, "inst") /\ it.a \in DOMAIN Obj(m, o).fields THEN Replace(1, Obj(m, o).fields[it.a])
         ELSE IF IsKind(m, o, "inst") THEN
              LET ms == MethodsOf(m, Obj(m, o).cls) IN
              IF it.a \in DOMAIN ms THEN Bind(ms[it.a]) ELSE Fail(AttrErr(it.a))
         ELSE IF IsKind(m, o, "class") THEN
              (IF it.a \in Obj(m, o).statics THEN Bind(Obj(m, o).methods[it.a]) ELSE Fail(AttrErr(it.a)))
         ELSE IF it.a = "derives" THEN Bind(NatM("derives"))                                                \* Object's method, bound
         ELSE IF it.a \in NativeMethodNames THEN [Finish(m, FALSE, "OutOfModel", <<>>) EXCEPT !.oom = TRUE]   \* other bound built-in methods
         ELSE Fail(AttrErr(it.a))
      [] it.i = "setf" ->
         LET o == vs[Len(vs) - 1] v == Top(vs) IN
         IF IsKind(m, o, "inst") THEN
              SetFrame([m EXCEPT !.store[o.v].fields = (it.a :> v) @@ @], [fr1 EXCEPT !.vs = Append(PopN(vs, 2), v)])
         ELSE Fail(Err("AttributeError", "Only instances have fields."))
      [] it.i = "classof" ->
         LET v == Top(vs) IN
         IF IsClassValue(m, v) THEN m1
         ELSE IF IsKind(m, v, "inst") THEN Replace(1, Obj(m, v).cls)
         ELSE Replace(1, ClassOfValue(m, v))
      [] it.i = "superinv" ->
         \* self and the arguments are on the value stack; the superclass is the class's hidden `super` variable
         LET n == it.b
             selfv == vs[Len(vs) - n]
             sup == m.store[Lookup(fr.env, it.d)].v
             ms == MethodsOf(m, sup)
             m2 == SetFrame(m, [fr1 EXCEPT !.vs = PopN(vs, n + 1)])
         IN IF it.a \in DOMAIN ms THEN CallValue(m2, ms[it.a], LastN(vs, n), selfv) ELSE RaiseErr(m2, AttrErr(it.a))
      [] it.i = "superget" ->
         LET selfv == Top(vs)
             sup == m.store[Lookup(fr.env, it.d)].v
             ms == MethodsOf(m, sup)
         IN IF it.a \notin DOMAIN ms THEN Fail(AttrErr(it.a))
            ELSE IF ms[it.a].k = "natm" THEN [Finish(m, FALSE, "OutOfModel", <<>>) EXCEPT !.oom = TRUE]
            ELSE LET m2 == Alloc(m1, BoundObj(selfv, ms[it.a])) IN
                 SetFrame(m2, [fr1 EXCEPT !.vs = Append(Pop(vs), Ref(NewAddr(m1)))])
      [] it.i = "fmt" -> IF Top(vs).k = "str" THEN m1 ELSE Replace(1, S(Text(m, Top(vs))))
      [] it.i = "mkstr" ->
         LET RECURSIVE Cat(_)
             Cat(j) == IF j > Len(vs) THEN "" ELSE vs[j].v \o Cat(j + 1)
         IN Replace(it.a, S(Cat(Len(vs) - it.a + 1)))
      [] OTHER -> Finish(m, FALSE, "Stuck", <<"unknown work item " \o it.i>>)

(* ---- fetch the next statement of the active frame ----------------------------------------- *)
Fetch(m) ==
    LET fr == CurFrame(m)
        p == m.prog
        pc == fr.pc
    IN
    IF fr.seg > 0 /\ pc > m.segs[fr.seg].hi THEN
         \* end of a script / module body
         DeliverHere(m, Comp("return", Nil))
    ELSE
    LET tk == p[pc]
        frl == [fr EXCEPT !.line = LineAt(m, pc)]
        Go(items) == SetFrame(m, [frl EXCEPT !.k = items])
        Jump(f2) == SetFrame(m, f2)
    IN
    CASE tk.t = "print" -> Go(<<Ev(tk.e), It("print"), It("next")>>)
      [] tk.t = "expr" -> Go(<<Ev(tk.e), It("pop"), It("next")>>)
      [] tk.t = "var" -> Go(<<Ev(tk.e), It2("vardecl", tk.x, tk.d), It("next")>>)
      [] tk.t = "if" -> Go(<<Ev(tk.e), It("if")>>)
      [] tk.t = "while" -> Go(<<Ev(tk.e), It("while")>>)
      [] tk.t = "for" -> Go(<<Ev(tk.e), It("foriter")>>)
      [] tk.t = "block" -> Jump([frl EXCEPT !.ctl = Append(fr.ctl, Ctl("block", pc, Len(fr.env))), !.pc = pc + 1])
      [] tk.t = "return" -> Go(<<Ev(tk.e), It("ret")>>)
      [] tk.t = "throw" -> Go(<<Ev(tk.e), It("throw")>>)
      [] tk.t = "break" -> DeliverHere(SetFrame(m, frl), Comp("break", Nil))
      [] tk.t = "continue" -> DeliverHere(SetFrame(m, frl), Comp("continue", Nil))
      [] tk.t = "try" -> Jump([frl EXCEPT !.ctl = Append(fr.ctl, Ctl("try", pc, Len(fr.env))), !.pc = pc + 1])
      [] tk.t = "fn" ->
         IF tk.d > 0 THEN
              LET a == NewAddr(m)
                  env2 == Append(fr.env, <<tk.d, a>>)
                  m2 == Alloc(Alloc(m, Cell(Ref(a + 1))), Closure(pc, env2, tk.x, tk.ps, FALSE, Nil, fr.mod))
              IN SetFrame(m2, [frl EXCEPT !.env = env2, !.pc = EndOf(p, pc) + 1])
         ELSE LET m2 == Alloc(m, Closure(pc, fr.env, tk.x, tk.ps, FALSE, Nil, fr.mod))
              IN SetFrame(SetGlobal(m2, fr.mod, tk.x, Ref(NewAddr(m))), [frl EXCEPT !.pc = EndOf(p, pc) + 1])
      [] tk.t = "import" -> Go(<<It1("startimport", tk.p), It("finishimport"), It2("vardecl", tk.x, tk.d), It("next")>>)
      [] tk.t = "class" ->
         \* the variable exists (nil) while the class is being defined; the class value is stored at the end
         LET hasSup == tk.sup.k = "var"
             a0 == NewAddr(m)
             mA == IF tk.d > 0 THEN Alloc(m, Cell(Nil)) ELSE SetGlobal(m, fr.mod, tk.x, Nil)
             envA == IF tk.d > 0 THEN Append(fr.env, <<tk.d, a0>>) ELSE fr.env
             frA == [frl EXCEPT !.env = envA]
             supR == IF hasSup THEN ReadVar(mA, frA, tk.sup.x, tk.sup.d) ELSE Ok(Cls("Object"))
             \* DeclareClass has created the class and its metaclass (Vm::working_class_def) before the superclass is looked at; when
             \* that fails they stay there, unreachable for the program, until the next class declaration replaces them
             mAb == [mA EXCEPT !.wcd = 1]
         IN IF IsErr(supR.err) THEN RaiseErr(SetFrame(mAb, frA), supR.err)
            ELSE IF ~IsClassValue(mA, supR.v) THEN RaiseErr(SetFrame(mAb, frA), Err("RuntimeError", "Superclass must be a class."))
            ELSE LET inherited == MethodsOf(mA, supR.v)
                     \* the hidden local `super` (only when a superclass is named)
                     mB == IF hasSup THEN Alloc(mA, Cell(supR.v)) ELSE mA
                     envB == IF hasSup THEN Append(envA, <<tk.superd, NewAddr(mA)>>) ELSE envA
                     caddr == NewAddr(mB)
                     mC == [Alloc(mB, ClassObj(tk.x, supR.v, inherited, {})) EXCEPT !.wcd = 0]
                     \* #[constructor(name)]: a default initialiser, defined before the methods
                     mD == IF tk.ctor = "" THEN mC
                           ELSE LET cl == [Closure(pc, envB, tk.ctor, <<>>, FALSE, Nil, fr.mod) EXCEPT !.ctor = "default"]
                                    mX == Alloc(mC, cl)
                                IN [mX EXCEPT !.store[caddr].methods = (tk.ctor :> Ref(NewAddr(mC))) @@ @,
                                              !.store[caddr].statics = @ \cup {tk.ctor}]
                     entry == [Ctl("class", pc, Len(envA)) EXCEPT !.it = Ref(caddr)]
                 IN SetFrame(mD, [frl EXCEPT !.env = envB, !.ctl = Append(fr.ctl, entry), !.pc = pc + 1])
      [] tk.t = "method" ->
         LET e == Top(fr.ctl)
             caddr == e.it.v
             cl == [Closure(pc, fr.env, tk.x, tk.ps, FALSE, Nil, fr.mod) EXCEPT !.sd = tk.sd, !.ctor = IF tk.kind = "ctor" THEN "init" ELSE ""]
             m2 == Alloc(m, cl)
             m3 == [m2 EXCEPT !.store[caddr].methods = (tk.x :> Ref(NewAddr(m))) @@ @,
                              !.store[caddr].statics = IF tk.kind = "method" THEN @ \ {tk.x} ELSE @ \cup {tk.x}]
         IN SetFrame(m3, [frl EXCEPT !.pc = EndOf(p, pc) + 1])
      [] tk.t = "else" ->
         \* the then-branch finished: leave the if statement
         LET e == Top(fr.ctl) IN
         Jump([frl EXCEPT !.ctl = Pop(fr.ctl), !.env = SubSeq(fr.env, 1, e.envLen), !.pc = EndOf(p, e.at) + 1])
      [] tk.t = "catch" ->
         \* the try body finished normally
         LET e == Top(fr.ctl)
             fin == FinallyOf(p, e.at)
         IN IF fin # 0 THEN TrigIf(Jump([frl EXCEPT !.ctl = Append(Pop(fr.ctl), [e EXCEPT !.ph = "finally"]),
                                             !.env = SubSeq(fr.env, 1, e.envLen), !.pc = fin + 1]),
                                   PendingSomewhere(m), "FinallyWhileCompletionPending")
            ELSE Jump([frl EXCEPT !.ctl = Pop(fr.ctl), !.env = SubSeq(fr.env, 1, e.envLen), !.pc = EndOf(p, e.at) + 1])
      [] tk.t = "finally" ->
         \* the body (no catch clause) or the catch block finished normally
         LET e == Top(fr.ctl) IN
         TrigIf(Jump([frl EXCEPT !.ctl = Append(Pop(fr.ctl), [e EXCEPT !.ph = "finally"]), !.env = SubSeq(fr.env, 1, e.envLen), !.pc = pc + 1]),
                PendingSomewhere(m), "FinallyWhileCompletionPending")
      [] tk.t = "end" ->
         IF fr.ctl = <<>> THEN
              \* end of a function body: implicit `return nil`
              DeliverHere(SetFrame(m, frl), Comp("return", Nil))
         ELSE
         LET e == Top(fr.ctl)
             out == [frl EXCEPT !.ctl = Pop(fr.ctl), !.env = SubSeq(fr.env, 1, e.envLen)]
         IN CASE e.c = "while" -> Jump([out EXCEPT !.pc = e.at])
              [] e.c = "class" ->
                   \* DefineClass: the variable finally refers to the class
                   LET ctk == p[e.at] IN
                   IF ctk.d > 0 THEN SetFrame([m EXCEPT !.store[Lookup(fr.env, ctk.d)].v = e.it], [out EXCEPT !.pc = pc + 1])
                   ELSE SetFrame(SetGlobal(m, fr.mod, ctk.x, e.it), [out EXCEPT !.pc = pc + 1])
              [] e.c = "for" -> Jump([frl EXCEPT !.env = SubSeq(fr.env, 1, e.envLen + 1), !.k = <<[i |-> "fornext"]>>, !.pc = e.at])
              [] e.c = "try" /\ e.ph = "finally" /\ e.pend.c # "normal" ->
                   DeliverHere([SetFrame(m, out) EXCEPT !.fibers[m.cur].parked = IF e.pend.c = "throw" THEN Nil ELSE @], e.pend)
              [] OTHER -> Jump([out EXCEPT !.pc = pc + 1])
      [] OTHER -> Finish(m, FALSE, "Stuck", <<"unknown token " \o tk.t>>)

(* ---- one machine step --------------------------------------------------------------------- *)
RECURSIVE RunItems(_, _)
RunItems(m, fuel) ==
    IF m.status # "run" \/ m.brk \/ fuel = 0 THEN m
    ELSE IF NFrames(m) = 0 \/ CurFrame(m).k = <<>> THEN m
    ELSE RunItems(Micro(m), fuel - 1)

(* the active fiber has no frames left: its body returned *)
FiberDone(m) ==
    IF m.cur = m.main THEN Finish(m, TRUE, "", <<>>)
    ELSE \* return_impl of the fiber's last frame: unload_fiber, the caller's `call` gets the return value
         LET c == CurFiber(m).caller
             m2 == [m EXCEPT !.fibers[m.cur].caller = 0, !.cur = c, !.brk = TRUE]
         IN SetFrame(m2, Push(CurFrame(m2), m.retv))

Step1(m) ==
    LET m0 == [m EXCEPT !.brk = FALSE, !.n = m.n + 1] IN
    IF NFrames(m0) = 0 THEN FiberDone(m0)
    ELSE IF CurFrame(m0).k = <<>> THEN RunItems(Fetch(m0), 200)
    ELSE RunItems(m0, 200)

(* A run (the prelude or a snippet) has ended: record it and start the next snippet on the same
   interpreter - new main fiber, same globals / modules / heap - as Vm::execute does.  Snippets that do
   not compile yield their compile error and change nothing; a reset restores the initial globals. *)
RECURSIVE StartNext(_)
StartNext(m) ==
    LET nx == m.snip + 1 IN
    IF nx > Len(m.snips) THEN m
    ELSE LET sn == m.snips[nx] IN
         IF sn.reset THEN
              StartNext([m EXCEPT !.snip = nx, !.glob = [mod \in {"main"} |-> m.coreglob], !.modst = <<>>,
                                  !.runs = Append(m.runs, [out |-> <<>>, result |-> [ok |-> TRUE, kind |-> "reset", messages |-> <<>>]])])
         ELSE IF sn.bad THEN
              StartNext([m EXCEPT !.snip = nx,
                                  !.runs = Append(m.runs, [out |-> <<>>, result |-> [ok |-> FALSE, kind |-> "CompileError", messages |-> sn.messages]])])
         ELSE LET seg == 1 + nx
                  fb == Fiber(<<[Frame(0, m.segs[seg].lo, <<>>, Nil, "main") EXCEPT !.seg = seg]>>, "run")
              IN [m EXCEPT !.snip = nx, !.fibers = Append(m.fibers, fb), !.cur = Len(m.fibers) + 1, !.main = Len(m.fibers) + 1,
                           \* the main fiber is an object like any other fiber (a failed fiber keeps its `caller` link to it)
                           !.store = Append(m.store, [k |-> "fiber", idx |-> Len(m.fibers) + 1]),
                           !.status = "run", !.out = <<>>, !.result = [ok |-> TRUE, kind |-> "", messages |-> <<>>]]

(* =========================================================================================
   What is still reachable when the runs have ended (C16: garbage is reclaimed; C01: nothing reachable is)
   ========================================================================================= *)
(* The roots of the interpreter between runs are the module globals, the module table and the range cache (the stack of the
   last main fiber is empty).  An object holds exactly the references its definition gives it; a closure holds the variables
   its code MENTIONS (the compiler captures nothing else), a fiber everything its suspended frames hold.  The harness forces a
   collection after the last run and compares the number of surviving objects of each kind with LiveCounts. *)
RECURSIVE DeclsE(_), DeclsEs(_, _)
DeclsEs(es, i) == IF i > Len(es) THEN {} ELSE DeclsE(es[i]) \cup DeclsEs(es, i + 1)
DeclsE(e) ==
    CASE e.k = "var" -> {e.d}
      [] e.k \in {"bin", "and", "or", "range"} -> DeclsE(e.l) \cup DeclsE(e.r)
      [] e.k = "un" -> DeclsE(e.e)
      [] e.k \in {"assign", "cassign"} -> {e.d} \cup DeclsE(e.e)
      [] e.k = "call" -> DeclsE(e.f) \cup DeclsEs(e.args, 1)
      [] e.k = "lam" -> DeclsE(e.e)
      [] e.k \in {"vec", "tup"} -> DeclsEs(e.es, 1)
      [] e.k = "map" -> DeclsEs(e.kvs, 1)
      [] e.k = "idx" -> DeclsE(e.o) \cup DeclsE(e.i)
      [] e.k = "setidx" -> DeclsE(e.o) \cup DeclsE(e.i) \cup DeclsE(e.e)
      [] e.k = "interp" -> DeclsEs(e.parts, 1)
      [] e.k = "inv" -> DeclsE(e.o) \cup DeclsEs(e.args, 1)
      [] e.k = "get" -> DeclsE(e.o)
      [] e.k \in {"setf", "csetf"} -> DeclsE(e.o) \cup DeclsE(e.e)
      [] e.k = "superinv" -> {e.d, e.sd} \cup DeclsEs(e.args, 1)
      [] e.k = "superget" -> {e.d, e.sd}
      [] e.k = "Self" -> {e.d}
      [] OTHER -> {}
DeclsT(tk) == (IF "e" \in DOMAIN tk THEN DeclsE(tk.e) ELSE {}) \cup (IF tk.t = "class" THEN DeclsE(tk.sup) ELSE {})
               \cup (IF tk.t = "method" /\ tk.kind = "ctor" THEN {} ELSE {})
CapturedCells(m, c) ==
    LET ds == IF c.ctor = "default" THEN {}
              ELSE IF c.lam THEN DeclsE(c.body)
              ELSE LET j == EndOf(m.prog, c.at) IN UNION {DeclsT(m.prog[q]) : q \in c.at..(IF j = 0 THEN c.at ELSE j)}
    IN {Lookup(c.env, d) : d \in {x \in ds : x > 0}} \ {0}

RefsV(v) == IF v.k = "ref" THEN {v.v} ELSE {}
RefsSeq(vs) == UNION {RefsV(vs[i]) : i \in 1..Len(vs)}
FiberAddr(m, fi) == {a \in 1..Len(m.store) : m.store[a].k = "fiber" /\ m.store[a].idx = fi}
FrameRefs(m, fr) ==
    {fr.env[i][2] : i \in 1..Len(fr.env)} \cup RefsSeq(fr.vs) \cup RefsV(fr.self)
    \cup (IF fr.selfcell > 0 THEN {fr.selfcell} ELSE {}) \cup (IF fr.clo > 0 THEN {fr.clo} ELSE {})
    \cup UNION {RefsV(fr.ctl[i].it) \cup RefsV(fr.ctl[i].pend.v) : i \in 1..Len(fr.ctl)}
FiberRefsOf(m, f) ==
    UNION {FrameRefs(m, f.frames[i]) : i \in 1..Len(f.frames)} \cup (IF f.clo > 0 /\ (f.frames # <<>> \/ f.st = "new") THEN {f.clo} ELSE {}) \cup RefsV(f.parked)
    \cup (IF f.caller > 0 THEN FiberAddr(m, f.caller) ELSE {})
(* a fiber in the middle of `g.call()` holds g - the receiver stays in the caller's stack slot until the call returns, i.e. for ever
   if g died with an uncaught error (g in turn keeps its `caller` link) *)
FiberRefs(m, fi) ==
    FiberRefsOf(m, m.fibers[fi])
    \cup (IF m.fibers[fi].frames # <<>> THEN UNION {FiberAddr(m, g) : g \in {x \in 1..Len(m.fibers) : m.fibers[x].caller = fi}} ELSE {})
(* a captured variable whose scope is still live sits on the stack of the fiber running that scope (an open upvalue), and keeps
   that fiber - with everything on its stack - alive for as long as a closure can reach the variable *)
OwnerFibers(m, a) ==
    UNION {FiberAddr(m, fi) : fi \in {f \in 1..Len(m.fibers) :
              \E i \in 1..Len(m.fibers[f].frames) : \E j \in 1..Len(m.fibers[f].frames[i].env) : m.fibers[f].frames[i].env[j][2] = a}}
Succ(m, a) ==
    LET o == m.store[a] IN
    CASE o.k = "cell" -> RefsV(o.v) \cup OwnerFibers(m, a)
      [] o.k \in {"vec", "tuple"} -> RefsSeq(o.es)
      [] o.k = "map" -> UNION {RefsV(o.es[i][1]) \cup RefsV(o.es[i][2]) : i \in 1..Len(o.es)}
      [] o.k = "inst" -> RefsV(o.cls) \cup UNION {RefsV(o.fields[f]) : f \in DOMAIN o.fields}
      [] o.k = "class" -> RefsV(o.sup) \cup UNION {RefsV(o.methods[f]) : f \in DOMAIN o.methods}
      [] o.k = "clo" -> CapturedCells(m, o)
      [] o.k = "bound" -> RefsV(o.recv) \cup RefsV(o.meth)
      [] o.k = "iter" -> {o.src}
      [] o.k = "fiber" -> FiberRefs(m, o.idx)
      [] o.k = "module" -> IF o.path \in DOMAIN m.glob THEN UNION {RefsV(m.glob[o.path][x]) : x \in DOMAIN m.glob[o.path]} ELSE {}
      [] OTHER -> {}
RECURSIVE ReachFrom(_, _, _)
ReachFrom(m, seen, frontier) ==
    IF frontier = {} THEN seen
    ELSE LET nxt == (UNION {Succ(m, a) : a \in frontier}) \ seen IN ReachFrom(m, seen \cup nxt, nxt)
(* the interpreter's `fiber` field: after a run that ended inside a fiber with an uncaught error it still names that fiber, whose
   chain of callers (suspended in the middle of their `call`) stays alive with everything on their stacks until the next run begins *)
RECURSIVE ActiveChain(_, _, _)
ActiveChain(m, fi, fuel) == IF fi = 0 \/ fuel = 0 THEN {} ELSE {fi} \cup ActiveChain(m, m.fibers[fi].caller, fuel - 1)
Roots(m) == UNION {UNION {RefsV(m.glob[mod][x]) : x \in DOMAIN m.glob[mod]} : mod \in DOMAIN m.glob}
            \cup {m.rc[i] : i \in 1..Len(m.rc)} \cup {m.modst[j].obj : j \in 1..Len(m.modst)}
            \cup UNION {FiberAddr(m, fi) \cup FiberRefs(m, fi) : fi \in ActiveChain(m, m.cur, Len(m.fibers))}
Live(m) == LET r == Roots(m) IN ReachFrom(m, r, r)
(* counts of the objects created by the program (addresses above the prelude's) that are still reachable, by kind *)
LiveCounts(m) ==
    LET live == {a \in Live(m) : a > m.sbase}
    IN [vec |-> Cardinality({a \in live : m.store[a].k = "vec"}),
        tuple |-> Cardinality({a \in live : m.store[a].k = "tuple"}),
        map |-> Cardinality({a \in live : m.store[a].k = "map"}),
        inst |-> Cardinality({a \in live : m.store[a].k = "inst"}),
        range |-> Cardinality({a \in live : m.store[a].k = "range"}),
        \* one closure per evaluated fn / lambda / method / default constructor, plus the closure of a script or module body for
        \* as long as a frame running it exists (in a fiber that is still held)
        closure |-> Cardinality({a \in live : m.store[a].k = "clo"})
                    + Cardinality({p \in UNION {{<<fi, i>> : i \in 1..Len(m.fibers[fi].frames)} :
                                                fi \in {m.store[a].idx : a \in {b \in Live(m) : m.store[b].k = "fiber"}} \cup ActiveChain(m, m.cur, Len(m.fibers))} :
                                   m.fibers[p[1]].frames[p[2]].clo = 0}),
        class |-> Cardinality({a \in live : m.store[a].k = "class"}) + m.wcd,          \* (the implementation has two objects per class: it and its metaclass)
        fiber |-> Cardinality({a \in live : m.store[a].k = "fiber" /\ m.store[a].idx # m.main}),     \* (the interpreter always holds one main fiber)
        boundclo |-> Cardinality({a \in live : m.store[a].k = "bound" /\ m.store[a].meth.k = "ref"}),
        boundnat |-> Cardinality({a \in live : m.store[a].k = "bound" /\ m.store[a].meth.k # "ref"}),
        veciter |-> Cardinality({a \in live : m.store[a].k = "iter" /\ m.store[a].kind = "vec"}),
        tupleiter |-> Cardinality({a \in live : m.store[a].k = "iter" /\ m.store[a].kind = "tuple"}),
        rangeiter |-> Cardinality({a \in live : m.store[a].k = "iter" /\ m.store[a].kind = "range"}),
        exact |-> TRUE]

AdvanceRun(m) ==
    IF m.status # "done" \/ m.result.kind \in {"Stuck", "OutOfModel"} THEN m
    ELSE LET m1 == IF m.snip = 0 THEN [m EXCEPT !.coreglob = m.glob["main"], !.sbase = Len(m.store)]   \* the prelude has defined core.yl's classes
                   ELSE [m EXCEPT !.runs = Append(m.runs, [out |-> m.out, result |-> m.result])]
         IN StartNext(m1)

Step(m) == AdvanceRun(Step1(m))
=============================================================================
