SPECIFICATION Spec
CONSTANTS
  Alphabet <- Alpha6
  MaxChars = 3
  Ops <- OpsU
INVARIANTS ProducesValidUtf8 Emit
CHECK_DEADLOCK FALSE
