------------------------------- MODULE Natives -------------------------------
(* C02 - every operation on every kind of value has a DEFINED outcome: a result, or an error value of a
   stated class with a stated message; never a host panic.

   This module is the dispatch-and-validation layer of the VM and of core.rs written as total functions
   over an adversarial pool of values: which method table a value selects (vm.rs get_class / invoke /
   bind_method), what a call does to each kind of callee (call_value, call_closure, call_native), the
   arity check and the per-argument validation ORDER of every native (core.rs), the operand checks of
   every operator and of indexing / index assignment / range construction / iteration / map literals /
   inheritance.  Byte-level string semantics are Strings.tla's (instantiated below); this module only
   decides which branch is reached.

   TLC enumerates every case of the configured form as an initial state; `Outcome` is total over them
   (TLC fails on a CASE without a matching arm - that is the totality proof obligation of the
   specification), and every case is printed with its predicted outcome for replay on the real VM.

   outcome = [c |-> "ok"]                       the operation completes
           | [c |-> "err", kind, msg]           an error value of class `kind` whose context is `msg`
                                                (pieces: text, or <<"val", i>> = the printed form of operand i)
           | [c |-> "trigger", kind = finding]  a recorded genuine defect: host panic / abort today *)
EXTENDS Naturals, Integers, Sequences, FiniteSets, TLC, Json

CONSTANTS Form, Shard, NShards
VARIABLE ncase
S == INSTANCE Strings WITH Alphabet <- {<<97>>}, MaxChars <- 0, Ops <- {}, case <- ncase

OkR == [c |-> "ok", kind |-> "", msg |-> <<>>]
Err(kind, msg) == [c |-> "err", kind |-> kind, msg |-> msg]
Trig(key) == [c |-> "trigger", kind |-> key, msg |-> <<>>]
FromS(r) == IF r.ok THEN OkR ELSE Err(r.kind, r.msg)
Val(i) == <<"val", i>>

(* ---- the value pool ----------------------------------------------------------------------------
   id: name (the harness maps it to a yarel expression building a FRESH value of that description)
   k: representation (the Value variant);  cls: the class get_class returns (a method-table name)   *)
V(id, k, cls) == [id |-> id, k |-> k, cls |-> cls, a |-> <<"str">>, bytes |-> <<>>, es |-> <<>>, hash |-> FALSE,
                  ar |-> 0, st |-> "", fields |-> {}, recv |-> "", meth |-> "", b |-> 0, e |-> 0, et |-> "x"]
NumV(id, a) == [V(id, "num", "Num") EXCEPT !.a = a, !.hash = TRUE]
StrV(id, bs) == [V(id, "str", "String") EXCEPT !.bytes = bs, !.hash = TRUE]
VecV(id, es) == [V(id, "vec", "Vec") EXCEPT !.es = es]
TupV(id, es, h) == [V(id, "tuple", "Tuple") EXCEPT !.es = es, !.hash = h]
I(n) == <<"int", n>>

Nums == { NumV("n0", I(0)), NumV("nm0", I(0)), NumV("n1", I(1)), NumV("nm1", I(-1)), NumV("n2", I(2)), NumV("n5", I(5)),
          NumV("n300", I(300)), NumV("half", <<"frac">>), NumV("nan", <<"nan">>), NumV("inf", <<"inf">>), NumV("ninf", <<"ninf">>),
          NumV("big", <<"big">>), NumV("nbig", <<"nbig">>) }
Strs == { StrV("s_empty", <<>>), StrV("s_a", <<97>>), StrV("s_e", <<195, 169>>), StrV("s_ae", <<97, 195, 169>>), StrV("s_12", <<49, 50>>) }
Vecs == { VecV("v_empty", <<>>), VecV("v_3", <<I(10), I(11), I(12)>>), VecV("v_bytes", <<I(104), I(105)>>), VecV("v_bad", <<I(104), <<"str">>>>),
          VecV("v_300", <<I(300)>>), VecV("v_half", <<<<"frac">>>>), VecV("v_neg", <<I(-1)>>), VecV("v_c3", <<I(195)>>), VecV("v_surr", <<I(55296)>>),
          VecV("v_nan", <<<<"nan">>>>), VecV("v_200", <<I(200)>>), [VecV("v_self", <<I(1), <<"str">>>>) EXCEPT !.st = "self", !.et = "[1, [...]]"],
          VecV("v_nest", <<<<"str">>, <<"str">>>>), [VecV("v_heap", <<<<"str">>, <<"str">>>>) EXCEPT !.et = "(1, [2])"] }
Tups == { TupV("t_empty", <<>>, TRUE), TupV("t_1", <<I(1)>>, TRUE), TupV("t_2", <<I(1), <<"str">>>>, TRUE), TupV("t_vec", <<<<"str">>>>, FALSE), TupV("t_heap", <<<<"str">>, <<"str">>>>, FALSE) }
Maps == { [V("m_empty", "map", "HashMap") EXCEPT !.b = 0], [V("m_1", "map", "HashMap") EXCEPT !.b = 1], [V("m_self", "map", "HashMap") EXCEPT !.b = 1, !.st = "self"], [V("m_heap", "map", "HashMap") EXCEPT !.b = 1] }
Ranges == { [V("r_03", "range", "Range") EXCEPT !.b = 0, !.e = 3, !.hash = TRUE], [V("r_30", "range", "Range") EXCEPT !.b = 3, !.e = 0, !.hash = TRUE],
            [V("r_m21", "range", "Range") EXCEPT !.b = -2, !.e = -1, !.hash = TRUE], [V("r_11", "range", "Range") EXCEPT !.b = 1, !.e = 1, !.hash = TRUE],
            \* bounds at the ends of the integer domain (2^63 saturates to isize::MAX, -2^63 is isize::MIN); S!Huge stands for them
            [V("r_0big", "range", "Range") EXCEPT !.b = 0, !.e = S!Huge, !.hash = TRUE], [V("r_nbig2", "range", "Range") EXCEPT !.b = -S!Huge, !.e = 2, !.hash = TRUE],
            [V("r_m2big", "range", "Range") EXCEPT !.b = -2, !.e = S!Huge, !.hash = TRUE], [V("r_bignbig", "range", "Range") EXCEPT !.b = S!Huge, !.e = -S!Huge, !.hash = TRUE] }
Classes == { [V("c_A", "class", "AClass") EXCEPT !.hash = TRUE], [V("c_String", "class", "StringClass") EXCEPT !.hash = TRUE],
             [V("c_Fiber", "class", "FiberClass") EXCEPT !.hash = TRUE], [V("c_Error", "class", "ErrorClass") EXCEPT !.hash = TRUE],
             [V("c_Vec", "class", "PlainClass") EXCEPT !.hash = TRUE], [V("c_Type", "class", "Type") EXCEPT !.hash = TRUE] }
Insts == { [V("i_A", "inst", "A") EXCEPT !.fields = {"x"}], [V("i_err", "inst", "Error") EXCEPT !.fields = {"context"}],
           [V("i_stop", "inst", "StopIter") EXCEPT !.fields = {"context"}], [V("i_mapiter", "inst", "MapIter") EXCEPT !.fields = {"iterable", "func"}, !.st = "fresh"],
           V("i_derS", "inst", "DerString"), V("i_derV", "inst", "DerVec") }
Callables == { [V("f0", "clo", "Func") EXCEPT !.ar = 0], [V("f1", "clo", "Func") EXCEPT !.ar = 1], [V("f2", "clo", "Func") EXCEPT !.ar = 2],
               [V("f3", "clo", "Func") EXCEPT !.ar = 3], [V("bm", "bmeth", "Method") EXCEPT !.ar = 0],
               [V("bn_len", "bnat", "BuiltInMethod") EXCEPT !.recv = "s_ae", !.meth = "len"],
               [V("bn_push", "bnat", "BuiltInMethod") EXCEPT !.recv = "v_3", !.meth = "push"],
               [V("bn_find", "bnat", "BuiltInMethod") EXCEPT !.recv = "s_ae", !.meth = "find"],
               [V("nat_print", "native", "BuiltIn") EXCEPT !.meth = "print"], [V("nat_type", "native", "BuiltIn") EXCEPT !.meth = "type"],
               [V("nat_clock", "native", "BuiltIn") EXCEPT !.meth = "clock"] }
Iters == { [V("it_vec", "iter", "VecIter") EXCEPT !.st = "fresh"], [V("it_vec_done", "iter", "VecIter") EXCEPT !.st = "done"],
           [V("it_str", "iter", "StringIter") EXCEPT !.st = "fresh"], [V("it_tup", "iter", "TupleIter") EXCEPT !.st = "fresh"],
           [V("it_rng", "iter", "RangeIter") EXCEPT !.st = "fresh"] }
Fibers == { [V("fb_new0", "fiber", "Fiber") EXCEPT !.st = "new", !.ar = 0], [V("fb_new1", "fiber", "Fiber") EXCEPT !.st = "new", !.ar = 1],
            [V("fb_susp", "fiber", "Fiber") EXCEPT !.st = "susp"], [V("fb_done", "fiber", "Fiber") EXCEPT !.st = "done"] }
Others == { [V("nil", "nil", "Nil") EXCEPT !.hash = TRUE, !.a = <<"nil">>], [V("true", "bool", "Boolean") EXCEPT !.hash = TRUE, !.a = <<"bool">>],
            [V("false", "bool", "Boolean") EXCEPT !.hash = TRUE, !.a = <<"bool">>], [V("mod", "module", "Module") EXCEPT !.fields = {"q", "g"}] }

Pool == Nums \cup Strs \cup Vecs \cup Tups \cup Maps \cup Ranges \cup Classes \cup Insts \cup Callables \cup Iters \cup Fibers \cup Others
ById(id) == CHOOSE v \in Pool : v.id = id
(* one representative of every kind / every branch-relevant distinction (for the quadratic forms) *)
Rep == { v \in Pool : v.id \in {"n1", "nm1", "half", "nan", "inf", "big", "nbig", "s_empty", "s_a", "s_ae", "v_empty", "v_3", "v_self", "t_empty", "t_2", "t_vec",
                               "m_1", "m_self", "r_03", "r_30", "c_A", "c_String", "i_A", "i_err", "i_stop", "i_derS", "f1", "bm", "bn_len", "nat_print", "it_vec",
                               "it_vec_done", "fb_new0", "fb_susp", "fb_done", "nil", "true", "false", "mod"} }
Small == { v \in Pool : v.id \in {"n1", "s_a", "nil", "v_3", "f1"} }

IsNum(v) == v.k = "num"
IsStr(v) == v.k = "str"

(* ---- method tables (core.rs build_methods, core.yl, the prelude classes of the harness) --------- *)
IterMethods == {"iter", "map", "collect", "filter", "reduce"}
StringMethods == {"iter", "len", "is_alpha", "is_digit", "is_hexdigit", "count_chars", "char_byte_index", "find", "replace", "split", "starts_with",
                  "ends_with", "to_num", "to_bytes", "to_code_points"}
VecMethods == {"push", "pop", "len", "iter"}
Methods(cls) ==
    CASE cls = "String" -> StringMethods \cup {"derives"}
      [] cls = "StringClass" -> {"from", "from_ascii", "from_utf8", "from_code_points"}
      [] cls = "Vec" -> VecMethods \cup {"derives"}
      [] cls = "Tuple" -> {"len", "iter", "derives"}
      [] cls = "HashMap" -> {"has_key", "get", "insert", "remove", "clear", "len", "keys", "values", "items", "derives"}
      [] cls = "Range" -> {"iter", "derives"}
      [] cls \in {"VecIter", "StringIter", "TupleIter", "RangeIter"} -> {"next", "derives"} \cup IterMethods
      [] cls = "MapIter" -> {"next", "new", "derives"} \cup IterMethods
      [] cls = "Fiber" -> {"call", "has_finished", "derives"}
      [] cls = "FiberClass" -> {"new", "yield", "derives"}
      [] cls = "A" -> {"m", "new", "derives"}
      [] cls = "AClass" -> {"new", "derives"}
      [] cls = "Error" -> {"new", "derives"}
      [] cls = "StopIter" -> {"new", "derives"}
      [] cls = "ErrorClass" -> {"new", "derives"}
      [] cls = "DerString" -> StringMethods \cup {"derives", "new"}
      [] cls = "DerVec" -> VecMethods \cup {"derives", "new"}
      [] OTHER -> {"derives"}            \* Nil, Boolean, Num, Func, BuiltIn, BuiltInMethod, Method, Module, Type, PlainClass
AllNames == UNION {Methods(c) : c \in {v.cls : v \in Pool}} \cup {"nosuch", "x", "context", "q", "g"}

ParamErr(exp, n) == Err("TypeError", <<"Expected ", ToString(exp), IF exp = 1 THEN " parameter" ELSE " parameters", " but found ", ToString(n), ".">>)
ArgsErr(exp, n) == Err("TypeError", <<"Expected ", ToString(exp), " arguments but found ", ToString(n), ".">>)
NotCallable == Err("TypeError", <<"Can only call functions and methods.">>)
AttrErr(name) == Err("AttributeError", <<"Undefined property '", name, "'.">>)
ExpectedString(i) == Err("TypeError", <<"Expected a string but found '", Val(i), "'.">>)
Unhashable(i) == Err("ValueError", <<"Cannot use unhashable value '", Val(i), "' as HashMap key.">>)
DerivedReceiver == Trig("native-method-on-instance-of-class-derived-from-built-in")

(* utils::validate_integer on operand i *)
AsIntOf(v, i) ==
    IF ~IsNum(v) THEN [ok |-> FALSE, n |-> 0, err |-> Err("TypeError", <<"Expected an integer value but found '", Val(i), "'.">>)]
    ELSE LET r == S!AsInt(v.a) IN [ok |-> r.ok, n |-> r.n, err |-> FromS(r.err)]

(* the elements of a vector argument of String.from_ascii / from_utf8 / from_code_points, in order *)
RECURSIVE FirstElemErr(_, _, _, _)
FirstElemErr(es, j, limitMsg, et) ==        \* -> 0 = none, else the outcome of the first offending element
    IF j > Len(es) THEN OkR
    ELSE LET x == es[j] IN
         IF ~S!IsNumArg(x) THEN Err("TypeError", <<"Expected a number but found '", et, "'.">>)     \* et: the printed form of the vector's non-number elements
         ELSE IF x[1] # "int" \/ x[2] < 0 \/ (limitMsg = "256" /\ x[2] > 255)
              THEN Err("ValueError", <<"Expected a positive integer less than ", limitMsg, " but found '", S!ArgText(x), "'.">>)
         ELSE FirstElemErr(es, j + 1, limitMsg, et)
Ints(es) == [j \in 1..Len(es) |-> es[j][2]]

(* ---- calls ------------------------------------------------------------------------------------- *)
RECURSIVE CallOutcome(_, _, _), NativeOutcome(_, _, _, _, _), MethodOutcome(_, _, _, _, _)

(* native `name` of method table `cls` applied to receiver r (operand index ri) with args (operand indices ri+1 ..) *)
NativeOutcome(cls, name, r, args, ri) ==
    LET n == Len(args)
        A(j) == args[j]
        AI(j) == ri + j
        Arity(k, body) == IF n # k THEN ParamErr(k, n) ELSE body
        \* natives that `expect` a particular representation of their receiver
        Recv(kind, body) == IF r.k # kind THEN DerivedReceiver ELSE body
        StrArg(j, body) == IF ~IsStr(A(j)) THEN ExpectedString(AI(j)) ELSE body
    IN
    CASE name = "derives" -> Arity(1, IF A(1).k # "class" THEN Err("ValueError", <<"Expected a class name but found '", Val(AI(1)), "'.">>) ELSE OkR)
      [] cls \in {"String", "DerString"} /\ name \in {"iter", "len", "is_alpha", "is_digit", "is_hexdigit", "count_chars", "to_bytes", "to_code_points"} ->
            Arity(0, Recv("str", OkR))
      [] cls \in {"String", "DerString"} /\ name = "to_num" ->
            Arity(0, Recv("str", IF r.id = "s_12" THEN OkR ELSE Err("ValueError", <<"Unable to parse number from '", Val(ri), "'.">>)))
      [] cls \in {"String", "DerString"} /\ name = "char_byte_index" ->
            Arity(1, Recv("str", IF ~IsNum(A(1)) THEN Err("TypeError", <<"Expected an integer value but found '", Val(AI(1)), "'.">>)
                                 ELSE FromS(S!CharByteIndex(r.bytes, A(1).a))))
      [] cls \in {"String", "DerString"} /\ name = "find" ->
            Arity(2, Recv("str", StrArg(1, IF A(1).bytes = <<>> THEN Err("ValueError", <<"Cannot find empty string.">>)
                                           ELSE IF ~IsNum(A(2)) THEN Err("TypeError", <<"Expected an integer value but found '", Val(AI(2)), "'.">>)
                                           ELSE FromS(S!Find(r.bytes, A(1).bytes, A(2).a)))))
      [] cls \in {"String", "DerString"} /\ name = "replace" ->
            Arity(2, Recv("str", StrArg(1, IF A(1).bytes = <<>> THEN Err("ValueError", <<"Cannot replace empty string.">>) ELSE StrArg(2, OkR))))
      [] cls \in {"String", "DerString"} /\ name = "split" ->
            Arity(1, Recv("str", StrArg(1, IF A(1).bytes = <<>> THEN Err("ValueError", <<"Cannot split using an empty string.">>) ELSE OkR)))
      [] cls \in {"String", "DerString"} /\ name \in {"starts_with", "ends_with"} -> Arity(1, Recv("str", StrArg(1, OkR)))
      [] cls = "StringClass" /\ name = "from" -> Arity(1, OkR)
      [] cls = "StringClass" /\ name \in {"from_ascii", "from_utf8", "from_code_points"} ->
            Arity(1, IF A(1).k # "vec" THEN Err("TypeError", <<"Expected a Vec instance but found '", Val(AI(1)), "'.">>)
                     ELSE LET fe == FirstElemErr(A(1).es, 1, IF name = "from_code_points" THEN "4294967295" ELSE "256", A(1).et) IN
                          IF fe.c # "ok" THEN fe
                          ELSE IF name = "from_ascii" THEN OkR
                          ELSE IF name = "from_utf8" THEN FromS(S!FromUtf8(Ints(A(1).es)))
                          ELSE FromS(S!FromCodePoints(Ints(A(1).es))))
      [] cls \in {"Vec", "DerVec"} /\ name = "push" -> Arity(1, Recv("vec", OkR))
      [] cls \in {"Vec", "DerVec"} /\ name = "pop" ->
            Arity(0, Recv("vec", IF r.es = <<>> THEN Err("RuntimeError", <<"Cannot pop from empty Vec instance.">>) ELSE OkR))
      [] cls \in {"Vec", "DerVec"} /\ name \in {"len", "iter"} -> Arity(0, Recv("vec", OkR))
      [] cls = "Tuple" /\ name \in {"len", "iter"} -> Arity(0, OkR)
      [] cls = "Range" /\ name = "iter" -> Arity(0, OkR)
      [] cls = "HashMap" /\ name \in {"has_key", "get", "remove"} -> Arity(1, IF ~A(1).hash THEN Unhashable(AI(1)) ELSE OkR)
      [] cls = "HashMap" /\ name = "insert" -> Arity(2, IF ~A(1).hash THEN Unhashable(AI(1)) ELSE OkR)
      [] cls = "HashMap" /\ name \in {"clear", "len", "keys", "values", "items"} -> Arity(0, OkR)
      [] name = "next" /\ cls \in {"VecIter", "StringIter", "TupleIter", "RangeIter"} -> Arity(0, OkR)
      [] cls = "Fiber" /\ name = "has_finished" -> Arity(0, OkR)
      [] cls = "Fiber" /\ name = "call" ->
            IF r.st = "new" /\ n # r.ar THEN ParamErr(r.ar, n)
            ELSE IF r.st # "new" /\ n > 1 THEN Err("TypeError", <<"Expected at most 1 parameter but found ", ToString(n), ".">>)
            ELSE IF r.st = "done" THEN Err("RuntimeError", <<"Cannot call a finished fiber.">>)
            ELSE OkR
      [] cls = "FiberClass" /\ name = "new" ->
            Arity(1, IF A(1).k # "clo" THEN Err("TypeError", <<"Expected a function but found '", Val(AI(1)), "'.">>)
                     ELSE IF A(1).ar > 1 THEN Err("ValueError", <<"Fiber expects a closure that accepts at most 1 parameter.">>)
                     ELSE OkR)
      [] cls = "FiberClass" /\ name = "yield" ->
            IF n > 1 THEN Err("TypeError", <<"Expected at most 1 parameter but found ", ToString(n), ".">>)
            ELSE Err("RuntimeError", <<"Cannot yield from module-level code.">>)          \* every case runs at module level

(* a method found in table `cls`: a native, or a closure of core.yl / of the harness prelude *)
MethodOutcome(cls, name, r, args, ri) ==
    LET n == Len(args)
        Clo(ar, body) == IF n # ar THEN ArgsErr(ar, n) ELSE body
    IN
    CASE name = "m" /\ cls = "A" -> Clo(0, OkR)
      [] name = "new" /\ cls \in {"A", "AClass", "StopIter", "DerString", "DerVec"} -> Clo(0, OkR)
      [] name = "new" /\ cls \in {"Error", "ErrorClass"} -> Clo(1, OkR)
      [] name = "new" /\ cls = "MapIter" -> Clo(2, OkR)
      [] name = "next" /\ cls = "MapIter" -> Clo(0, OkR)                 \* i_mapiter maps f1 over a fresh [1, 2].iter()
      [] name \in {"iter", "collect"} /\ name \in IterMethods /\ "next" \in Methods(cls) /\ cls \notin {"String", "Vec", "Tuple", "Range", "DerString", "DerVec"} ->
            Clo(0, OkR)
      [] name \in {"map", "filter"} /\ "next" \in Methods(cls) -> Clo(1, OkR)      \* lazy: the argument is only stored
      [] name = "reduce" /\ "next" \in Methods(cls) ->
            \* core.yl: for v in self { ret = func(ret, v); }  - the first element decides
            Clo(2, IF r.st = "done" THEN OkR ELSE CallOutcome(args[1], <<args[2], ById("n1")>>, 100))
      [] OTHER -> NativeOutcome(cls, name, r, args, ri)

(* vm.rs call_value; operand index of the callee is ci, of the arguments ci+1.. (ci = 100: indices unused) *)
CallOutcome(f, args, ci) ==
    LET n == Len(args) IN
    CASE f.k \in {"clo", "bmeth"} -> IF n # f.ar THEN ArgsErr(f.ar, n) ELSE OkR
      [] f.k = "native" /\ f.meth = "print" -> IF n # 1 THEN Err("TypeError", <<"Expected one argument to 'print'.">>) ELSE OkR
      [] f.k = "native" /\ f.meth = "type" -> IF n # 1 THEN ParamErr(1, n) ELSE OkR
      [] f.k = "native" /\ f.meth = "clock" -> OkR
      [] f.k = "bnat" -> LET r == ById(f.recv) IN NativeOutcome(r.cls, f.meth, r, args, ci)
      [] OTHER -> NotCallable

FieldValue(v, name) ==       \* what the harness prelude stores there; only its callability matters
    IF v.k = "module" /\ name = "g" THEN ById("f0")
    ELSE IF v.id = "i_mapiter" /\ name = "func" THEN ById("f1")
    ELSE IF v.id = "i_mapiter" /\ name = "iterable" THEN ById("it_vec")
    ELSE IF name = "context" /\ v.id = "i_err" THEN ById("s_a")
    ELSE IF name = "context" THEN ById("nil")
    ELSE ById("n1")

Invoke(r, name, args) ==
    IF name \in r.fields THEN CallOutcome(FieldValue(r, name), args, 0)
    ELSE IF name \notin Methods(r.cls) THEN AttrErr(name)
    ELSE MethodOutcome(r.cls, name, r, args, 0)

GetProp(r, name) == IF name \in r.fields \/ name \in Methods(r.cls) THEN OkR ELSE AttrErr(name)
SetProp(r) == IF r.k \in {"inst", "module"} THEN OkR ELSE Err("AttributeError", <<"Only instances have fields.">>)

(* ---- operators --------------------------------------------------------------------------------- *)
NumOps == {"-", "*", "/", "%", "<", ">", "<=", ">=", "&", "|", "^", "<<", ">>"}
BinOp(op, x, y) ==
    CASE op = "+" -> IF (IsNum(x) /\ IsNum(y)) \/ (IsStr(x) /\ IsStr(y)) THEN OkR
                     ELSE Err("TypeError", <<"Binary operands must be two numbers or two strings.">>)
      [] op \in NumOps -> IF IsNum(x) /\ IsNum(y) THEN OkR ELSE Err("TypeError", <<"Binary operands must both be numbers.">>)
      [] op \in {"==", "!="} ->
            \* structural equality recurses without a cycle guard: two DISTINCT self-containing containers never finish
            IF x.st = "self" /\ y.st = "self" /\ x.k = y.k THEN Trig("equality-of-distinct-self-containing-containers") ELSE OkR
      [] op \in {"&&", "||"} -> OkR
UnOp(op, x) == IF op = "!" \/ IsNum(x) THEN OkR ELSE Err("TypeError", <<"Unary operand must be a number.">>)

SeqLen(v) == IF v.k = "str" THEN Len(v.bytes) ELSE Len(v.es)
KindName(v) == CASE v.k = "str" -> "String" [] v.k = "vec" -> "Vec" [] v.k = "tuple" -> "Tuple"
Index(x, i) ==
    IF x.k \notin {"str", "vec", "tuple"} THEN Err("TypeError", <<"Value '", Val(0), "' is not indexable.">>)
    ELSE IF i.k = "range" THEN
         (IF x.k = "str" THEN FromS(S!StrSlice(x.bytes, i.b, i.e))
          ELSE LET r == S!BoundedRange(i.b, i.e, SeqLen(x), KindName(x)) IN IF r.ok THEN OkR ELSE FromS(r.err))
    ELSE IF ~IsNum(i) THEN Err("TypeError", <<"Expected an integer or range.">>)
    ELSE IF x.k = "str" THEN FromS(S!StrIndex(x.bytes, i.a))
    ELSE LET r == S!Bounded(i.a, SeqLen(x), KindName(x)) IN IF r.ok THEN OkR ELSE FromS(r.err)
SetIndex(x, i) ==
    IF x.k # "vec" THEN Err("TypeError", <<"Only Vec objects are index-assignable.">>)
    ELSE LET r == AsIntOf(i, 1) IN
         IF ~r.ok THEN r.err
         ELSE LET b == S!Bounded(i.a, Len(x.es), "Vec") IN IF b.ok THEN OkR ELSE FromS(b.err)
MkRange(x, y) ==      \* build_range_impl pops the END first
    LET e == AsIntOf(y, 1) b == AsIntOf(x, 0) IN IF ~e.ok THEN e.err ELSE IF ~b.ok THEN b.err ELSE OkR
ForIn(x) ==           \* for_statement: x.iter() then .next() until StopIter
    IF "iter" \notin Methods(x.cls) /\ "iter" \notin x.fields THEN AttrErr("iter")
    ELSE IF x.cls \in {"DerString", "DerVec"} THEN DerivedReceiver
    ELSE OkR
MapKey(x) == IF x.hash THEN OkR ELSE Unhashable(0)
Derive(x) == IF x.k = "class" THEN OkR ELSE Err("RuntimeError", <<"Superclass must be a class.">>)

(* ---- the cases ---------------------------------------------------------------------------------- *)
C(f, name, ops) == [f |-> f, name |-> name, ops |-> ops]
Ids(vs) == [j \in 1..Len(vs) |-> vs[j].id]
Arity2Names == {"find", "replace", "insert", "reduce", "new"}
(* operations that change their operands: performing them twice is a different case, not a repetition *)
Stateful == {"push", "pop", "next", "call", "insert", "remove", "clear", "collect", "reduce", "yield", "new"}
Cases ==
    CASE Form = "invoke0" -> {C("invoke", nm, <<r>>) : r \in Pool, nm \in AllNames}
      [] Form = "invoke1" -> {c \in {C("invoke", nm, <<r, a>>) : r \in Pool, nm \in AllNames, a \in Pool} :
                                  c.name \in Methods(c.ops[1].cls) \cup c.ops[1].fields \/ c.ops[2].id = "n1"}
      [] Form = "invoke2" -> {c \in {C("invoke", nm, <<r, a, b>>) : r \in Rep, nm \in Arity2Names, a \in Rep, b \in Rep} : c.name \in Methods(c.ops[1].cls)}
      [] Form = "invoke3" -> {C("invoke", nm, <<r, a, a, a>>) : r \in Rep, nm \in AllNames, a \in Small}
      [] Form = "getprop" -> {C("getprop", nm, <<r>>) : r \in Pool, nm \in AllNames}
      [] Form = "setprop" -> {C("setprop", "x", <<r, a>>) : r \in Pool, a \in Small}
      [] Form = "call" -> {C("call", "", <<f>>) : f \in Pool} \cup {C("call", "", <<f, a>>) : f \in Pool, a \in Pool}
                          \cup {C("call", "", <<f, a, b>>) : f \in Pool, a \in Small, b \in Small} \cup {C("call", "", <<f, a, a, a>>) : f \in Pool, a \in Small}
      [] Form = "binop" -> {C("binop", op, <<x, y>>) : op \in NumOps \cup {"+", "==", "!=", "&&", "||"}, x \in Rep \cup Nums, y \in Rep \cup Nums}
      [] Form = "unop" -> {C("unop", op, <<x>>) : op \in {"-", "~", "!"}, x \in Pool}
      [] Form = "index" -> {C("index", "", <<x, i>>) : x \in Pool, i \in Pool}
      [] Form = "setindex" -> {C("setindex", "", <<x, i, a>>) : x \in Pool, i \in Pool, a \in {ById("n1")}}
      [] Form = "range" -> {C("range", "", <<x, y>>) : x \in Pool, y \in Pool}
      [] Form = "repeat" -> {c \in {C("invoke", nm, <<r, a>>) : r \in Pool, nm \in AllNames, a \in Pool} : c.name \in Methods(c.ops[1].cls) /\ c.name \notin Stateful}
                            \cup {c \in {C("invoke", nm, <<r, a, b>>) : r \in Rep, nm \in Arity2Names, a \in Rep, b \in Small} : c.name \in Methods(c.ops[1].cls) /\ c.name \notin Stateful}
                            \cup {C("index", "", <<x, i>>) : x \in Pool, i \in Pool} \cup {C("mapkey", "", <<x>>) : x \in Pool}
                            \cup {C("binop", op, <<x, y>>) : op \in {"+", "<", "=="}, x \in Rep, y \in Rep}
      [] Form = "alias" -> \* an argument IS the receiver (the same object, not an equal one): borrows taken by the native must not conflict
                           {c \in {C("invoke", nm, <<r, r>>) : r \in Pool, nm \in AllNames} : c.name \in Methods(c.ops[1].cls) \cup c.ops[1].fields}
                           \cup {c \in {C("invoke", nm, <<r, r, a>>) : r \in Pool, nm \in Arity2Names, a \in Small} : c.name \in Methods(c.ops[1].cls)}
                           \cup {c \in {C("invoke", nm, <<r, a, r>>) : r \in Pool, nm \in Arity2Names, a \in Small} : c.name \in Methods(c.ops[1].cls)}
                           \cup {C("index", "", <<x, x>>) : x \in Pool} \cup {C("binop", op, <<x, x>>) : op \in {"+", "<", "=="}, x \in Pool}
                           \cup {C("call", "", <<f, f>>) : f \in Pool}
                           \* the index / the stored value / the other end of a range IS the indexed object (the rejection message prints it
                           \* while the operation may still hold it)
                           \cup {C("setindex", "", <<x, x, a>>) : x \in Pool, a \in {ById("n1")}}
                           \cup {C("setindex", "", <<x, i, x>>) : x \in Pool, i \in Small}
                           \cup {C("range", "", <<x, x>>) : x \in Pool} \cup {C("setprop", "x", <<r, r>>) : r \in Pool}
      [] Form = "fiberops" -> \* everything that can be done to a fiber or to the Fiber class (C09)
                           LET FR == Fibers \cup {ById("c_Fiber")} IN
                           {C("invoke", nm, <<r>>) : r \in FR, nm \in AllNames}
                           \cup {c \in {C("invoke", nm, <<r, a>>) : r \in FR, nm \in AllNames, a \in Pool} : c.name \in Methods(c.ops[1].cls)}
                           \cup {c \in {C("invoke", nm, <<r, a, b>>) : r \in FR, nm \in AllNames, a \in Rep, b \in Small} : c.name \in Methods(c.ops[1].cls)}
                           \cup {C("call", "", <<r, a>>) : r \in FR, a \in Small} \cup {C("index", "", <<r, a>>) : r \in FR, a \in Small}
      [] Form = "iterate" -> {C("iternext", "", <<x>>) : x \in {v \in Pool : "iter" \in Methods(v.cls) /\ v.cls \notin {"DerString", "DerVec"}}}
      [] Form = "misc" -> {C(f, "", <<x>>) : f \in {"forin", "mapkey", "derive", "throw", "show"}, x \in Pool}

Outcome(c) ==
    LET o == c.ops
        rest == SubSeq(o, 2, Len(o))
    IN
    CASE c.f = "invoke" -> Invoke(o[1], c.name, rest)
      [] c.f = "getprop" -> GetProp(o[1], c.name)
      [] c.f = "setprop" -> SetProp(o[1])
      [] c.f = "call" -> CallOutcome(o[1], rest, 0)
      [] c.f = "binop" -> BinOp(c.name, o[1], o[2])
      [] c.f = "unop" -> UnOp(c.name, o[1])
      [] c.f = "index" -> Index(o[1], o[2])
      [] c.f = "setindex" -> SetIndex(o[1], o[2])
      [] c.f = "range" -> MkRange(o[1], o[2])
      [] c.f = "forin" -> ForIn(o[1])
      [] c.f = "mapkey" -> MapKey(o[1])
      [] c.f = "derive" -> Derive(o[1])
      [] c.f \in {"throw", "show", "iternext"} -> OkR

Init == ncase \in Cases
Next == UNCHANGED ncase
Spec == Init /\ [][Next]_ncase

(* the formal content: the outcome function is total and well formed on every case *)
Defined == LET r == Outcome(ncase) IN r.c \in {"ok", "err", "trigger"} /\ (r.c = "err" => r.kind \in
              {"TypeError", "ValueError", "IndexError", "AttributeError", "RuntimeError", "NameError", "ImportError"})
Emit == PrintT(<<"CASE", ToJson([f |-> ncase.f, name |-> ncase.name, ops |-> Ids(ncase.ops), r |-> Outcome(ncase)])>>)
=============================================================================
