SPECIFICATION Spec
CONSTANTS
  InitCap = 4
  KeepHist = TRUE
  KeyPool <- PoolDeep
INVARIANTS TypeOK NoDuplicate Findable SizeExact AlwaysAHole EqualIffSame EmitHist
CONSTRAINT HistBound
