--------------------------------- MODULE Heap ---------------------------------
(* The mark-sweep collector of yarel (memory.rs) with its root handles, as built.

   One action per critical section of the code:
     Alloc     = Heap::allocate_root: [collect first, by policy] push box, bytes += size, num_roots = 1
     Clone     = Root::clone                      (num_roots += 1)
     AsRoot    = Gc::as_root / Root::from(Gc)     (num_roots += 1 on a reachable object)
     Drop      = Root::drop                       (num_roots -= 1)
     Link/Unlink = the mutator storing / clearing a Gc pointer inside a reachable object
   `Collect` is the body of Heap::collect, transcribed pass by pass:
     mark_roots       : unmark all; GcBox::mark from every box with num_roots > 0 (recursive grey)
     trace_references : repeat { for each box in heap order: if grey, GcBox::blacken (recursive) }
                        until a pass finds no grey box
     sweep            : bytes of WHITE boxes are credited back, only BLACK boxes are retained
   including the as-built quirk that sweep drops grey boxes without crediting their bytes, and - behind
   the switch MarksInBlacken - the defect this specification exposed: ObjBoundMethod::blacken used to
   *mark* its receiver (turning an already black subgraph grey again), and for a cycle through two
   bound methods the trace loop then never terminates (NoGreyLeft fails; repaired in /repo by a fix: commit).

   Which edges a kind's mark/blacken follow is the constant Traced; the property GcSafety is
   stated against ALL edges an object holds (Refs), so a kind whose trace functions miss an edge
   makes TLC produce the history in which a reachable object is reclaimed.                       *)
EXTENDS Naturals, Sequences, FiniteSets, TLC, Json

CONSTANTS MaxObj,        \* boxes ever allocated in one behaviour (serials 1..MaxObj)
          NLabels,       \* pointer slots per object
          Kinds,         \* subset of {"node", "bound", "leaky"}
          MaxRoots,      \* bound on num_roots per box (keeps the model finite)
          Policy,        \* "always" (checked builds) | "paced" (optimised) | "schedule" (every subset)
          InitBudget,    \* HEAP_INIT_BYTES_MAX in allocation units
          Growth,        \* HEAP_GROWTH_FACTOR
          Mutators,      \* which mutator actions the configuration explores ("clone","asroot","drop","link","unlink")
          MarksInBlacken,\* TRUE = ObjBoundMethod::blacken as it was before the fix (receiver.mark())
          KeepHist

VARIABLES objects,       \* heap order: sequence of serials of the boxes in Heap.objects
          kind,          \* serial -> kind
          edge,          \* serial -> [1..NLabels -> serial or 0]
          roots,         \* serial -> num_roots
          freed,         \* serials reclaimed so far
          bytes,         \* bytes_allocated (units)
          threshold,     \* collection_threshold (units)
          next,          \* next serial
          afterLast,     \* observation: bytes right after the last collection (0 = none yet)
          collected,     \* observation: did the last Alloc collect
          hist           \* history: operations with the observable state expected after each

vars == <<objects, kind, edge, roots, freed, bytes, threshold, next, afterLast, collected, hist>>
view == <<objects, kind, edge, roots, freed, bytes, threshold, next, afterLast>>
viewSafety == <<objects, kind, edge, roots, next>>     \* pacing state is irrelevant when every schedule is explored

Serials == 1..MaxObj
Labels  == 1..NLabels
Alive   == {objects[i] : i \in 1..Len(objects)}

(* ---- which labels the trace functions of a kind follow ------------------------------------ *)
MarkLabels(k)    == IF k = "leaky" THEN Labels \ {1} ELSE Labels
BlackenLabels(k) == IF k = "leaky" THEN Labels \ {1} ELSE Labels
BlackenMarks(k, l) == MarksInBlacken /\ k = "bound" /\ l = 1   \* the old ObjBoundMethod::blacken: self.receiver.mark()

(* ---- GcBox::mark / GcBox::blacken, recursive exactly like the code ------------------------- *)
RECURSIVE MarkObj(_, _), MarkKids(_, _, _)
MarkObj(col, o) ==
    IF col[o] = "grey" THEN col
    ELSE MarkKids(TLCEval([col EXCEPT ![o] = "grey"]), o, 1)
MarkKids(col, o, l) ==
    IF l > NLabels THEN col
    ELSE LET c == edge[o][l] IN
         IF c # 0 /\ l \in MarkLabels(kind[o]) THEN MarkKids(TLCEval(MarkObj(col, c)), o, l + 1)
         ELSE MarkKids(col, o, l + 1)

RECURSIVE BlackenObj(_, _), BlackenKids(_, _, _)
BlackenObj(col, o) ==
    IF col[o] = "black" THEN col
    ELSE BlackenKids(TLCEval([col EXCEPT ![o] = "black"]), o, 1)
BlackenKids(col, o, l) ==
    IF l > NLabels THEN col
    ELSE LET c == edge[o][l] IN
         IF c # 0 /\ l \in BlackenLabels(kind[o])
         THEN BlackenKids(TLCEval(IF BlackenMarks(kind[o], l) THEN MarkObj(col, c) ELSE BlackenObj(col, c)), o, l + 1)
         ELSE BlackenKids(col, o, l + 1)

RECURSIVE MarkRoots(_, _)
MarkRoots(col, i) ==                          \* second loop of mark_roots, in heap order
    IF i > Len(objects) THEN col
    ELSE MarkRoots(TLCEval(IF roots[objects[i]] > 0 THEN MarkObj(col, objects[i]) ELSE col), i + 1)

RECURSIVE TracePass(_, _, _)
TracePass(col, i, n) ==                       \* one pass of trace_references; n counts boxes blackened
    IF i > Len(objects) THEN [col |-> col, n |-> n]
    ELSE IF col[objects[i]] = "grey" THEN TracePass(TLCEval(BlackenObj(col, objects[i])), i + 1, n + 1)
    ELSE TracePass(col, i + 1, n)

HasGrey(col) == \E i \in 1..Len(objects) : col[objects[i]] = "grey"

RECURSIVE TraceAll(_, _)
TraceAll(col, fuel) ==                        \* the while loop; fuel only guards the model
    IF ~HasGrey(col) \/ fuel = 0 THEN col
    ELSE LET r == TLCEval(TracePass(col, 1, 0)) IN
         IF r.n = 0 THEN r.col ELSE TraceAll(r.col, fuel - 1)

White0 == [o \in Serials |-> "white"]
Coloured == TraceAll(TLCEval(MarkRoots(White0, 1)), 4 * MaxObj)

(* result of Heap::collect on the current state *)
CollectResult ==
    LET col == TLCEval(Coloured)
        kept == SelectSeq(objects, LAMBDA o : col[o] = "black")
        whiteN == Cardinality({i \in 1..Len(objects) : col[objects[i]] = "white"})
        gone == {objects[i] : i \in {j \in 1..Len(objects) : col[objects[j]] # "black"}}
    IN [objects |-> kept, gone |-> gone, bytes |-> bytes - whiteN,
        threshold |-> (bytes - whiteN) * Growth, greyLeft |-> HasGrey(col)]

(* ---- reachability as the PROPERTY sees it: every pointer an object holds -------------------- *)
RECURSIVE ReachFrom(_)
ReachFrom(S) == LET T == (S \cup {edge[o][l] : o \in S, l \in Labels}) \ {0}
                IN IF T = S THEN S ELSE ReachFrom(T)
Reach == ReachFrom({o \in Serials : o < next /\ roots[o] > 0})

-----------------------------------------------------------------------------
Init == /\ objects = <<>>
        /\ kind = [o \in Serials |-> "node"]
        /\ edge = [o \in Serials |-> [l \in Labels |-> 0]]
        /\ roots = [o \in Serials |-> 0]
        /\ freed = {}
        /\ bytes = 0
        /\ threshold = InitBudget
        /\ next = 1
        /\ afterLast = 0
        /\ collected = FALSE
        /\ hist = <<>>

Obs(fr, by, th, nobj) == [freed |-> fr, bytes |-> by, thr |-> th, objects |-> nobj]
Log(op, fr, by, th, nobj) ==
    hist' = IF KeepHist THEN Append(hist, [op |-> op, obs |-> Obs(fr, by, th, nobj)]) ELSE hist

Alloc(k, doCollect) ==
    /\ next <= MaxObj
    /\ LET r == TLCEval(IF doCollect THEN CollectResult
                ELSE [objects |-> objects, gone |-> {}, bytes |-> bytes, threshold |-> threshold, greyLeft |-> FALSE])
           o == next
       IN /\ objects' = Append(r.objects, o)
          /\ freed' = freed \cup r.gone
          /\ bytes' = r.bytes + 1
          /\ threshold' = r.threshold
          /\ afterLast' = IF doCollect THEN r.bytes ELSE afterLast
          /\ collected' = doCollect
          /\ kind' = [kind EXCEPT ![o] = k]
          /\ roots' = [roots EXCEPT ![o] = 1]
          /\ next' = next + 1
          /\ edge' = [x \in Serials |-> IF x \in r.gone THEN [l \in Labels |-> 0] ELSE edge[x]]
          /\ Log(<<"new", k, IF doCollect THEN 1 ELSE 0>>, freed \cup r.gone, r.bytes + 1, r.threshold, Len(r.objects) + 1)

AllocByPolicy(k) ==
    CASE Policy = "always"   -> Alloc(k, TRUE)
      [] Policy = "paced"    -> Alloc(k, bytes >= threshold)       \* collect_if_required
      [] Policy = "schedule" -> \E b \in BOOLEAN : Alloc(k, b)

Same == /\ UNCHANGED <<objects, freed, bytes, threshold, next, afterLast, kind>>
        /\ collected' = FALSE

CloneRoot(o) ==                                \* Root::clone on a handle the mutator holds
    /\ o < next /\ roots[o] > 0 /\ roots[o] < MaxRoots
    /\ roots' = [roots EXCEPT ![o] = @ + 1]
    /\ UNCHANGED edge /\ Same
    /\ Log(<<"clone", o>>, freed, bytes, threshold, Len(objects))

AsRoot(o) ==                                   \* Gc::as_root on anything the mutator can reach
    /\ o \in Reach /\ roots[o] < MaxRoots
    /\ roots' = [roots EXCEPT ![o] = @ + 1]
    /\ UNCHANGED edge /\ Same
    /\ Log(<<"asroot", o>>, freed, bytes, threshold, Len(objects))

DropRoot(o) ==                                 \* Root::drop
    /\ o < next /\ roots[o] > 0
    /\ roots' = [roots EXCEPT ![o] = @ - 1]
    /\ UNCHANGED edge /\ Same
    /\ Log(<<"drop", o>>, freed, bytes, threshold, Len(objects))

(* An ObjBoundMethod is immutable and is created from objects that already exist, so its
   pointers are set once and always lead to older objects; everything else is freely mutable. *)
Frozen(o) == kind[o] = "bound"

Link(o, l, p) ==
    /\ o \in Reach /\ p \in Reach /\ edge[o][l] # p
    /\ Frozen(o) => (edge[o][l] = 0 /\ p < o)
    /\ edge' = [edge EXCEPT ![o][l] = p]
    /\ UNCHANGED roots /\ Same
    /\ Log(<<"link", o, l, p>>, freed, bytes, threshold, Len(objects))

Unlink(o, l) ==
    /\ o \in Reach /\ edge[o][l] # 0 /\ ~Frozen(o)
    /\ edge' = [edge EXCEPT ![o][l] = 0]
    /\ UNCHANGED roots /\ Same
    /\ Log(<<"unlink", o, l>>, freed, bytes, threshold, Len(objects))

(* Mutation is only interesting while another allocation (hence another collection) can follow. *)
MoreToCome == next <= MaxObj

Next == \/ \E k \in Kinds : AllocByPolicy(k)
        \/ MoreToCome /\ "clone" \in Mutators /\ \E o \in Serials : CloneRoot(o)
        \/ MoreToCome /\ "asroot" \in Mutators /\ \E o \in Serials : AsRoot(o)
        \/ MoreToCome /\ "drop" \in Mutators /\ \E o \in Serials : DropRoot(o)
        \/ MoreToCome /\ "link" \in Mutators /\ \E o, p \in Serials, l \in Labels : Link(o, l, p)
        \/ MoreToCome /\ "unlink" \in Mutators /\ \E o \in Serials, l \in Labels : Unlink(o, l)

Spec == Init /\ [][Next]_vars

-----------------------------------------------------------------------------
(* C01: nothing reachable is ever reclaimed *)
GcSafety   == freed \cap Reach = {}
(* C16: what a collection leaves is exactly what is reachable; nothing else stays *)
Reclaimed  == collected => (Alive \ {next - 1}) \subseteq Reach
NoGreyLeft == ~CollectResult.greyLeft            \* the trace loop always finishes its job
(* C16: the heap never exceeds max(growth * size after last collection, initial budget) by more
   than the allocation in progress (only meaningful for the paced policy) *)
Max(a, b) == IF a > b THEN a ELSE b
Pacing     == Policy = "paced" => bytes <= Max(Growth * afterLast, InitBudget) + 1
BytesExact == bytes = Len(objects)
FreedDead  == freed \cap Alive = {}

TypeOK == /\ bytes \in Nat /\ threshold \in Nat /\ next \in 1..(MaxObj + 1)
          /\ \A o \in Serials : roots[o] \in 0..MaxRoots

(* Behaviours handed to the harness: the history up to and including every collecting allocation
   (every transition of that kind, so both the schedule and the mutator's order are covered). *)
EmitCollect == collected' => PrintT(<<"HIST", ToJson([ops |-> hist'])>>)
EmitAll == PrintT(<<"HIST", ToJson([ops |-> hist'])>>)
=============================================================================
