---------------------------- MODULE PacingProof ----------------------------
(* TLAPS proof that the pacing rule bounds the heap: for every initial budget, every growth factor >= 1,
   every sequence of allocation sizes and reclaimed amounts, of any length.  Checked with `tlapm`.     *)
EXTENDS Pacing, TLAPS

ASSUME ConstAssump == InitBudget \in Nat /\ Growth \in Nat /\ Growth >= 1

LEMMA InitInd == Init => IndInv
  BY ConstAssump DEF Init, IndInv, TypeOK, Pacing, Max

LEMMA StepInd == IndInv /\ [Next]_vars => IndInv'
<1> SUFFICES ASSUME IndInv, [Next]_vars PROVE IndInv'
  OBVIOUS
<1>1. ASSUME NEW r \in Int, Collect(r) PROVE IndInv'
  <2>1. (bytes - r) \in Nat /\ (bytes - r) * Growth \in Nat
    BY <1>1 DEF Collect, IndInv, TypeOK
  <2>2. bytes - r <= Max(Growth * (bytes - r), InitBudget) + lastSize
    BY <1>1, <2>1 DEF Collect, IndInv, TypeOK, Max
  <2> QED BY <1>1, <2>1, <2>2 DEF Collect, IndInv, TypeOK, Pacing, Max
<1>2. ASSUME NEW s \in Int, AllocStep(s) PROVE IndInv'
  <2>1. CASE pendingCollect
    BY <1>2, <2>1 DEF AllocStep, IndInv, TypeOK, Pacing, Max
  <2>2. CASE ~pendingCollect /\ bytes < threshold
    BY <1>2, <2>2 DEF AllocStep, IndInv, TypeOK, Pacing, Max
  <2> QED BY <1>2, <2>1, <2>2 DEF AllocStep
<1>3. ASSUME NEW s \in Int, NEW r \in Int, AllocAtomic(s, r) PROVE IndInv'
  <2>1. CASE bytes >= threshold
    <3>1. (bytes - r) \in Nat /\ (bytes - r) * Growth \in Nat
      BY <1>3, <2>1 DEF AllocAtomic, IndInv, TypeOK
    <3>2. bytes - r <= Max(Growth * (bytes - r), InitBudget)
      BY <3>1 DEF IndInv, Max
    <3> QED BY <1>3, <2>1, <3>1, <3>2 DEF AllocAtomic, IndInv, TypeOK, Pacing, Max
  <2>2. CASE ~(bytes >= threshold)
    BY <1>3, <2>2 DEF AllocAtomic, IndInv, TypeOK, Pacing, Max
  <2> QED BY <2>1, <2>2
<1>4. CASE UNCHANGED vars
  BY <1>4 DEF vars, IndInv, TypeOK, Pacing, Max
<1> QED BY <1>1, <1>2, <1>3, <1>4 DEF Next

THEOREM PacingHolds == Spec => []Pacing
<1>1. IndInv => Pacing
  BY DEF IndInv
<1> QED BY InitInd, StepInd, <1>1, PTL DEF Spec
=============================================================================
