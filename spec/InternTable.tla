------------------------------ MODULE InternTable ------------------------------
(* The string intern table of yarel (vm.rs, mod string_store) as an executable twin:
   open addressing, linear probing, capacity a power of two, grow x2 when
   size + 1 > floor(0.75 * capacity), rehash in slot order.  One action per call of
   Vm::new_gc_obj_string: `get`, and on a miss `insert` (with `adjust_capacity`).

   A key is <<hash, text>>.  A slot is empty or holds <<hash, text, id>> where id is the
   identity of the ObjString object created for that key (the code stores the object itself).
   The model's hash domain is small so that the key pool can contain full-hash twins (same
   hash, different text), keys that collide in the low bits at some capacities only, and
   chains that wrap around the end of the slot array.                                      *)
EXTENDS Naturals, Sequences, FiniteSets, TLC, Json

CONSTANTS KeyPool,     \* set of <<hash, text>>
          InitCap,     \* 4 in the implementation
          KeepHist     \* TRUE: carry the operation history (replay); FALSE: trace validation

VARIABLES entries,     \* sequence of length capacity; slot i of the code is entries[i+1]
          size,        \* the code's `size` field
          nextId,      \* identity the next created object gets
          hist,        \* history variable: the operations so far (hidden by the VIEW)
          last         \* observation: result of the last operation (hidden by the VIEW)

vars == <<entries, size, nextId, hist, last>>
view == <<entries, size, nextId>>

None == <<>>
Cap(ents) == Len(ents)
KeyOf(slot) == <<slot[1], slot[2]>>

RECURSIVE Probe(_, _, _)
Probe(ents, k, i) ==                 \* find_index: i is the code's 0-based index
    LET e == ents[i + 1] IN
    IF e = None THEN i
    ELSE IF e[1] = k[1] /\ e[2] = k[2] THEN i      \* entry.hash == hash && entry.as_str() == string
    ELSE Probe(ents, k, (i + 1) % Cap(ents))

FindIndex(ents, k) == Probe(ents, k, k[1] % Cap(ents))   \* hash & mask, capacity is a power of 2

RECURSIVE Rehash(_, _, _)
Rehash(old, new, i) ==               \* adjust_capacity: move entries in slot order
    IF i > Len(old) THEN new
    ELSE IF old[i] = None THEN Rehash(old, new, i + 1)
    ELSE Rehash(old, [new EXCEPT ![FindIndex(new, KeyOf(old[i])) + 1] = old[i]], i + 1)

RECURSIVE EmptyTable(_)
EmptyTable(n) ==                      \* n empty slots as a proper sequence (n is a power of two)
    IF n = 1 THEN <<None>> ELSE LET half == EmptyTable(n \div 2) IN half \o half

Grow(ents) == Rehash(ents, EmptyTable(2 * Cap(ents)), 1)

NeedGrow(ents, sz) == sz + 1 > (Cap(ents) * 3) \div 4     \* (len as f64 * 0.75) as usize

Init == /\ entries = EmptyTable(InitCap)
        /\ size = 0
        /\ nextId = 1
        /\ hist = <<>>
        /\ last = [hit |-> FALSE, id |-> 0]

InsertInto(e1, k) ==                  \* `insert` after the capacity decision
    LET i2 == FindIndex(e1, k)
    IN /\ entries' = [e1 EXCEPT ![i2 + 1] = <<k[1], k[2], nextId>>]
       /\ size' = IF e1[i2 + 1] = None THEN size + 1 ELSE size

Intern(k) ==
    LET idx == FindIndex(entries, k)
        hit == entries[idx + 1] # None
    IN /\ hist' = IF KeepHist THEN Append(hist, k) ELSE hist
       /\ IF hit
          THEN /\ UNCHANGED <<entries, size, nextId>>
               /\ last' = [hit |-> TRUE, id |-> entries[idx + 1][3]]
          ELSE /\ InsertInto(IF NeedGrow(entries, size) THEN Grow(entries) ELSE entries, k)
               /\ nextId' = nextId + 1
               /\ last' = [hit |-> FALSE, id |-> nextId]

Next == \E k \in KeyPool : Intern(k)
Spec == Init /\ [][Next]_vars

-----------------------------------------------------------------------------
Stored == {i \in 1..Len(entries) : entries[i] # None}

NoDuplicate == \A i, j \in Stored : i # j => /\ KeyOf(entries[i]) # KeyOf(entries[j])   \* one object per content
                                             /\ entries[i][3] # entries[j][3]           \* one content per object
Findable    == \A i \in Stored : FindIndex(entries, KeyOf(entries[i])) = i - 1   \* no hole in any probe chain
SizeExact   == size = Cardinality(Stored)
AlwaysAHole == size < Len(entries)                                               \* the probe loop terminates
(* the property itself: a creation returns an existing object iff one with the same bytes exists,
   and then it is that object *)
EqualIffSame == NoDuplicate /\ Findable
IdStable == [][\A i \in Stored : \E j \in 1..Len(entries') : entries'[j] = entries[i]]_vars

TypeOK == /\ size \in Nat /\ nextId \in Nat
          /\ \E n \in 0..12 : Len(entries) = InitCap * (2 ^ n)

(* Every explored transition is printed with a shortest history that reaches it; the harness
   replays the history on the real table and compares the complete slot array.            *)
EmitEdge == PrintT(<<"EDGE", ToJson([ops |-> hist', entries |-> entries', size |-> size',
                                     hit |-> last'.hit, id |-> last'.id])>>)
=============================================================================
