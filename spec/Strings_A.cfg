SPECIFICATION Spec
CONSTANTS
  Alphabet <- Alpha6
  MaxChars = 2
  Ops <- OpsA
INVARIANTS ProducesValidUtf8 Emit
CHECK_DEADLOCK FALSE
