SPECIFICATION TraceSpec
CONSTANTS
  InitCap = 4
  KeepHist = FALSE
  KeyPool <- TraceKeys
INVARIANT TraceInv
POSTCONDITION Accepted
CHECK_DEADLOCK FALSE
