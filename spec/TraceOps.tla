------------------------------- MODULE TraceOps -------------------------------
(* The interpreter followed instruction by instruction (C04 dynamically, C02, C08, C09, C10).

   With the `yarel_verif` hooks on (EV_OPS | EV_VM) the real VM logs, BEFORE fetching each instruction, the chunk
   it executes (announced once by a `Chunk` event carrying the code bytes, the kinds of its constants and the
   capture counts of its function constants), the instruction offset `pc`, the height `sl` of the fiber's value
   stack, the frame's first slot `sb`, and the frame / handler counts; and the control events of TraceVm.tla
   (Call, Return, Unwind, Landed, LoadFiber, UnloadFiber, RunStart, RunEnd, Reset).

   This specification EXECUTES THE SAME BYTES abstractly - operand-stack heights and control only, the instruction
   table of Opcodes.tla (the one Bytecode.tla explores statically) - and accepts an instruction event only if it is
   exactly what the table predicts from the previous instruction of that frame:

     * the instruction is fetched at a successor the table allows (fall-through by the operand sizes the table gives,
       the jump target encoded in the operands, the pending return target of a finally block, the catch / finally
       address of the innermost handler record after an exception), inside the code, in the frame's own chunk;
     * the value stack has exactly the height the table's effect gives (so every opcode handler's pushes and pops, the
       argument hand-over of calls, returns, fiber switches and imports, and the truncation done by unwinding are
       checked against the specification at every step, whatever values are involved);
     * a call enters the callee at offset 0 with `arity` slots, at the height the caller had; a frame returns only
       from a Return instruction; handler records are those the PushExcHandler instructions built.

   A change to an opcode handler, to operand decoding, to jump arithmetic, to call / return / unwind stack surgery or to
   the compiler's operand encoding that leaves the printed output of a program intact still changes this trace.   *)
EXTENDS Integers, Sequences, FiniteSets, TLC, Json, IOUtils, Opcodes

Rec == TLCEval(ndJsonDeserialize(IOEnv.TRACE))

(* chunk id -> [code, ckind, cupv, arity]: the Chunk events, numbered in file order by the recorder (kept out of the state) *)
ChunkEvents == TLCEval(SelectSeq(Rec, LAMBDA r : r.e = "Chunk"))
chunks == ChunkEvents

VARIABLES l,        \* position in the trace
          cur,      \* active fiber (0 = none)
          fibs,     \* fiber -> [frames, hs, ret]
          phase     \* idle | run | unwinding | dead
vars == <<l, cur, fibs, phase>>

(* a frame: chunk c, first slot sb, the set `exp` of <<pc, sl>> pairs its next instruction event may show, `last` = name
   of the instruction it executed last, `callsl` = stack height when that instruction was a call (-1 otherwise);
   an entry frame (pushed by a Call event / a new fiber) has c = 0 until its first instruction shows it *)
Entry(pre) == [c |-> 0, sb |-> -1, exp |-> {}, last |-> "", callsl |-> -1, pre |-> pre]
NewFiber == [frames |-> <<Entry(-1)>>, hs |-> <<>>, ret |-> -1]

Ev(name) == l <= Len(Rec) /\ Rec[l].e = name
E == Rec[l]
Me == fibs[cur]
Top(s) == s[Len(s)]
Pop(s) == SubSeq(s, 1, Len(s) - 1)
With(f, r) == [x \in DOMAIN fibs \cup {f} |-> IF x = f THEN r ELSE fibs[x]]
SetTop(fr, r) == [fr EXCEPT ![Len(fr)] = r]
Skip == l' = l + 1 /\ UNCHANGED <<cur, fibs, phase>>

Init == l = 1 /\ cur = 0 /\ fibs = <<>> /\ phase = "idle"

Reset == Ev("Reset") /\ l' = l + 1 /\ cur' = 0 /\ fibs' = <<>> /\ phase' = "idle"
RunStart == Ev("RunStart") /\ l' = l + 1 /\ cur' = 0 /\ phase' = "run" /\ UNCHANGED <<fibs>>
RunEnd == /\ Ev("RunEnd")
          /\ (E.ok = 1) => (phase = "run" /\ cur # 0 /\ Me.frames = <<>>)
          /\ (E.ok = 0) => phase \in {"dead", "idle"}
          \* a run that ended with an error: reset_stack() empties the fiber it died in
          /\ fibs' = IF E.ok = 0 /\ cur # 0 THEN With(cur, [frames |-> <<>>, hs |-> <<>>, ret |-> -1]) ELSE fibs
          /\ l' = l + 1 /\ cur' = 0 /\ phase' = "idle"

Chunk == /\ Ev("Chunk") /\ E.c \in DOMAIN chunks /\ chunks[E.c].c = E.c /\ Skip      \* announced: its bytes are in the table from here on

(* a fiber is resumed exactly as it was left, or it is a new one (the recorder names fibers by address, and the address of a
   reclaimed fiber can be used again: both readings are explored, the next instruction event decides) *)
LoadFiber == /\ Ev("LoadFiber") /\ phase = "run"
             /\ LET f == E.fib IN
                  /\ f # cur
                  /\ \/ f \in DOMAIN fibs /\ Len(fibs[f].frames) = E.nf /\ fibs[f].frames # <<>> /\ Len(fibs[f].hs) = E.nh /\ fibs' = fibs
                     \/ E.nf = 1 /\ E.nh = 0 /\ fibs' = With(f, NewFiber)
                  /\ cur' = f
             /\ l' = l + 1 /\ UNCHANGED <<phase>>

UnloadFiber == /\ Ev("UnloadFiber") /\ phase = "run" /\ cur # 0
               /\ E.fib \in DOMAIN fibs /\ E.fib # cur
               /\ Len(fibs[E.fib].frames) = E.nf /\ Len(fibs[E.fib].hs) = E.nh
               /\ cur' = E.fib /\ l' = l + 1 /\ UNCHANGED <<fibs, phase>>

Call == /\ Ev("Call") /\ phase = "run" /\ cur # 0 /\ E.fib = cur
        /\ Me.frames # <<>>
        /\ E.nf = Len(Me.frames) + 1
        /\ Top(Me.frames).last \in {"Call", "Invoke", "SuperInvoke", "IterNext", "StartImport"}    \* only these push a frame
        /\ fibs' = With(cur, [Me EXCEPT !.frames = Append(Me.frames, Entry(Top(Me.frames).callsl))])
        /\ l' = l + 1 /\ UNCHANGED <<cur, phase>>

Return == /\ Ev("Return") /\ phase = "run" /\ cur # 0 /\ E.fib = cur
          /\ Me.frames # <<>> /\ E.nf = Len(Me.frames)
          /\ Top(Me.frames).last = "Return"                          \* a frame is left only by its own Return instruction
          /\ fibs' = With(cur, [Me EXCEPT !.frames = Pop(Me.frames)])
          /\ l' = l + 1 /\ UNCHANGED <<cur, phase>>

Unwind == /\ Ev("Unwind") /\ phase = "run" /\ cur # 0 /\ E.fib = cur
          /\ E.nh = Len(Me.hs)
          /\ phase' = IF Me.hs = <<>> THEN "dead" ELSE "unwinding"
          /\ l' = l + 1 /\ UNCHANGED <<cur, fibs>>

Landed == /\ Ev("Landed") /\ phase = "unwinding" /\ cur # 0 /\ E.fib = cur
          /\ LET r == Top(Me.hs)
                 finonly == r.catch = r.fin
                 fr == SubSeq(Me.frames, 1, r.fc)
             IN /\ r.fc <= Len(Me.frames) /\ r.fc >= 1
                /\ E.fc = r.fc /\ E.h = r.h /\ E.nf = r.fc /\ E.nh = Len(Me.hs) - 1
                /\ (E.hx = 1) = finonly                      \* a finally-only handler keeps the exception in flight
                /\ E.sl = (IF finonly THEN r.h ELSE r.h + 1) \* catch: the exception object is the catch variable; finally-only: parked
                /\ fr[r.fc].c # 0
                /\ fibs' = With(cur, [frames |-> SetTop(fr, [fr[r.fc] EXCEPT !.exp = {<<r.catch, E.sl>>}, !.last = "Landed", !.callsl = -1]),
                                       hs |-> Pop(Me.hs), ret |-> Me.ret])
          /\ phase' = "run" /\ l' = l + 1 /\ UNCHANGED <<cur>>

(* events of TraceVm.tla whose effect this module derives from the instruction itself *)
Other == (\E n \in {"PushHandler", "PopHandler", "JumpFinally", "EndFinally", "Throw", "StartImport", "FinishImport"} : Ev(n)) /\ Skip

Op == /\ Ev("Op") /\ phase = "run" /\ cur # 0 /\ E.fib = cur
      /\ Me.frames # <<>> /\ E.nf = Len(Me.frames) /\ E.nh = Len(Me.hs)
      /\ E.c \in DOMAIN chunks
      /\ LET top == Top(Me.frames)
             fn == chunks[E.c]
             sl == E.sl
         IN
         /\ E.pc >= 0 /\ E.pc < Len(fn.code)                          \* fetched inside the function's code
         /\ E.sb >= 0 /\ E.sb < sl
         /\ IF top.c = 0
            THEN /\ E.pc = 0 /\ sl - E.sb = fn.arity                  \* a callee starts at its first instruction with `arity` slots
                 /\ (top.pre = -1 \/ sl = top.pre)                    \* ... and a call neither pushes nor pops
            ELSE E.c = top.c /\ E.sb = top.sb /\ <<E.pc, sl>> \in top.exp
         /\ LET d == DecodeIn(fn, E.pc)
                n == d.n
                nxt == d.nxt
                hs == Me.hs
                base == [c |-> E.c, sb |-> E.sb, exp |-> {<<nxt, sl + Delta(n, d.a, d.b)>>}, last |-> n, callsl |-> -1, pre |-> -1]
                step ==
                  CASE n \in {"Return", "Throw"} -> [fr |-> [base EXCEPT !.exp = {}], hs |-> hs, ret |-> Me.ret]
                    [] n = "Jump" -> [fr |-> [base EXCEPT !.exp = {<<nxt + d.a, sl>>}], hs |-> hs, ret |-> Me.ret]
                    [] n = "Loop" -> [fr |-> [base EXCEPT !.exp = {<<nxt - d.a, sl>>}], hs |-> hs, ret |-> Me.ret]
                    [] n \in {"JumpIfFalse", "JumpIfStopIter"} ->
                         [fr |-> [base EXCEPT !.exp = {<<nxt + d.a, sl>>, <<nxt, sl>>}], hs |-> hs, ret |-> Me.ret]
                    [] n = "PushExcHandler" ->
                         [fr |-> base, hs |-> Append(hs, [fc |-> E.nf, h |-> sl, catch |-> nxt + d.a, fin |-> nxt + d.a + d.b]), ret |-> Me.ret]
                    [] n = "PopExcHandler" -> [fr |-> base, hs |-> IF hs = <<>> THEN hs ELSE Pop(hs), ret |-> Me.ret]
                    [] n = "JumpFinally" ->
                         IF hs = <<>> THEN [fr |-> [base EXCEPT !.exp = {}], hs |-> hs, ret |-> Me.ret]
                         ELSE [fr |-> [base EXCEPT !.exp = {<<Top(hs).fin, Top(hs).h>>}], hs |-> Pop(hs), ret |-> nxt]
                    [] n = "EndFinally" ->
                         IF E.hx = 1 THEN [fr |-> [base EXCEPT !.exp = {}], hs |-> hs, ret |-> Me.ret]           \* re-raised: Unwind follows
                         ELSE IF Me.ret # -1 THEN [fr |-> [base EXCEPT !.exp = {<<Me.ret, sl + 1>>}], hs |-> hs, ret |-> -1]
                         ELSE [fr |-> base, hs |-> hs, ret |-> Me.ret]
                    [] n \in {"Call", "Invoke"} -> [fr |-> [base EXCEPT !.callsl = sl], hs |-> hs, ret |-> Me.ret]
                    [] n = "SuperInvoke" -> [fr |-> [base EXCEPT !.callsl = sl - 1], hs |-> hs, ret |-> Me.ret]       \* the superclass operand is popped first
                    [] OTHER -> [fr |-> base, hs |-> hs, ret |-> Me.ret]
            IN /\ d.ok
               /\ sl - E.sb >= Needs(n, d.a, d.b)                     \* the operands the instruction pops / peeks exist in its own frame
               \* ... and what its operand names exists: a local slot of this frame, a captured variable of this function, a constant
               /\ (n \in {"GetLocal", "SetLocal"} => d.a < sl - E.sb)
               /\ (n \in {"GetUpvalue", "SetUpvalue"} => d.a < fn.upv)
               /\ (n = "Constant" => d.a < Len(fn.ckind))
               /\ (n \in NameOps => d.a < Len(fn.ckind) /\ fn.ckind[d.a + 1] = "str")
               /\ (n = "Closure" => d.a < Len(fn.ckind) /\ fn.ckind[d.a + 1] = "fn")
               /\ (n = "JumpFinally" => hs # <<>> /\ Top(hs).fc = E.nf)
               /\ fibs' = With(cur, [frames |-> SetTop(Me.frames, step.fr), hs |-> step.hs, ret |-> step.ret])
      /\ l' = l + 1 /\ UNCHANGED <<cur, phase>>

Next == Reset \/ RunStart \/ RunEnd \/ Chunk \/ LoadFiber \/ UnloadFiber \/ Call \/ Return \/ Unwind \/ Landed \/ Other \/ Op
Spec == Init /\ [][Next]_vars

Accepted ==
    LET d == TLCGet("stats").diameter IN
    IF d - 1 = Len(Rec) THEN TRUE
    ELSE Print("REJECT " \o ToString(d) \o " event " \o (IF d <= Len(Rec) THEN ToJson([x \in DOMAIN Rec[d] \ {"code", "ckind", "cupv"} |-> Rec[d][x]]) ELSE "end")
               \o " after " \o (IF d > 1 /\ d - 1 <= Len(Rec) THEN ToJson([x \in DOMAIN Rec[d - 1] \ {"code", "ckind", "cupv"} |-> Rec[d - 1][x]]) ELSE "start"), FALSE)
=============================================================================
