------------------------------- MODULE NumFormat -------------------------------
(* Numbers and text (C19).

   A double is modelled exactly: sign, mantissa bits (most significant first) and a binary exponent,
   value = (-1)^neg * bits * 2^e, in the normal form of IEEE-754 binary64 (53 bits, -1074 <= e <= 971,
   or fewer bits at e = -1074 for subnormals and zero).  Its *exact* decimal expansion is computed
   with unbounded decimal arithmetic on digit tuples (doubling and "times five, shift the point" are
   digit-local, so nothing here needs more than TLC's 32-bit integers).

   From that the specification derives, without any rounding algorithm of its own:
     * Exact(x)         the decimal text that denotes x exactly;
     * the midpoint between x and its successor, a text just above and just below it, and the quarter
       points - "the double nearest to the decimal text" is decided for these by construction
       (ties go to the even mantissa);
     * Fmt(x)           the printed text, wherever the exact expansion has at most 15 significant digits
       (then it is the unique shortest text that reads back as x, which is what the formatter prints);
     * Reads(t)         which texts `to_num` accepts and the decimal (N, k) they denote: N * 10^k.
   TLC enumerates the cases; Emit prints each one with what the implementation must answer.          *)
EXTENDS Integers, Sequences, FiniteSets, TLC, Json

CONSTANTS Part,          \* which family of cases this run enumerates: "lattice", "bounds", "random", "texts", "patterns"
          MaxMant,       \* lattice: mantissas 0..MaxMant
          DownExp, MaxExp,\* lattice: exponents -DownExp..MaxExp
          NRandom,       \* random: how many bit patterns
          TextAlphabet,  \* texts: set of one-character strings
          MaxText,       \* texts: length bound
          Shard, NShards \* bounds / random: this run takes the cases whose key is Shard modulo NShards

(* ---- unbounded naturals: little-endian tuples of limbs in base 10^8, <<0>> is zero ------------
   doubling and multiplying by five are limb-local: the carry out of a limb depends on that limb only *)
B == 100000000
Dbl(ds, b) ==                               \* 2 * ds + b   (b in 0..1)
    LET n == Len(ds)
        top == IF ds[n] >= B \div 2 THEN n + 1 ELSE n
    IN TLCEval([i \in 1..top |->
         LET cur == IF i <= n THEN ds[i] ELSE 0
         IN ((2 * cur) % B) + (IF i = 1 THEN b ELSE IF ds[i - 1] >= B \div 2 THEN 1 ELSE 0)])
Times5(ds) ==                               \* 5 * ds
    LET n == Len(ds)
        top == IF 5 * ds[n] >= B THEN n + 1 ELSE n
    IN TLCEval([i \in 1..top |->
         LET cur == IF i <= n THEN ds[i] ELSE 0
         IN ((5 * cur) % B) + (IF i = 1 THEN 0 ELSE (5 * ds[i - 1]) \div B)])
RECURSIVE OfBits(_, _, _)
OfBits(bits, i, acc) == IF i > Len(bits) THEN acc ELSE OfBits(bits, i + 1, Dbl(acc, bits[i]))
RECURSIVE Up(_, _)
Up(ds, n) == IF n = 0 THEN ds ELSE Up(Dbl(ds, 0), n - 1)
RECURSIVE Down(_, _)
Down(ds, n) == IF n = 0 THEN ds ELSE Down(Times5(ds), n - 1)

(* ---- text ------------------------------------------------------------------------------------ *)
RECURSIVE Zeros(_)
Zeros(n) == IF n <= 0 THEN "" ELSE "0" \o Zeros(n - 1)
LimbText(v, padded) == LET t == ToString(v) IN IF padded THEN Zeros(8 - Len(t)) \o t ELSE t
RECURSIVE Join(_, _, _)                     \* limbs ds[hi] .. ds[lo] as text, most significant first
Join(ds, lo, hi) == IF hi < lo THEN "" ELSE IF lo = hi THEN LimbText(ds[lo], lo < Len(ds))
                    ELSE LET mid == (lo + hi) \div 2 IN Join(ds, mid + 1, hi) \o Join(ds, lo, mid)
NatText(ds) == Join(ds, 1, Len(ds))
RECURSIVE StripZeros(_)                     \* trailing zeros of a digit string
StripZeros(t) == IF Len(t) > 1 /\ SubSeq(t, Len(t), Len(t)) = "0" THEN StripZeros(SubSeq(t, 1, Len(t) - 1)) ELSE t

(* exact decimal expansion of bits * 2^e: [text, k (digits after the point), sig (significant digits)].
   The binary form is reduced first (no trailing zero bit while e < 0), so that the 5^-e * bits / 10^-e below
   ends in the digit 5 and has exactly -e fraction digits. *)
RECURSIVE Reduce(_, _)
Reduce(bits, e) == IF bits = <<>> THEN [bits |-> <<>>, e |-> 0]
                   ELSE IF e < 0 /\ bits[Len(bits)] = 0 THEN Reduce(SubSeq(bits, 1, Len(bits) - 1), e + 1) ELSE [bits |-> bits, e |-> e]
ExactOf(bits0, e0) ==
    LET r == Reduce(bits0, e0)
        m == OfBits(r.bits, 1, <<0>>)
    IN IF r.e >= 0
       THEN LET t == NatText(Up(m, r.e)) IN [text |-> t, k |-> 0, sig |-> Len(StripZeros(t))]
       ELSE LET t == NatText(Down(m, -r.e))
                k == -r.e
            IN [text |-> IF Len(t) > k THEN SubSeq(t, 1, Len(t) - k) \o "." \o SubSeq(t, Len(t) - k + 1, Len(t))
                         ELSE "0." \o Zeros(k - Len(t)) \o t,
                k |-> k, sig |-> Len(t)]

(* ---- doubles ----------------------------------------------------------------------------------- *)
(* normal form: strip leading zero bits; pad to 53 bits while e > -1074 *)
RECURSIVE StripLead(_)
StripLead(bits) == IF bits # <<>> /\ bits[1] = 0 THEN StripLead(Tail(bits)) ELSE bits
RECURSIVE Pad(_, _)
Pad(bits, e) == IF bits = <<>> THEN [bits |-> <<>>, e |-> -1074]
                ELSE IF Len(bits) < 53 /\ e > -1074 THEN Pad(Append(bits, 0), e - 1) ELSE [bits |-> bits, e |-> e]
Norm(bits, e) == Pad(StripLead(bits), e)
IsEven(x) == x.bits = <<>> \/ x.bits[Len(x.bits)] = 0
Integral(x) == x.e >= 0 \/ x.bits = <<>> \/ (-x.e < Len(x.bits) /\ \A i \in (Len(x.bits) + x.e + 1)..Len(x.bits) : x.bits[i] = 0)

(* the printed form: integral values have no fraction, negative zero keeps its sign; `known` says that the exact
   expansion is short enough to be the one text the shortest-round-trip formatter can print *)
FmtOf(d, neg) == [known |-> d.sig <= 15, text |-> (IF neg THEN "-" ELSE "") \o d.text, integral |-> d.k = 0]
Fmt(neg, x) == FmtOf(ExactOf(x.bits, x.e), neg)

(* the texts around the gap between x and its successor (x in normal form) *)
AroundOf(x, d) ==
    LET mid == ExactOf(x.bits \o <<1>>, x.e - 1)
        q1  == ExactOf(x.bits \o <<0, 1>>, x.e - 2)
        q3  == ExactOf(x.bits \o <<1, 1>>, x.e - 2)
        mt  == mid.text
    IN [exact |-> d.text,
        mid |-> mt,                                  \* a tie: goes to the even mantissa
        above |-> IF mid.k = 0 THEN mt \o ".0000001" ELSE mt \o "0000001",     \* reads as the successor
        below |-> IF mid.k = 0 THEN "" ELSE SubSeq(mt, 1, Len(mt) - 1) \o "4999999",   \* the last digit of a true midpoint is 5
        q1 |-> q1.text, q3 |-> q3.text,
        tie_to_x |-> IsEven(x)]

(* ---- reading text: the grammar of String.to_num --------------------------------------------- *)
Dig == <<"0", "1", "2", "3", "4", "5", "6", "7", "8", "9">>
IsDigitCh(c) == c \in {"0", "1", "2", "3", "4", "5", "6", "7", "8", "9"}
DigitVal(c) == CHOOSE v \in 0..9 : Dig[v + 1] = c
Lower(c) == CASE c = "I" -> "i" [] c = "N" -> "n" [] c = "F" -> "f" [] c = "A" -> "a" [] c = "T" -> "t" [] c = "Y" -> "y" [] OTHER -> c
RECURSIVE LowerAll(_)
LowerAll(t) == IF t = <<>> THEN <<>> ELSE <<Lower(t[1])>> \o LowerAll(Tail(t))
RECURSIVE DigitRun(_, _)                    \* index after the run of digits starting at i
DigitRun(t, i) == IF i <= Len(t) /\ IsDigitCh(t[i]) THEN DigitRun(t, i + 1) ELSE i
RECURSIVE NatOf(_, _, _, _)
NatOf(t, i, j, acc) == IF i >= j THEN acc ELSE NatOf(t, i + 1, j, acc * 10 + DigitVal(t[i]))
(* t: tuple of one-character strings.  -> [ok, special, neg, n, k]: value n * 10^k, or special in {"inf","nan"};
   n is the digit string read as a natural (the cases enumerated keep it below 2^31) *)
Reads(t) ==
    LET bad == [ok |-> FALSE, special |-> "", neg |-> FALSE, n |-> 0, k |-> 0]
        signed == Len(t) > 0 /\ t[1] \in {"+", "-"}
        neg == signed /\ t[1] = "-"
        s == IF signed THEN 2 ELSE 1
        rest == LowerAll(SubSeq(t, s, Len(t)))
    IN IF rest \in {<<"i", "n", "f">>, <<"i", "n", "f", "i", "n", "i", "t", "y">>}
         THEN [ok |-> TRUE, special |-> "inf", neg |-> neg, n |-> 0, k |-> 0]
       ELSE IF rest = <<"n", "a", "n">> THEN [ok |-> TRUE, special |-> "nan", neg |-> neg, n |-> 0, k |-> 0]
       ELSE LET i1 == DigitRun(t, s)                                   \* integer digits t[s..i1-1]
                hasdot == i1 <= Len(t) /\ t[i1] = "."
                f0 == IF hasdot THEN i1 + 1 ELSE i1
                f1 == DigitRun(t, f0)                                  \* fraction digits t[f0..f1-1]
                hasexp == f1 <= Len(t) /\ t[f1] \in {"e", "E"}
                es == IF hasexp /\ f1 + 1 <= Len(t) /\ t[f1 + 1] \in {"+", "-"} THEN f1 + 2 ELSE f1 + 1
                eneg == hasexp /\ f1 + 1 <= Len(t) /\ t[f1 + 1] = "-"
                e1 == IF hasexp THEN DigitRun(t, es) ELSE f1
                nd == (i1 - s) + (f1 - f0)
                expv == IF hasexp THEN NatOf(t, es, e1, 0) ELSE 0
            IN IF nd = 0 \/ e1 # Len(t) + 1 \/ (hasexp /\ e1 = es) THEN bad
               ELSE [ok |-> TRUE, special |-> "", neg |-> neg,
                     n |-> NatOf(t, f0, f1, NatOf(t, s, i1, 0)),
                     k |-> (IF eneg THEN -expv ELSE expv) - (f1 - f0)]
(* a number literal in source: digits, optionally "." and digits (Scanner::number) *)
IsLiteral(t) == LET i1 == DigitRun(t, 1) IN
                i1 > 1 /\ (i1 = Len(t) + 1 \/ (t[i1] = "." /\ DigitRun(t, i1 + 1) = Len(t) + 1 /\ i1 + 1 <= Len(t)))

(* ---- cases -------------------------------------------------------------------------------------- *)
RECURSIVE BitsOf(_)                         \* binary digits of a small natural, most significant first
BitsOf(n) == IF n = 0 THEN <<>> ELSE Append(BitsOf(n \div 2), n % 2)
Ones(n) == [i \in 1..n |-> 1]
OneThen(n) == <<1>> \o [i \in 1..n |-> 0]
RECURSIVE RandomBits(_)
RandomBits(n) == IF n = 0 THEN <<>> ELSE Append(RandomBits(n - 1), RandomElement({0, 1}))

LatticeCases == {[kind |-> "lattice", neg |-> s, bits |-> BitsOf(m), e |-> e] : s \in BOOLEAN, m \in 0..MaxMant, e \in (-DownExp)..MaxExp}
BoundNumbers ==
    {[bits |-> <<>>, e |-> 0], [bits |-> <<1>>, e |-> -1074], [bits |-> <<1, 0>>, e |-> -1074], [bits |-> <<1, 1>>, e |-> -1074],
     [bits |-> Ones(52), e |-> -1074], [bits |-> OneThen(52), e |-> -1074], [bits |-> OneThen(52) , e |-> -1073],
     [bits |-> Ones(53), e |-> -1074], [bits |-> <<1>>, e |-> -1030], [bits |-> <<1, 0, 1>>, e |-> -1060],
     [bits |-> Ones(53), e |-> 971], [bits |-> OneThen(52), e |-> 971], [bits |-> Ones(52) \o <<0>>, e |-> 971],
     [bits |-> Ones(53), e |-> 0], [bits |-> Ones(52) \o <<0>>, e |-> 0], [bits |-> OneThen(52), e |-> 1], [bits |-> OneThen(51) \o <<1>>, e |-> 1],
     [bits |-> OneThen(52), e |-> 0], [bits |-> Ones(53), e |-> -1], [bits |-> Ones(53), e |-> 10], [bits |-> OneThen(52), e |-> 11],
     [bits |-> OneThen(51) \o <<1>>, e |-> 11], [bits |-> Ones(53), e |-> 11], [bits |-> OneThen(52), e |-> 12],
     [bits |-> OneThen(52), e |-> -52], [bits |-> OneThen(51) \o <<1>>, e |-> -52], [bits |-> Ones(53), e |-> -53],
     [bits |-> OneThen(52), e |-> -56], [bits |-> OneThen(51) \o <<1>>, e |-> -55]}
    \cup {[bits |-> <<1>>, e |-> e] : e \in {-1022, -1023, -500, -100, -64, -10, 31, 32, 52, 53, 54, 62, 63, 64, 100, 500, 1000, 1023}}
BoundCases == {[kind |-> "bounds", neg |-> s, bits |-> b.bits, e |-> b.e] : s \in BOOLEAN, b \in BoundNumbers}
RandomCases == {[kind |-> "random", neg |-> RandomElement(BOOLEAN), bits |-> <<1>> \o RandomBits(52),
                 e |-> RandomElement((-1074)..971), salt |-> i] : i \in 1..NRandom}
                \cup {[kind |-> "random", neg |-> RandomElement(BOOLEAN), bits |-> RandomBits(RandomElement(1..52)),
                 e |-> -1074, salt |-> i] : i \in 1..(NRandom \div 4)}
(* bit patterns only (no expansions): numbers whose printed text has 16-17 significant digits, for the two-phase round trip
   "what is printed, written back as a source literal or given to to_num, is the number" *)
PatternCases == {[kind |-> "pattern", neg |-> RandomElement(BOOLEAN), bits |-> <<1>> \o RandomBits(52),
                  e |-> RandomElement((-110)..20), salt |-> i] : i \in 1..NRandom}
                \cup {[kind |-> "pattern", neg |-> RandomElement(BOOLEAN), bits |-> <<1>> \o RandomBits(52),
                  e |-> RandomElement((-1074)..971), salt |-> i] : i \in 1..(NRandom \div 4)}
RECURSIVE TextsUpTo(_)
TextsUpTo(n) == IF n = 0 THEN {<<>>} ELSE LET p == TextsUpTo(n - 1) IN p \cup {Append(t, c) : t \in p, c \in TextAlphabet}
Words == {<<"i", "n", "f">>, <<"I", "N", "F">>, <<"I", "n", "f">>, <<"n", "a", "n">>, <<"N", "a", "N">>, <<"N", "A", "N">>,
          <<"i", "n", "f", "i", "n", "i", "t", "y">>, <<"I", "n", "f", "i", "n", "i", "t", "y">>, <<"i", "n", "f", "i", "n", "i", "t">>,
          <<"i", "n", "f", "i">>, <<"n", "a">>, <<"n", "a", "n", "n">>, <<"i", "n", "f", " ">>, <<"t", "r", "u", "e">>, <<"n", "i", "l">>}
TextCases == {[kind |-> "texts", text |-> t] : t \in TextsUpTo(MaxText)}
             \cup {[kind |-> "texts", text |-> p \o w] : w \in Words, p \in {<<>>, <<"-">>, <<"+">>, <<"-", "-">>, <<" ">>}}

Mine(c) == (Len(c.bits) + c.e + 2000 + (IF c.neg THEN 1 ELSE 0)) % NShards = Shard
Cases == CASE Part = "lattice" -> {c \in LatticeCases : Mine(c)} [] Part = "bounds" -> {c \in BoundCases : Mine(c)}
           [] Part = "random" -> RandomCases [] Part = "texts" -> TextCases [] Part = "patterns" -> PatternCases

VARIABLE case
Init == case \in Cases
Next == UNCHANGED case
Spec == Init /\ [][Next]_case

(* ---- what the implementation must answer -------------------------------------------------------- *)
RECURSIVE Flat(_)
Flat(t) == IF t = <<>> THEN "" ELSE t[1] \o Flat(Tail(t))
Expect(c) ==
    IF c.kind = "texts"
    THEN [text |-> Flat(c.text), reads |-> Reads(c.text), literal |-> IsLiteral(c.text)]
    ELSE IF c.kind = "pattern"
    THEN LET x == Norm(c.bits, c.e) IN [neg |-> c.neg, bits |-> x.bits, e |-> x.e]
    ELSE LET x == Norm(c.bits, c.e)
             d == ExactOf(x.bits, x.e)
         IN [neg |-> c.neg, bits |-> x.bits, e |-> x.e, fmt |-> FmtOf(d, c.neg), around |-> AroundOf(x, d), integral |-> Integral(x)]

(* model-level theorems, checked by TLC on every enumerated case *)
(* 1. what is printed reads back as the same number: the printed text is in the grammar and denotes exactly x *)
RECURSIVE Chars(_, _)
Chars(s, i) == IF i > Len(s) THEN <<>> ELSE <<SubSeq(s, i, i)>> \o Chars(s, i + 1)
RECURSIVE Pow5(_)
Pow5(n) == IF n = 0 THEN 1 ELSE 5 * Pow5(n - 1)
RECURSIVE Pow10(_)
Pow10(n) == IF n = 0 THEN 1 ELSE 10 * Pow10(n - 1)
RECURSIVE Pow2(_)
Pow2(n) == IF n = 0 THEN 1 ELSE 2 * Pow2(n - 1)
RECURSIVE NatBits(_, _, _)
NatBits(bits, i, acc) == IF i > Len(bits) THEN acc ELSE NatBits(bits, i + 1, 2 * acc + bits[i])
PrintedReadsBack ==
    (case.kind = "lattice") =>
        LET x == Norm(case.bits, case.e)
            f == Fmt(case.neg, x)
            r == Reads(Chars(f.text, 1))
            m == NatBits(case.bits, 1, 0)
        IN /\ f.known /\ r.ok /\ r.special = "" /\ r.neg = case.neg /\ r.k <= 0
           \* r.n / 10^-k = m * 2^e = m * 5^-e / 10^-e   (everything stays below 2^31 on the lattice)
           /\ IF case.e >= 0 THEN r.k = 0 /\ r.n = m * Pow2(case.e)
              ELSE -r.k <= -case.e /\ r.n * Pow10(r.k - case.e) = m * Pow5(-case.e)
           /\ (f.integral <=> r.k = 0)
(* 2. integral values print without a fraction *)
IntegralHasNoPoint ==
    (case.kind = "lattice") => LET x == Norm(case.bits, case.e) IN Integral(x) <=> Fmt(case.neg, x).integral
(* 3. a literal is never read as a longer or shorter token than its digits *)
LiteralsAreRead == (case.kind = "texts" /\ IsLiteral(case.text)) => (Reads(case.text).ok /\ ~Reads(case.text).neg /\ Reads(case.text).special = "")

Emit == PrintT(<<"CASE", ToJson([c |-> case, r |-> Expect(case)])>>)
=============================================================================
