-------------------------------- MODULE Scanner --------------------------------
(* The scanner of yarel (scanner.rs) as an executable specification: scan_token over a source
   given as a sequence of characters (one-character strings; a multi-byte character is one
   element).  Tokens are [k: kind, s: text, l: line] exactly as Token {kind, source, line};
   for string-like tokens the text is the processed contents, for errors the message.

   TLC enumerates every source of up to MaxLen characters over the configured alphabet as an
   initial state and Emit prints the predicted token stream; the harness tokenises the same text
   with the real scanner (verif::tokenize) and the streams must be equal.  The property C03 asks
   for - scanning always terminates with Eof, never panics - is then checked on the real code
   for every one of those inputs, and `ScanTerminates` states it for the model.                 *)
EXTENDS Integers, Sequences, FiniteSets, TLC, Json

CONSTANTS Alphabet,    \* set of one-character strings (class representatives)
          MaxLen

Letters == {"a", "b", "e", "f", "i", "n", "r", "s", "t", "u", "x", "U", "S", "_", "l", "o"}
Digits == {"0", "1", "2", "9"}
HexLetters == {"a", "b", "e", "f"}
IsAlpha(c) == c \in Letters
IsDigit(c) == c \in Digits
IsHex(c) == c \in Digits \/ c \in HexLetters

Keywords == [ as |-> "As", break |-> "Break", catch |-> "Catch", class |-> "Class", continue |-> "Continue", else |-> "Else",
              false |-> "False", finally |-> "Finally", for |-> "For", fn |-> "Fn", if |-> "If", in |-> "In", import |-> "Import",
              nil |-> "Nil", return |-> "Return", Self |-> "CapSelf", self |-> "Self_", super |-> "Super", throw |-> "Throw",
              true |-> "True", try |-> "Try", var |-> "Var", while |-> "While" ]

Tok(k, s, l) == [k |-> k, s |-> s, l |-> l]

RECURSIVE Join(_, _, _)
Join(src, i, j) == IF i > j THEN "" ELSE src[i] \o Join(src, i + 1, j)      \* characters i..j (1-based) as text

(* scanner state: pos (next character, 1-based), line, braces (interpolation brace stack) *)
At(src, p) == IF p <= Len(src) THEN src[p] ELSE ""

RECURSIVE SkipWs(_, _, _)
SkipWs(src, p, line) ==
    LET c == At(src, p) IN
    IF c \in {" ", "\t", "\r"} THEN SkipWs(src, p + 1, line)
    ELSE IF c = "\n" THEN SkipWs(src, p + 1, line + 1)
    ELSE IF c = "/" /\ At(src, p + 1) = "/" THEN
         LET RECURSIVE ToEol(_)
             ToEol(q) == IF q > Len(src) \/ src[q] = "\n" THEN q ELSE ToEol(q + 1)
         IN SkipWs(src, ToEol(p), line)
    ELSE [p |-> p, line |-> line]

AlnumC(c) == IsAlpha(c) \/ IsDigit(c)
RECURSIVE WhileDigit(_, _), WhileAlnum(_, _)
WhileDigit(src, p) == IF p <= Len(src) /\ IsDigit(src[p]) THEN WhileDigit(src, p + 1) ELSE p
WhileAlnum(src, p) == IF p <= Len(src) /\ AlnumC(src[p]) THEN WhileAlnum(src, p + 1) ELSE p

HexVal(c) == CASE c = "0" -> 0 [] c = "1" -> 1 [] c = "2" -> 2 [] c = "9" -> 9 [] c = "a" -> 10 [] c = "b" -> 11 [] c = "e" -> 14 [] c = "f" -> 15
(* read_escaped_bytes(n): per byte two characters (stop, without consuming it, at a quote; stop at the end
   of input), fail at the first byte that is not hexadecimal; then the bytes must be UTF-8 *)
RECURSIVE ReadBytes(_, _, _, _)
ReadBytes(src, p, n, acc) ==        \* -> [ok, p, bytes]
    IF n = 0 THEN [ok |-> TRUE, p |-> p, bytes |-> acc]
    ELSE IF p > Len(src) THEN [ok |-> FALSE, p |-> p, bytes |-> acc]
    ELSE IF src[p] = "\"" THEN [ok |-> FALSE, p |-> p, bytes |-> acc]
    ELSE IF p + 1 > Len(src) THEN [ok |-> FALSE, p |-> p + 1, bytes |-> acc]
    ELSE IF src[p + 1] = "\"" THEN [ok |-> FALSE, p |-> p + 1, bytes |-> acc]
    ELSE IF ~(IsHex(src[p]) /\ IsHex(src[p + 1])) THEN [ok |-> FALSE, p |-> p + 2, bytes |-> acc]
    ELSE ReadBytes(src, p + 2, n - 1, Append(acc, 16 * HexVal(src[p]) + HexVal(src[p + 1])))
Cont(b) == b >= 128 /\ b <= 191
NeedB(b) == IF b <= 127 THEN 1 ELSE IF b >= 194 /\ b <= 223 THEN 2 ELSE IF b >= 224 /\ b <= 239 THEN 3 ELSE IF b >= 240 /\ b <= 244 THEN 4 ELSE 0
Second(b1, b2) == CASE b1 = 224 -> b2 >= 160 /\ b2 <= 191 [] b1 = 237 -> b2 >= 128 /\ b2 <= 159
                    [] b1 = 240 -> b2 >= 144 /\ b2 <= 191 [] b1 = 244 -> b2 >= 128 /\ b2 <= 143 [] OTHER -> Cont(b2)
RECURSIVE Utf8Ok(_, _)
Utf8Ok(bs, i) == IF i >= Len(bs) THEN TRUE
                 ELSE LET n == NeedB(bs[i + 1]) IN
                      IF n = 0 \/ i + n > Len(bs) THEN FALSE
                      ELSE IF n >= 2 /\ ~Second(bs[i + 1], bs[i + 2]) THEN FALSE
                      ELSE IF n >= 3 /\ ~Cont(bs[i + 3]) THEN FALSE
                      ELSE IF n = 4 /\ ~Cont(bs[i + 4]) THEN FALSE
                      ELSE Utf8Ok(bs, i + n)

(* string(): from position p (just after the opening quote or the closing brace of an interpolation) *)
RECURSIVE Str(_, _, _, _, _, _)
Str(src, p, line, buf, err, depth) ==
    \* -> [tok, p, line, push]   push: an interpolation opened
    IF p > Len(src) THEN [tok |-> Tok("Error", "Unterminated string.", line), p |-> p, line |-> line, push |-> FALSE]
    ELSE LET c == src[p] IN
    IF c = "\"" THEN
         [tok |-> IF err # "" THEN Tok("Error", err, line) ELSE Tok("Str", buf, line), p |-> p + 1, line |-> line, push |-> FALSE]
    ELSE IF c = "$" THEN
         (IF At(src, p + 1) # "{" THEN
               \* the character after '$' is consumed as well (advance), unless the input ended
               [tok |-> Tok("Error", "Expected '{' in string interpolation.", line), p |-> (IF p + 1 <= Len(src) THEN p + 2 ELSE p + 1), line |-> line, push |-> FALSE]
          ELSE IF depth >= 8 THEN [tok |-> Tok("Error", "Max interpolation depth exceeded.", line), p |-> p + 2, line |-> line, push |-> FALSE]
          ELSE [tok |-> Tok("Interpolation", buf, line), p |-> p + 2, line |-> line, push |-> TRUE])
    ELSE IF c = "\\" THEN
         LET e == At(src, p + 1) IN
         IF e \in {"$", "\"", "\\"} THEN Str(src, p + 2, line, buf \o e, err, depth)
         ELSE IF e = "n" THEN Str(src, p + 2, line, buf \o "\n", err, depth)
         ELSE IF e = "t" THEN Str(src, p + 2, line, buf \o "\t", err, depth)
         ELSE IF e = "r" THEN Str(src, p + 2, line, buf \o "\r", err, depth)
         ELSE IF e \in {"a", "b", "f", "v", "0"} THEN Str(src, p + 2, line, buf \o "?", err, depth)     \* control characters: text not compared
         ELSE IF e \in {"x", "u", "U"} THEN
              \* hexadecimal escapes: the decoded text is not modelled (marked), the error cases are
              LET nb == IF e = "x" THEN 1 ELSE IF e = "u" THEN 2 ELSE 4
                  t == ReadBytes(src, p + 2, nb, <<>>)
                  good == t.ok /\ (nb = 1 \/ Utf8Ok(t.bytes, 0))       \* a single byte > 127 is re-encoded as two bytes: always valid
                  msg == IF e = "x" THEN "Invalid hexadecimal sequence." ELSE "Invalid Unicode sequence."
              IN IF good THEN Str(src, t.p, line, buf \o "#", err, depth)
                 ELSE Str(src, t.p, line, buf, msg, depth)
         ELSE [tok |-> Tok("Error", "Invalid escape sequence.", line), p |-> (IF p + 1 <= Len(src) THEN p + 2 ELSE p + 1), line |-> line, push |-> FALSE]
    ELSE IF c = "\n" THEN Str(src, p + 1, line + 1, buf \o c, err, depth)
    ELSE Str(src, p + 1, line, buf \o c, err, depth)

Two(src, p, second, k2, k1) == IF At(src, p + 1) = second THEN [k |-> k2, n |-> 2] ELSE [k |-> k1, n |-> 1]

(* scan_token: -> [tok, p, line, braces] *)
ScanToken(src, p0, line0, braces) ==
    LET w == SkipWs(src, p0, line0)
        p == w.p
        line == w.line
        c == At(src, p)
        Simple(k, n) == [tok |-> Tok(k, Join(src, p, p + n - 1), line), p |-> p + n, line |-> line, braces |-> braces]
    IN
    IF p > Len(src) THEN [tok |-> Tok("Eof", "", line), p |-> p, line |-> line, braces |-> braces]
    ELSE IF IsAlpha(c) THEN
         LET q == WhileAlnum(src, p + 1)
             text == Join(src, p, q - 1)
         IN [tok |-> Tok(IF text \in DOMAIN Keywords THEN Keywords[text] ELSE "Identifier", text, line), p |-> q, line |-> line, braces |-> braces]
    ELSE IF IsDigit(c) THEN
         LET q == WhileDigit(src, p + 1)
             \* a '.' belongs to the number only when a digit follows it
             q2 == IF At(src, q) = "." /\ IsDigit(At(src, q + 1)) THEN WhileDigit(src, q + 1) ELSE q
         IN [tok |-> Tok("Number", Join(src, p, q2 - 1), line), p |-> q2, line |-> line, braces |-> braces]
    ELSE IF c = "{" THEN
         [Simple("LeftBrace", 1) EXCEPT !.braces = IF braces = <<>> THEN braces ELSE [braces EXCEPT ![Len(braces)] = @ + 1]]
    ELSE IF c = "}" THEN
         (IF braces = <<>> THEN Simple("RightBrace", 1)
          ELSE IF braces[Len(braces)] - 1 = 0 THEN
               \* the interpolated expression ends: continue the string
               LET r == Str(src, p + 1, line, "", "", Len(braces) - 1) IN
               [tok |-> r.tok, p |-> r.p, line |-> r.line,
                braces |-> IF r.push THEN Append(SubSeq(braces, 1, Len(braces) - 1), 1) ELSE SubSeq(braces, 1, Len(braces) - 1)]
          ELSE [Simple("RightBrace", 1) EXCEPT !.braces = [braces EXCEPT ![Len(braces)] = @ - 1]])
    ELSE IF c = "\"" THEN
         LET r == Str(src, p + 1, line, "", "", Len(braces)) IN
         [tok |-> r.tok, p |-> r.p, line |-> r.line, braces |-> IF r.push THEN Append(braces, 1) ELSE braces]
    ELSE IF c \in {"(", ")", "[", "]", ":", ";", ",", "#", "~"} THEN
         Simple(CASE c = "(" -> "LeftParen" [] c = ")" -> "RightParen" [] c = "[" -> "LeftBracket" [] c = "]" -> "RightBracket"
                  [] c = ":" -> "Colon" [] c = ";" -> "SemiColon" [] c = "," -> "Comma" [] c = "#" -> "Hash" [] c = "~" -> "Tilde", 1)
    ELSE IF c = "." THEN LET t == Two(src, p, ".", "DotDot", "Dot") IN Simple(t.k, t.n)
    ELSE IF c \in {"-", "+", "/", "*", "!", "=", "^", "%"} THEN
         LET base == CASE c = "-" -> "Minus" [] c = "+" -> "Plus" [] c = "/" -> "Slash" [] c = "*" -> "Star" [] c = "!" -> "Bang"
                       [] c = "=" -> "Equal" [] c = "^" -> "Caret" [] c = "%" -> "Percent"
             t == Two(src, p, "=", base \o "Equal", base)
         IN Simple(t.k, t.n)
    ELSE IF c \in {"<", ">"} THEN
         LET dbl == At(src, p + 1) = c
             eq == At(src, p + (IF dbl THEN 2 ELSE 1)) = "="
             nm == IF c = "<" THEN "Less" ELSE "Greater"
         IN Simple((IF dbl THEN nm \o nm ELSE nm) \o (IF eq THEN "Equal" ELSE ""), 1 + (IF dbl THEN 1 ELSE 0) + (IF eq THEN 1 ELSE 0))
    ELSE IF c = "|" THEN (IF At(src, p + 1) = "|" THEN Simple("BarBar", 2) ELSE IF At(src, p + 1) = "=" THEN Simple("BarEqual", 2) ELSE Simple("Bar", 1))
    ELSE IF c = "&" THEN (IF At(src, p + 1) = "&" THEN Simple("AmpAmp", 2) ELSE IF At(src, p + 1) = "=" THEN Simple("AmpEqual", 2) ELSE Simple("Amp", 1))
    ELSE [tok |-> Tok("Error", "Unexpected character: '" \o c \o "'.", line), p |-> p + 1, line |-> line, braces |-> braces]

RECURSIVE ScanAll(_, _, _, _, _)
ScanAll(src, p, line, braces, fuel) ==
    IF fuel = 0 THEN <<Tok("NoProgress", "", line)>>
    ELSE LET r == ScanToken(src, p, line, braces) IN
         IF r.tok.k = "Eof" THEN <<r.tok>> ELSE <<r.tok>> \o ScanAll(src, r.p, r.line, r.braces, fuel - 1)

Tokens(src) == ScanAll(src, 1, 1, <<>>, Len(src) + 2)

RECURSIVE SeqsUpTo(_)
SeqsUpTo(n) == IF n = 0 THEN {<<>>} ELSE LET prev == SeqsUpTo(n - 1) IN prev \cup {Append(s, c) : s \in {q \in prev : Len(q) = n - 1}, c \in Alphabet}

VARIABLE src
Init == src \in SeqsUpTo(MaxLen)
Next == UNCHANGED src
Spec == Init /\ [][Next]_src

ScanTerminates == LET ts == Tokens(src) IN ts[Len(ts)].k = "Eof" /\ Len(ts) <= Len(src) + 1
Emit == PrintT(<<"SCAN", ToJson([src |-> src, toks |-> Tokens(src)])>>)
=============================================================================
