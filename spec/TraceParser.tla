------------------------------ MODULE TraceParser ------------------------------
(* Error recovery of the single-pass parser (compiler.rs: error_at / synchronise / parse), as a
   trace specification.  Events recorded from the real parser, per compilation:
     ErrorAt(line, recorded)  - error_at was called; recorded = the message was kept
     Synchronise              - declaration() left panic mode
     ParseEnd(errors, panic)  - parse() is about to decide its result; errors = messages kept
     Result(ok)               - what compile() returned (appended by the harness)
   The specification: only the first error after a synchronisation point is recorded, and
   compile() returns a function iff no error was recorded.                                  *)
EXTENDS Naturals, Sequences, TLC, Json, IOUtils

Rec == TLCEval(ndJsonDeserialize(IOEnv.TRACE))
VARIABLES l, panic, nerr, ended
vars == <<l, panic, nerr, ended>>
Init == l = 1 /\ panic = FALSE /\ nerr = 0 /\ ended = FALSE
Ev(e) == l <= Len(Rec) /\ Rec[l].e = e /\ l' = l + 1
Reset == Ev("Reset") /\ panic' = FALSE /\ nerr' = 0 /\ ended' = FALSE
ErrorAt == Ev("ErrorAt") /\ ~ended
           /\ Rec[l].recorded = (IF panic THEN 0 ELSE 1)
           /\ Rec[l].line >= 0
           /\ panic' = TRUE /\ nerr' = nerr + (IF panic THEN 0 ELSE 1) /\ UNCHANGED ended
Synchronise == Ev("Synchronise") /\ ~ended /\ panic /\ panic' = FALSE /\ UNCHANGED <<nerr, ended>>
ParseEnd == Ev("ParseEnd") /\ ~ended /\ Rec[l].errors = nerr /\ ended' = TRUE /\ UNCHANGED <<panic, nerr>>
Result == Ev("Result") /\ ended /\ Rec[l].ok = (IF nerr = 0 THEN 1 ELSE 0) /\ Rec[l].messages = nerr /\ UNCHANGED <<panic, nerr, ended>>
Next == Reset \/ ErrorAt \/ Synchronise \/ ParseEnd \/ Result
Spec == Init /\ [][Next]_vars
Accepted == LET d == TLCGet("stats").diameter IN
            IF d - 1 = Len(Rec) THEN TRUE ELSE Print(<<"REJECT", d, IF d <= Len(Rec) THEN Rec[d] ELSE "end">>, FALSE)
=============================================================================
