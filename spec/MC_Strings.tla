----------------------------- MODULE MC_Strings -----------------------------
EXTENDS Strings
(* a, b, e-acute (2 bytes), euro sign (3 bytes), grinning face (4 bytes), devanagari na (3 bytes, lead byte E0) *)
Alpha6 == {<<97>>, <<98>>, <<195, 169>>, <<226, 130, 172>>, <<240, 159, 152, 128>>, <<224, 164, 168>>}
OpsA == {"index", "slice", "seq", "unary", "cbi", "from"}
OpsB == {"binary", "replace"}
OpsC == {"find"}
OpsU == {"unary"}          \* length, classification, bytes / code points and ITERATION of every string (C18 uses the iteration cases)
=============================================================================
