------------------------------- MODULE Bytecode -------------------------------
(* Well-formedness of what compiler.rs actually emitted (C04, static half of C08).

   Input: compiled functions exported by the harness (code bytes, kinds of the constants,
   arity, upvalue count), one JSON record per function.  The module is a worklist dataflow
   written as a behaviour: `amap[pc]` is the set of abstract states in which the instruction
   at pc can be reached, `work` the pcs still to be (re)visited; one step visits one pc,
   decodes the instruction exactly as vm.rs reads it, and adds the abstract successors:
     - normal edges (fall-through, Jump, JumpIfFalse, JumpIfStopIter, Loop),
     - exceptional edges: from every instruction that can raise while a handler record is on
       the abstract handler stack, to that record's catch address with the operand stack cut to
       the record's height (+ 1 for a catch block: the exception object is its variable),
     - JumpFinally: to the record's finally address with the pending return target,
     - EndFinally: rethrow / resume at the pending return target / fall through.
   An abstract state is [h: operand-stack height, hs: handler records <<catch, fin, h, start>>,
   ret: pending return target or -1, exc: exception in flight].

   The property: every reachable instruction is an instruction start inside the code, names only
   constants / locals / captured variables that exist, never underflows the operand stack, and is
   reached with ONE operand-stack height and ONE handler stack (per in-flight flag).  Violations
   are collected as records in `problems` (so that one run lists them all); WellFormed says
   there are none.                                                                             *)
EXTENDS Integers, Sequences, FiniteSets, TLC, Json, IOUtils, Opcodes

Fns == TLCEval(ndJsonDeserialize(IOEnv.BYTECODE))

VARIABLES fi,          \* index of the function being analysed (Len(Fns)+1 = done)
          amap,        \* pc (0-based) -> set of abstract states        (function over 0..N-1)
          work,        \* set of pcs to visit
          problems,    \* set of problem records found in the current function
          nstates      \* abstract states recorded so far in this function (evidence)
vars == <<fi, amap, work, problems, nstates>>

F == Fns[fi]
Code == F.code
N == Len(Code)
Byte(p) == Code[p + 1]
U16(p) == Byte(p) + 256 * Byte(p + 1)

NoRet == -1
Rec(c, f, h, s) == <<c, f, h, s>>          \* handler record: catch pc, finally pc, height, first protected pc

Problem(sig, pc, detail) == [fn |-> F.id, sig |-> sig, pc |-> pc, detail |-> detail]

(* ---- one abstract step: successors and problems of state st at pc ------------------------- *)
Decode(pc) == DecodeIn(F, pc)

Top(s) == s[Len(s)]
Pop(s) == SubSeq(s, 1, Len(s) - 1)
St(h, hs, ret, exc, cap) == [h |-> h, hs |-> hs, ret |-> ret, exc |-> exc, cap |-> {x \in cap : x < h}]
(* cap: the local slots that a closure created on this path has captured and that are still open.  Lowering the operand
   stack below such a slot is only legal by CloseUpvalue (or by the VM itself: return, unwinding, JumpFinally close them) -
   "every scope exit emits one Pop/CloseUpvalue per local" (C04), on every path including break / continue *)
CapturedBy(pc, d) ==       \* the local slots named by the operand pairs of a Closure instruction
    LET k == IF d.a < Len(F.ckind) /\ F.ckind[d.a + 1] = "fn" THEN F.cupv[d.a + 1] ELSE 0 IN
    {Byte(pc + 3 + 2 * i + 1) : i \in {j \in 0..(k - 1) : Byte(pc + 3 + 2 * j) = 1}}

(* unwind_stack: a catch block starts with the exception object on the operand stack (it is the
   catch variable); a finally-only handler runs at the try statement's own height and the
   exception waits in the fiber until EndFinally *)
Landing(r) == IF r[1] = r[2] THEN r[3] ELSE r[3] + 1

(* handler records whose protected region [start, catch) a jump from pc to target leaves *)
RECURSIVE LeftBehind(_, _)
LeftBehind(hs, target) ==
    IF hs = <<>> THEN 0
    ELSE LET r == Top(hs) IN
         IF target >= r[4] /\ target < r[1] THEN 0 ELSE 1 + LeftBehind(Pop(hs), target)

OperandProblems(pc, d, st) ==
    LET n == d.n IN
      (IF n = "Constant" /\ d.a >= Len(F.ckind) THEN {Problem("constant-index-out-of-range", pc, d.a)} ELSE {})
 \cup (IF n \in NameOps /\ (d.a >= Len(F.ckind) \/ F.ckind[d.a + 1] # "str") THEN {Problem("name-operand-not-a-string-constant", pc, d.a)} ELSE {})
 \cup (IF n = "Closure" /\ (d.a >= Len(F.ckind) \/ F.ckind[d.a + 1] # "fn") THEN {Problem("closure-operand-not-a-function", pc, d.a)} ELSE {})
 \cup (IF n \in {"GetLocal","SetLocal"} /\ d.a >= st.h THEN {Problem("local-slot-above-stack-height", pc, <<d.a, st.h>>)} ELSE {})
 \cup (IF n \in {"GetUpvalue","SetUpvalue"} /\ d.a >= F.upv THEN {Problem("captured-variable-index-out-of-range", pc, <<d.a, F.upv>>)} ELSE {})
 \cup (IF st.h < Needs(n, d.a, d.b)
          THEN {Problem("operand-stack-underflow", pc, <<n, st.h>>)} ELSE {})
 \cup (IF n = "BuildString" /\ d.a = 0 THEN {Problem("buildstring-without-parts", pc, 0)} ELSE {})

(* successors: set of <<pc, state>>; and extra problems *)
Step(pc, st) ==
    LET d == Decode(pc) IN
    IF ~d.ok THEN [succ |-> {}, probs |-> {Problem("undecodable-instruction", pc, d.n)}]
    ELSE
    LET n == d.n
        h == st.h
        hs == st.hs
        nxt == d.nxt
        excEdge == IF n \in Raises /\ hs # <<>>
                   THEN LET r == Top(hs) IN {<<r[1], St(Landing(r), Pop(hs), st.ret, r[1] = r[2], {x \in st.cap : x < r[3]})>>}
                   ELSE {}
        JumpTo(t) ==       \* a plain jump; handlers whose region is left unpopped are a problem, then dropped
            LET k == LeftBehind(hs, t) IN
            [succ |-> {<<t, St(h, SubSeq(hs, 1, Len(hs) - k), st.ret, st.exc, st.cap)>>},
             probs |-> IF k > 0 THEN {Problem("jump-leaves-try-body-with-its-handler-installed", pc, <<n, k>>)} ELSE {}]
        base == OperandProblems(pc, d, st)
        r ==
          CASE n = "Return" ->
                 [succ |-> {}, probs |-> (IF hs # <<>> THEN {Problem("return-with-handler-installed", pc, Len(hs))} ELSE {})
                                     \cup (IF st.ret # NoRet THEN {Problem("return-while-a-finally-return-is-pending", pc, st.ret)} ELSE {})]
            [] n = "Throw" -> [succ |-> {}, probs |-> {}]
            [] n = "Jump" -> JumpTo(nxt + d.a)
            [] n = "Loop" -> JumpTo(nxt - d.a)
            [] n \in {"JumpIfFalse", "JumpIfStopIter"} ->
                 LET j == JumpTo(nxt + d.a) IN [succ |-> j.succ \cup {<<nxt, st>>}, probs |-> j.probs]
            [] n = "PushExcHandler" ->
                 [succ |-> {<<nxt, St(h, Append(hs, Rec(nxt + d.a, nxt + d.a + d.b, h, nxt)), st.ret, st.exc, st.cap)>>}, probs |-> {}]
            [] n = "PopExcHandler" ->
                 IF hs = <<>> THEN [succ |-> {<<nxt, st>>}, probs |-> {Problem("pop-handler-on-empty-handler-stack", pc, 0)}]
                 ELSE [succ |-> {<<nxt, St(h, Pop(hs), st.ret, st.exc, st.cap)>>}, probs |-> {}]
            [] n = "JumpFinally" ->
                 IF hs = <<>> THEN [succ |-> {}, probs |-> {Problem("jumpfinally-on-empty-handler-stack", pc, 0)}]
                 ELSE LET q == Top(hs) IN [succ |-> {<<q[2], St(q[3], Pop(hs), nxt, st.exc, {x \in st.cap : x < q[3]})>>}, probs |-> {}]
            [] n = "EndFinally" ->
                 [succ |-> (IF st.exc /\ hs # <<>> THEN LET q == Top(hs) IN {<<q[1], St(Landing(q), Pop(hs), st.ret, q[1] = q[2], {x \in st.cap : x < q[3]})>>} ELSE {})
                       \cup (IF ~st.exc /\ st.ret # NoRet THEN {<<st.ret, St(h + 1, hs, NoRet, FALSE, st.cap)>>} ELSE {})
                       \cup (IF ~st.exc /\ st.ret = NoRet THEN {<<nxt, St(h, hs, NoRet, FALSE, st.cap)>>} ELSE {}),
                  probs |-> {}]
            [] OTHER ->
                 LET h2 == h + Delta(n, d.a, d.b)
                     cap2 == IF n = "Closure" THEN st.cap \cup CapturedBy(pc, d) ELSE st.cap
                     lost == IF n = "CloseUpvalue" THEN {} ELSE {x \in cap2 : x >= h2}
                 IN
                 IF h2 < 1 THEN [succ |-> {}, probs |-> {Problem("operand-stack-underflow", pc, <<n, h>>)}]
                 ELSE [succ |-> {<<nxt, St(h2, hs, st.ret, st.exc, cap2)>>},
                       probs |-> (IF lost # {} THEN {Problem("captured-variable-discarded-without-being-closed", pc, <<n, lost>>)} ELSE {})
                            \cup (IF n = "Closure" /\ \E x \in CapturedBy(pc, d) : x > h THEN {Problem("closure-captures-a-slot-above-the-stack-height", pc, CapturedBy(pc, d))} ELSE {})]
    IN [succ |-> r.succ \cup (IF n = "EndFinally" THEN {} ELSE excEdge), probs |-> base \cup r.probs]

-----------------------------------------------------------------------------
EmptyMap(n) == [p \in 0..(n - 1) |-> {}]

StartFn(i) ==
    IF i > Len(Fns) THEN /\ amap' = <<>> /\ work' = {} /\ problems' = {} /\ nstates' = 0
    ELSE /\ amap' = [EmptyMap(Len(Fns[i].code)) EXCEPT ![0] = {St(Fns[i].arity, <<>>, NoRet, FALSE, {})}]
         /\ work' = {0}
         /\ problems' = {}
         /\ nstates' = 1

Init == /\ fi = 1
        /\ amap = IF Len(Fns) = 0 THEN <<>> ELSE [EmptyMap(Len(Fns[1].code)) EXCEPT ![0] = {St(Fns[1].arity, <<>>, NoRet, FALSE, {})}]
        /\ work = IF Len(Fns) = 0 THEN {} ELSE {0}
        /\ problems = {}
        /\ nstates = IF Len(Fns) = 0 THEN 0 ELSE 1

Min(S) == CHOOSE x \in S : \A y \in S : x <= y

(* visit the smallest pending pc: apply Step to every abstract state recorded there *)
Visit ==
    /\ fi <= Len(Fns) /\ work # {}
    /\ LET pc == Min(work)
           results == {Step(pc, st) : st \in amap[pc]}
           succ == UNION {r.succ : r \in results}
           probs == UNION {r.probs : r \in results}
           inside == {s \in succ : s[1] >= 0 /\ s[1] < N}
           outside == succ \ inside
           fresh == {s \in inside : s[2] \notin amap[s[1]]}
           targets == {s[1] : s \in fresh}
       IN /\ amap' = [p \in DOMAIN amap |-> IF p \in targets THEN amap[p] \cup {s[2] : s \in {x \in fresh : x[1] = p}} ELSE amap[p]]
          /\ work' = (work \ {pc}) \cup targets
          /\ problems' = problems \cup probs \cup {Problem("control-leaves-the-function-code", pc, s[1]) : s \in outside}
          /\ nstates' = nstates + Cardinality(fresh)
    /\ UNCHANGED fi

(* instruction boundaries: every visited pc must be reachable as an instruction start only;
   an operand byte that is also a jump target shows up as a pc decoded two ways - checked when
   the function is finished, together with the join condition *)
RECURSIVE Starts(_, _)
Starts(pc, acc) == IF pc >= N THEN acc ELSE LET d == Decode(pc) IN Starts(IF d.nxt > pc THEN d.nxt ELSE pc + 1, acc \cup {pc})
LinearStarts == Starts(0, {})

JoinProblems ==
    {Problem("two-operand-stack-heights-at-one-instruction", p, {s.h : s \in amap[p]}) :
        p \in {q \in DOMAIN amap : \E s, t \in amap[q] : s.exc = t.exc /\ s.h # t.h}}
 \cup {Problem("two-handler-stacks-at-one-instruction", p, {Len(s.hs) : s \in amap[p]}) :
        p \in {q \in DOMAIN amap : \E s, t \in amap[q] : s.exc = t.exc /\ s.h = t.h /\ s.hs # t.hs}}
 \cup {Problem("finally-block-entered-with-the-pending-exception-on-the-operand-stack", p, {s.h : s \in amap[p]}) :
        p \in {q \in DOMAIN amap : \E s, t \in amap[q] : s.exc /\ ~t.exc /\ s.h # t.h}}
 \cup {Problem("jump-into-the-middle-of-an-instruction", p, 0) :
        p \in {q \in DOMAIN amap : amap[q] # {} /\ q \notin LinearStarts}}

FinishFn ==
    /\ fi <= Len(Fns) /\ work = {}
    /\ LET all == problems \cup JoinProblems IN
         /\ PrintT(<<"FN", ToJson([id |-> F.id, states |-> nstates, problems |-> all])>>)
         /\ fi' = fi + 1
         /\ StartFn(fi + 1)

Next == Visit \/ FinishFn
Spec == Init /\ [][Next]_vars

(* The property, as a state predicate evaluated in every state of the dataflow *)
WellFormed == problems = {} /\ (work = {} /\ fi <= Len(Fns) => JoinProblems = {})
Done == fi > Len(Fns)
=============================================================================
