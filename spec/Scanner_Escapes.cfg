SPECIFICATION Spec
CONSTANTS
  Alphabet <- Escapes
  MaxLen = 4
INVARIANTS ScanTerminates Emit
CHECK_DEADLOCK FALSE
