---------------------------- MODULE MC_InternTable ----------------------------
EXTENDS InternTable
(* Key pools: "a"/"b" are full-hash twins; 0,4,8,16 collide in the low 2 bits, 0,8,16 in the
   low 3, 0,16 in the low 4; 3 and 7 start a chain at the last slot of the capacity-4 table
   (wrap-around); 1 lands inside the probe chain that starts at 0.                           *)
PoolQuick    == { <<0,"a">>, <<0,"b">>, <<4,"c">>, <<8,"d">>, <<3,"f">>, <<7,"g">>, <<16,"e">> }
PoolThorough == PoolQuick \cup { <<1,"h">> }
PoolDeep     == PoolThorough \cup { <<15,"i">>, <<31,"j">>, <<32,"k">>, <<2,"l">>, <<5,"m">>, <<6,"n">>,
                                    <<12,"o">>, <<20,"p">>, <<28,"q">>, <<36,"r">>, <<44,"s">>, <<63,"t">>,
                                    <<64,"u">>, <<0,"v">>, <<9,"w">>, <<10,"x">>, <<11,"y">>, <<13,"z">> }

(* the top of the table: 6,14,22,30 share the last-but-one slot of the capacity-8 table and 14,30 that of the capacity-16
   table (chains that run through the last slot and wrap to slot 0 while the table is being REHASHED); 7,15 start at the
   last slot; 5 starts just below *)
PoolTop      == { <<6,"a">>, <<14,"b">>, <<22,"c">>, <<30,"d">>, <<7,"e">>, <<15,"f">>, <<5,"g">> }

HistLen == 34
HistBound == Len(hist) <= HistLen
EmitHist == (Len(hist) = HistLen) =>
    PrintT(<<"HIST", ToJson([ops |-> hist, entries |-> entries, size |-> size, hit |-> last.hit, id |-> last.id])>>)
===============================================================================
