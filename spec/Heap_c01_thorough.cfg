SPECIFICATION Spec
CONSTANTS
  MaxObj = 4
  NLabels = 2
  Kinds <- KindsNB
  MaxRoots = 2
  Policy = "schedule"
  InitBudget = 4
  Growth = 2
  Mutators <- MutAll
  MarksInBlacken = FALSE
  KeepHist = TRUE
VIEW viewSafety
INVARIANTS TypeOK GcSafety Reclaimed NoGreyLeft BytesExact FreedDead
ACTION_CONSTRAINT EmitCollect
