------------------------------- MODULE Pacing -------------------------------
(* The pacing rule of yarel's collector (memory.rs: allocate_raw / collect_if_required / collect) on
   its own, over UNBOUNDED integers: any allocation sizes, any amount reclaimed, any initial budget, any
   number of steps.  Heap.tla (all object graphs, unit sizes, small bounds) and TraceHeap.tla (recorded
   allocation histories of the real heap, real byte counts) both step-refine this module - TLC checks
   `[][P!Next]_P!vars` on them - and the invariant Pacing is proved here for every behaviour:
   IndInv is inductive (Apalache: Init => IndInv, IndInv /\ Next => IndInv', IndInv => Pacing; the same
   three obligations are proved by TLAPS in PacingProof.tla).

   Collect and AllocStep are the two halves of Heap::allocate_raw as the recorder sees them (a Collect
   event, then the Alloc event); AllocAtomic is the whole call in one step, as Heap.tla takes it.       *)
EXTENDS Integers

CONSTANTS
    \* @type: Int;
    InitBudget,      \* HEAP_INIT_BYTES_MAX
    \* @type: Int;
    Growth           \* HEAP_GROWTH_FACTOR

VARIABLES
    \* @type: Int;
    bytes,           \* bytes_allocated
    \* @type: Int;
    threshold,       \* collection_threshold
    \* @type: Int;
    afterLast,       \* bytes right after the last collection (0 = none yet)
    \* @type: Int;
    lastSize,        \* size of the allocation made last
    \* @type: Bool;
    pendingCollect   \* a collection has run inside the allocation in progress

vars == <<bytes, threshold, afterLast, lastSize, pendingCollect>>

ConstInit == InitBudget \in Nat /\ Growth \in Nat /\ Growth >= 1

Init == bytes = 0 /\ threshold = InitBudget /\ afterLast = 0 /\ lastSize = 0 /\ pendingCollect = FALSE

Collect(reclaimed) ==                         \* Heap::collect, run first thing by allocate_raw when due
    /\ ~pendingCollect
    /\ bytes >= threshold                     \* collect_if_required
    /\ reclaimed \in 0..bytes
    /\ bytes' = bytes - reclaimed
    /\ threshold' = (bytes - reclaimed) * Growth
    /\ afterLast' = bytes - reclaimed
    /\ pendingCollect' = TRUE
    /\ UNCHANGED lastSize

AllocStep(size) ==                            \* the rest of allocate_raw
    /\ size \in Nat
    /\ pendingCollect \/ bytes < threshold    \* no due collection was skipped
    /\ bytes' = bytes + size
    /\ lastSize' = size
    /\ pendingCollect' = FALSE
    /\ UNCHANGED <<threshold, afterLast>>

AllocAtomic(size, reclaimed) ==               \* allocate_raw as one step
    /\ size \in Nat
    /\ ~pendingCollect
    /\ IF bytes >= threshold
       THEN /\ reclaimed \in 0..bytes
            /\ bytes' = bytes - reclaimed + size
            /\ threshold' = (bytes - reclaimed) * Growth
            /\ afterLast' = bytes - reclaimed
       ELSE /\ reclaimed = 0
            /\ bytes' = bytes + size
            /\ UNCHANGED <<threshold, afterLast>>
    /\ lastSize' = size
    /\ pendingCollect' = FALSE

Next == \/ \E r \in Int : Collect(r)
        \/ \E s \in Int : AllocStep(s)
        \/ \E s, r \in Int : AllocAtomic(s, r)

Spec == Init /\ [][Next]_vars

Max(a, b) == IF a > b THEN a ELSE b

(* C16: between collections the managed heap never exceeds max(growth x size after the previous collection,
   initial budget) by more than one allocation *)
Pacing == bytes <= Max(Growth * afterLast, InitBudget) + lastSize

TypeOK == /\ bytes \in Nat /\ threshold \in Nat /\ afterLast \in Nat /\ lastSize \in Nat
          /\ pendingCollect \in BOOLEAN

IndInv == /\ TypeOK
          /\ InitBudget \in Nat /\ Growth \in Nat /\ Growth >= 1
          /\ \/ threshold = InitBudget /\ afterLast = 0          \* no collection yet
             \/ threshold = afterLast * Growth
          /\ pendingCollect => bytes = afterLast
          /\ Pacing

IndInit == IndInv
=============================================================================
