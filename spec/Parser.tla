------------------------------- MODULE Parser -------------------------------
(* The recogniser half of compiler.rs as a total function of the token sequence: does compilation succeed,
   and if not, which is the FIRST error the parser records - the token it names, that token's line, and
   the message.  (Compile.tla is the twin of the code generator for programs that are accepted; this
   module is the twin of everything that decides acceptance: the Pratt table, every `consume`, the
   statement grammar, attributes, and the context rules - return / break / continue / self / Self /
   super placement, duplicate declarations in a scope, reading a local in its own initialiser, a class
   inheriting from itself, importing the top-level module.)

   One operator per parser function, same names, same order of `advance` calls: the scanner is pulled
   one token ahead, so a scanner error token is reported at the moment the token BEFORE it is consumed,
   before the parser looks at what it has consumed - the order of `Advance` calls below is therefore
   part of what is specified.  Everything after the first recorded error (panic mode, synchronise, the
   later messages) is deliberately not specified: C03 / C17 speak about "a compile error with at least
   one located message" and "the line of the offending token", and the first message is the one whose
   token the parser has just looked at with nothing skipped.

   A token is [k |-> kind, s |-> text, l |-> line, f |-> file-name part of a string token ("?": none)].
   Limits (255 arguments, 256 locals, jump sizes ...) are outside this module (Compile.tla / limits): a
   function with more than 200 locals, or two unsupported attributes in one list (reported in hash
   order), makes the prediction "oom". *)
EXTENDS Naturals, Sequences, TLC

NoErr == [at |-> 0, line |-> 0, where |-> "", msg |-> ""]
FnRec(kind) == [kind |-> kind, depth |-> 0, loops |-> 0,
                locals |-> <<[n |-> IF kind = "static" THEN "Self" ELSE IF kind = "fn" THEN "" ELSE "self", d |-> 0]>>]
InitParser(toks) == [t |-> toks, p |-> 0, pv |-> 0, err |-> NoErr, oom |-> FALSE, fns |-> <<FnRec("script")>>, cls |-> <<>>,
                     attrs |-> <<>>, opener |-> 0, stm |-> FALSE]

Failed(s) == s.err.at # 0 \/ s.oom
K(s) == s.t[s.p].k
PrevTok(s) == s.t[s.pv]
Where(tok) == IF tok.k = "Eof" THEN " at end" ELSE IF tok.k = "Error" THEN "" ELSE " at '" \o tok.s \o "'"
ErrRaw(s, at, line, where, msg) == IF Failed(s) THEN s ELSE [s EXCEPT !.err = [at |-> at, line |-> line, where |-> where, msg |-> msg]]
ErrAt(s, i, msg) == IF i = 0 THEN ErrRaw(s, 1, 0, " at end", msg) ELSE ErrRaw(s, i, s.t[i].l, Where(s.t[i]), msg)
ErrCur(s, msg) == ErrAt(s, s.p, msg)
ErrPrev(s, msg) == ErrAt(s, s.pv, msg)
Oom(s) == IF Failed(s) THEN s ELSE [s EXCEPT !.oom = TRUE]

(* Parser::advance: previous := current; current := next token; a scanner error token is reported as it arrives *)
Advance(s) ==
    IF Failed(s) THEN s
    ELSE LET np == IF s.p < Len(s.t) THEN s.p + 1 ELSE s.p
             s1 == [s EXCEPT !.pv = s.p, !.p = np]
         IN IF s.t[np].k = "Error" THEN ErrAt(s1, np, s.t[np].s) ELSE s1
Consume(s, k, msg) == IF Failed(s) THEN s ELSE IF K(s) = k THEN Advance(s) ELSE ErrCur(s, msg)

Top(q) == q[Len(q)]
SetTop(q, x) == [q EXCEPT ![Len(q)] = x]
Pop(q) == SubSeq(q, 1, Len(q) - 1)
CurFn(s) == Top(s.fns)
SetFn(s, f) == [s EXCEPT !.fns = SetTop(s.fns, f)]

(* ---- variables ----------------------------------------------------------------------------------- *)
RECURSIVE DupInScope(_, _, _, _)
DupInScope(locals, i, depth, name) ==         \* declare_variable's backwards scan over the locals of the current scope
    IF i = 0 THEN FALSE
    ELSE IF locals[i].d # 999 /\ locals[i].d < depth THEN FALSE
    ELSE IF locals[i].n = name THEN TRUE
    ELSE DupInScope(locals, i - 1, depth, name)
(* d = 999: declared but not yet initialised (Local.depth = None) *)
DeclareVarAs(s, name, at, line, where) ==
    IF Failed(s) THEN s
    ELSE LET f == CurFn(s) IN
         IF f.depth = 0 THEN s
         ELSE IF DupInScope(f.locals, Len(f.locals), f.depth, name)
              THEN ErrRaw(s, at, line, where, "Variable with this name already declared in this scope.")
         ELSE IF Len(f.locals) > 200 THEN Oom(s)
         ELSE SetFn(s, [f EXCEPT !.locals = Append(@, [n |-> name, d |-> 999])])
DeclareVar(s) == IF Failed(s) THEN s ELSE DeclareVarAs(s, PrevTok(s).s, s.pv, PrevTok(s).l, Where(PrevTok(s)))
MarkInit(s) ==                                  \* mark_initialised: the LAST local, unless at global scope
    IF Failed(s) THEN s
    ELSE LET f == CurFn(s) IN
         IF f.depth = 0 THEN s ELSE SetFn(s, [f EXCEPT !.locals[Len(f.locals)].d = f.depth])
ParseVariable(s, msg) == DeclareVar(Consume(s, "Identifier", msg))
BeginScope(s) == IF Failed(s) THEN s ELSE SetFn(s, [CurFn(s) EXCEPT !.depth = @ + 1])
RECURSIVE DropLocals(_, _)
DropLocals(locals, depth) == IF Len(locals) > 0 /\ Top(locals).d > depth THEN DropLocals(Pop(locals), depth) ELSE locals
EndScope(s) ==
    IF Failed(s) THEN s
    ELSE LET f == CurFn(s) IN SetFn(s, [f EXCEPT !.depth = @ - 1, !.locals = DropLocals(f.locals, f.depth - 1)])

RECURSIVE FindLocal(_, _, _)
FindLocal(locals, i, name) == IF i = 0 THEN 0 ELSE IF locals[i].n = name THEN i ELSE FindLocal(locals, i - 1, name)
(* resolve_variable: only the innermost function's own locals can make it fail *)
Resolve(s, name) ==
    IF Failed(s) THEN s
    ELSE LET ls == CurFn(s).locals
             i == FindLocal(ls, Len(ls), name)
         IN IF i # 0 /\ ls[i].d = 999 THEN ErrPrev(s, "Cannot read local variable in its own initialiser.") ELSE s

BinAssign == {"MinusEqual", "PlusEqual", "SlashEqual", "StarEqual", "AmpEqual", "BarEqual", "CaretEqual", "PercentEqual", "LessLessEqual",
              "GreaterGreaterEqual"}
InfixPrec(k) ==
    CASE k \in {"LeftParen", "LeftBracket", "Dot"} -> 14
      [] k = "DotDot" -> 12
      [] k \in {"Slash", "Star", "Percent"} -> 11
      [] k \in {"Minus", "Plus"} -> 10
      [] k \in {"GreaterGreater", "LessLess"} -> 9
      [] k = "Amp" -> 8
      [] k = "Caret" -> 7
      [] k = "Bar" -> 6
      [] k \in {"Greater", "GreaterEqual", "Less", "LessEqual"} -> 5
      [] k \in {"BangEqual", "EqualEqual"} -> 4
      [] k = "AmpAmp" -> 3
      [] k = "BarBar" -> 2
      [] OTHER -> 0
PrefixKinds == {"LeftParen", "LeftBrace", "LeftBracket", "Minus", "Bang", "Tilde", "Bar", "BarBar", "Identifier", "Str", "Interpolation", "Number",
                "CapSelf", "False", "Nil", "True", "Self_", "Super"}

RECURSIVE ParsePrec(_, _), InfixLoop(_, _, _), Prefix(_, _, _), Infix(_, _, _), ArgLoop(_), ArgList(_, _, _), GroupLoop(_, _), MapLoop(_),
          InterpLoop(_), ParamLoop(_), Block(_), Declaration(_), Statement(_), Function(_, _), MethodLoop(_), AttrLoop(_, _), AttrArgs(_, _)

Expression(s) == IF Failed(s) THEN s ELSE ParsePrec(s, IF s.stm THEN 6 ELSE 1)

(* binary_assign: the right-hand side is parsed in single-target mode, and the mode is OFF afterwards whatever it was *)
BinaryAssign(s) == IF Failed(s) THEN s ELSE LET s1 == Expression([s EXCEPT !.stm = TRUE]) IN IF Failed(s1) THEN s1 ELSE [s1 EXCEPT !.stm = FALSE]

NamedVar(s, name, ca) ==
    LET s1 == Resolve(s, name) IN
    IF Failed(s1) THEN s1
    ELSE IF ca /\ K(s1) = "Equal" THEN Expression(Advance(s1))
    ELSE IF ca /\ K(s1) \in BinAssign THEN BinaryAssign(Advance(s1))
    ELSE s1

ArgLoop(s) == LET s1 == Expression(s) IN IF Failed(s1) THEN s1 ELSE IF K(s1) = "Comma" THEN ArgLoop(Advance(s1)) ELSE s1
ArgList(s, delim, msg) == IF Failed(s) THEN s ELSE Consume(IF K(s) # delim THEN ArgLoop(s) ELSE s, delim, msg)

(* grouping: returns [s, n, single] *)
GroupLoop(s, n) ==
    LET s1 == Expression(s) IN
    IF Failed(s1) THEN [s |-> s1, n |-> n + 1, single |-> FALSE]
    ELSE IF K(s1) # "Comma" THEN [s |-> s1, n |-> n + 1, single |-> FALSE]
    ELSE LET s2 == Advance(s1) IN
         IF Failed(s2) THEN [s |-> s2, n |-> n + 1, single |-> FALSE]
         ELSE IF n + 1 = 1 /\ K(s2) = "RightParen" THEN [s |-> s2, n |-> 1, single |-> TRUE]
         ELSE GroupLoop(s2, n + 1)
Grouping(s) ==
    IF Failed(s) THEN s
    ELSE LET g == IF K(s) # "RightParen" THEN GroupLoop(s, 0) ELSE [s |-> s, n |-> 0, single |-> FALSE]
             isTuple == g.n # 1 \/ g.single
         IN Consume(g.s, "RightParen", IF isTuple THEN "Expected ')' after elements." ELSE "Expected ')' after expression.")

MapLoop(s) ==
    LET s1 == Expression(Consume(Expression(s), "Colon", "Expected ':' after key.")) IN
    IF Failed(s1) THEN s1 ELSE IF K(s1) = "Comma" THEN MapLoop(Advance(s1)) ELSE s1
HashMapLit(s) == IF Failed(s) THEN s ELSE Consume(IF K(s) # "RightBrace" THEN MapLoop(s) ELSE s, "RightBrace", "Expected '}' after elements.")

(* interpolation: expression, then either another Interpolation token or - unconditionally - one more token (the tail) *)
InterpLoop(s) ==
    LET s1 == Expression(s) IN
    IF Failed(s1) THEN s1 ELSE IF K(s1) = "Interpolation" THEN InterpLoop(Advance(s1)) ELSE Advance(s1)

ParamLoop(s) ==
    LET s1 == MarkInit(ParseVariable(s, "Expected parameter name.")) IN
    IF Failed(s1) THEN s1 ELSE IF K(s1) = "Comma" THEN ParamLoop(Advance(s1)) ELSE s1
ParamList(s, delim) == IF Failed(s) THEN s ELSE IF K(s) # delim THEN ParamLoop(s) ELSE s

PushFn(s, kind) == IF Failed(s) THEN s ELSE [s EXCEPT !.fns = Append(@, [FnRec(kind) EXCEPT !.depth = 1])]
PopFn(s) == IF Failed(s) THEN s ELSE [s EXCEPT !.fns = Pop(@)]

Lambda(s, k) ==
    IF Failed(s) THEN s
    ELSE LET s1 == PushFn(s, "fn")
             s2 == IF k = "Bar" THEN Consume(ParamList(s1, "Bar"), "Bar", "Expected ')' after parameters.") ELSE s1
             s3 == IF Failed(s2) THEN s2 ELSE IF K(s2) = "LeftBrace" THEN Block(Advance(s2)) ELSE Expression(s2)
         IN PopFn(s3)

SuperExpr(s) ==
    IF Failed(s) THEN s
    ELSE LET s1 == IF s.cls = <<>> THEN ErrPrev(s, "Cannot use 'super' outside of a class.")
                   ELSE IF ~Top(s.cls) THEN ErrPrev(s, "Cannot use 'super' in a class with no superclass.") ELSE s
             s2 == Consume(Consume(s1, "Dot", "Expected '.' after 'super'."), "Identifier", "Expected superclass method name.")
         IN IF Failed(s2) THEN s2
            ELSE IF K(s2) = "LeftParen" THEN ArgList(Advance(s2), "RightParen", "Expected ')' after arguments.") ELSE s2

Prefix(s, k, ca) ==
    IF Failed(s) THEN s
    ELSE CASE k = "LeftParen" -> Grouping(s)
           [] k = "LeftBrace" -> HashMapLit(s)
           [] k = "LeftBracket" -> ArgList(s, "RightBracket", "Expected ']' after elements.")
           [] k \in {"Minus", "Bang", "Tilde"} -> ParsePrec(s, 13)
           [] k \in {"Bar", "BarBar"} -> Lambda(s, k)
           [] k = "Identifier" -> NamedVar(s, PrevTok(s).s, ca)
           [] k = "Interpolation" -> InterpLoop(s)
           [] k = "CapSelf" -> IF s.cls = <<>> THEN ErrPrev(s, "Cannot use 'Self' outside of a class.") ELSE s
           [] k = "Self_" -> IF s.cls = <<>> THEN ErrPrev(s, "Cannot use 'self' outside of a class.")
                             ELSE IF CurFn(s).kind = "static" THEN ErrPrev(s, "Cannot use 'self' in a static method.") ELSE s
           [] k = "Super" -> SuperExpr(s)
           [] OTHER -> s                      \* Str, Number, False, Nil, True

Infix(s, k, ca) ==
    IF Failed(s) THEN s
    ELSE CASE k = "LeftParen" -> ArgList(s, "RightParen", "Expected ')' after arguments.")
           [] k = "LeftBracket" ->
                LET s1 == Consume(Expression(s), "RightBracket", "Expected ']' after index.") IN
                IF Failed(s1) THEN s1 ELSE IF ca /\ K(s1) = "Equal" THEN Expression(Advance(s1)) ELSE s1
           [] k = "Dot" ->
                LET s1 == Consume(s, "Identifier", "Expected property name after '.'.") IN
                IF Failed(s1) THEN s1
                ELSE IF ca /\ K(s1) = "Equal" THEN Expression(Advance(s1))
                ELSE IF ca /\ K(s1) \in BinAssign THEN BinaryAssign(Advance(s1))
                ELSE IF K(s1) = "LeftParen" THEN ArgList(Advance(s1), "RightParen", "Expected ')' after arguments.")
                ELSE s1
           [] k = "DotDot" -> ParsePrec(s, 13)
           [] k = "AmpAmp" -> ParsePrec(s, 3)
           [] k = "BarBar" -> ParsePrec(s, 2)
           [] OTHER -> ParsePrec(s, InfixPrec(k) + 1)

InfixLoop(s, prec, ca) ==
    IF Failed(s) THEN s
    ELSE IF prec <= InfixPrec(K(s)) THEN LET s1 == Advance(s) IN IF Failed(s1) THEN s1 ELSE InfixLoop(Infix(s1, PrevTok(s1).k, ca), prec, ca)
    ELSE s

ParsePrec(s, prec) ==
    IF Failed(s) THEN s
    ELSE LET s1 == Advance(s)
             ca == prec <= 1
         IN IF Failed(s1) THEN s1
            ELSE LET k == PrevTok(s1).k IN
                 IF k \notin PrefixKinds THEN ErrPrev(s1, "Expected expression.")
                 ELSE LET s3 == InfixLoop(Prefix(s1, k, ca), prec, ca) IN
                      IF Failed(s3) THEN s3
                      ELSE IF ca /\ K(s3) = "Equal" THEN ErrPrev(Advance(s3), "Invalid assignment target.") ELSE s3

(* ---- attributes ------------------------------------------------------------------------------------ *)
CheckNoAttrs(s) ==
    IF Failed(s) THEN s
    ELSE IF s.opener # 0 THEN ErrAt(s, s.opener, "Unexpected attribute list.") ELSE [s EXCEPT !.attrs = <<>>]
AttrIndex(attrs, name) == IF \E i \in 1..Len(attrs) : attrs[i].n = name THEN CHOOSE i \in 1..Len(attrs) : attrs[i].n = name ELSE 0
RemoveAt(q, i) == SubSeq(q, 1, i - 1) \o SubSeq(q, i + 1, Len(q))
(* take_attribute: -> [s, a] where a = NoAttr (absent or wrong number of arguments) or the attribute record *)
NoAttr == [n |-> "", i |-> 0, c |-> 0, first |-> ""]
TakeAttr(s, name, nargs) ==
    IF Failed(s) THEN [s |-> s, a |-> NoAttr]
    ELSE LET i == AttrIndex(s.attrs, name) IN
         IF i = 0 THEN [s |-> s, a |-> NoAttr]
         ELSE LET a == s.attrs[i]
                  s1 == [s EXCEPT !.attrs = RemoveAt(@, i)]
              IN IF a.c # nargs
                 THEN [s |-> ErrAt(s1, a.i, "Expected " \o ToString(nargs) \o " argument" \o (IF nargs # 1 THEN "s" ELSE "") \o " to '" \o a.n \o "' attribute."), a |-> NoAttr]
                 ELSE [s |-> s1, a |-> a]
CheckSupported(s, kind) ==
    IF Failed(s) THEN s
    ELSE IF s.attrs = <<>> THEN [s EXCEPT !.opener = 0]
    ELSE IF Len(s.attrs) > 1 THEN Oom(s)           \* reported in the iteration order of a hash map
    ELSE ErrAt(s, s.attrs[1].i, "Unsupported " \o kind \o " attribute '" \o s.attrs[1].n \o "'.")

(* attribute arguments: -> [s, c, first] (count and text of the first argument) *)
AttrArgs(s, c) ==
    IF Failed(s) THEN [s |-> s, c |-> c, first |-> ""]
    ELSE IF K(s) # "Identifier" THEN [s |-> ErrCur(s, "Expected an attribute argument."), c |-> c, first |-> ""]
    ELSE LET s1 == Advance(s)
             txt == s.t[s.p].s
         IN IF Failed(s1) THEN [s |-> s1, c |-> c + 1, first |-> txt]
            ELSE IF K(s1) = "Comma" THEN LET r == AttrArgs(Advance(s1), c + 1) IN [r EXCEPT !.first = txt]
            ELSE [s |-> s1, c |-> c + 1, first |-> txt]
(* the loop of attributes_declaration: -> [s, attrs] *)
AttrLoop(s, acc) ==
    IF Failed(s) \/ K(s) # "Identifier" THEN [s |-> s, attrs |-> acc]
    ELSE LET s1 == Advance(s)
             name == s.t[s.p].s
             nameIdx == s.p
         IN IF Failed(s1) THEN [s |-> s1, attrs |-> acc]
            ELSE LET r == IF K(s1) = "LeftParen"
                          THEN LET ar == AttrArgs(Advance(s1), 0) IN
                               IF Failed(ar.s) THEN ar
                               ELSE IF K(ar.s) # "RightParen" THEN [ar EXCEPT !.s = ErrCur(ar.s, "Expected ')' after attribute arguments.")]
                               ELSE [ar EXCEPT !.s = Advance(ar.s)]
                          ELSE [s |-> s1, c |-> 0, first |-> ""]
                 IN IF Failed(r.s) THEN [s |-> r.s, attrs |-> acc]
                    ELSE IF AttrIndex(acc, name) # 0
                         THEN [s |-> ErrPrev(r.s, "Duplicate attribute '" \o PrevTok(r.s).s \o "'."), attrs |-> acc]
                    ELSE LET acc2 == Append(acc, [n |-> name, i |-> nameIdx, c |-> r.c, first |-> r.first]) IN
                         IF K(r.s) = "Comma" THEN AttrLoop(Advance(r.s), acc2) ELSE [s |-> r.s, attrs |-> acc2]
AttributesDecl(s) ==
    LET s0 == CheckNoAttrs(s) IN
    IF Failed(s0) THEN s0
    ELSE LET opener == s0.pv IN
         IF K(s0) # "LeftBracket" THEN ErrCur(s0, "Expected '[' after '#'.")
         ELSE LET r == AttrLoop(Advance(s0), <<>>)
                  s2 == IF Failed(r.s) THEN r.s ELSE IF r.attrs = <<>> THEN ErrCur(r.s, "Expected at least one attribute.") ELSE r.s
              IN IF Failed(s2) THEN s2
                 ELSE IF K(s2) # "RightBracket" THEN ErrCur(s2, "Expected ']' after attribute list.")
                 ELSE [Advance(s2) EXCEPT !.opener = opener, !.attrs = r.attrs]

(* ---- declarations and statements ---------------------------------------------------------------------- *)
Block(s) ==
    IF Failed(s) THEN s
    ELSE IF K(s) \notin {"RightBrace", "Eof"} THEN Block(Declaration(s))
    ELSE Consume(s, "RightBrace", "Expected '}' after block.")
ScopedBlock(s) == EndScope(Block(BeginScope(s)))

Function(s, kind) ==
    IF Failed(s) THEN s
    ELSE LET s1 == Consume(PushFn(s, kind), "LeftParen", "Expected '(' after function name.")
             s2 == IF Failed(s1) THEN s1
                   ELSE IF kind \in {"method", "init"} THEN
                        LET a == Consume(s1, "Self_", "Expected 'self' as first parameter in method.") IN
                        IF Failed(a) THEN a ELSE IF K(a) = "Comma" THEN Advance(a) ELSE a
                   ELSE IF K(s1) = "Self_" THEN ErrPrev(Advance(s1), "Expected parameter name.")
                   ELSE s1
             s3 == Consume(Consume(ParamList(s2, "RightParen"), "RightParen", "Expected ')' after parameters."), "LeftBrace", "Expected '{' before function body.")
         IN PopFn(Block(s3))

Method(s) ==
    IF Failed(s) THEN s
    ELSE LET s0 == IF K(s) = "Hash" THEN AttributesDecl(Advance(s)) ELSE s
             st == TakeAttr(s0, "static", 0)
             ct == TakeAttr(st.s, "constructor", 0)
             s1 == Consume(Consume(CheckSupported(ct.s, "method"), "Fn", "Expected 'fn' before method name."), "Identifier", "Expected method name.")
             s2 == IF ct.a.i # 0 /\ st.a.i # 0 THEN ErrAt(s1, st.a.i, "Constructors cannot be static.") ELSE s1
         IN Function(s2, IF ct.a.i # 0 THEN "init" ELSE IF st.a.i # 0 THEN "static" ELSE "method")
MethodLoop(s) == IF Failed(s) THEN s ELSE IF K(s) \notin {"RightBrace", "Eof"} THEN MethodLoop(Method(s)) ELSE s

ClassDecl(s) ==
    IF Failed(s) THEN s
    ELSE LET ct == TakeAttr(s, "constructor", 1)
             sp == TakeAttr(ct.s, "derive", 1)
             s1 == MarkInit(DeclareVar(Consume(CheckSupported(sp.s, "class"), "Identifier", "Expected class name.")))
         IN IF Failed(s1) THEN s1
            ELSE LET name == PrevTok(s1).s
                     s2 == [s1 EXCEPT !.cls = Append(@, sp.a.i # 0)]
                     s3 == IF sp.a.i = 0 THEN s2
                           ELSE LET a == Resolve(s2, sp.a.first)
                                    b == IF name = sp.a.first THEN ErrPrev(a, "A class cannot inherit from itself.") ELSE a
                                    c == BeginScope(b)
                                IN IF Failed(c) THEN c
                                   ELSE Resolve(MarkInit(SetFn(c, [CurFn(c) EXCEPT !.locals = Append(@, [n |-> "super", d |-> 999])])), name)
                     s4 == Consume(Resolve(s3, name), "LeftBrace", "Expected '{' before class body.")
                     s5 == Consume(MethodLoop(s4), "RightBrace", "Expected '}' after class body.")
                     s6 == IF sp.a.i # 0 THEN EndScope(s5) ELSE s5
                 IN IF Failed(s6) THEN s6 ELSE [s6 EXCEPT !.cls = Pop(@)]

FnDecl(s) == Function(MarkInit(MarkInit(ParseVariable(CheckSupported(s, "function"), "Expected function name."))), "fn")

VarDecl(s) ==
    LET s1 == ParseVariable(CheckNoAttrs(s), "Expected variable name.") IN
    IF Failed(s1) THEN s1
    ELSE MarkInit(Consume(IF K(s1) = "Equal" THEN Expression(Advance(s1)) ELSE s1, "SemiColon", "Expected ';' after variable declaration."))

ImportStmt(s) ==
    LET s1 == Consume(s, "Str", "Expected a module path.") IN
    IF Failed(s1) THEN s1
    ELSE LET path == PrevTok(s1)
             s2 == IF path.s = "main" THEN ErrPrev(s1, "Cannot import top-level module.") ELSE s1
         IN IF Failed(s2) THEN s2
            ELSE IF K(s2) = "As" THEN
                 LET s3 == Consume(Advance(s2), "Identifier", "Expected module name.") IN
                 MarkInit(Consume(DeclareVar(s3), "SemiColon", "Expected ';' after module import."))
            ELSE IF path.f = "?" THEN ErrPrev(s2, "Expected a module path.")
            ELSE IF path.f = "??" THEN Oom(s2)
            \* the variable is named after the file; the token that stands for it has no kind ("at end") and the CURRENT token's line
            ELSE MarkInit(Consume(DeclareVarAs(s2, path.f, s2.p, s2.t[s2.p].l, " at end"), "SemiColon", "Expected ';' after module import."))

ForStmt(s) ==
    LET s0 == BeginScope(s) IN
    IF Failed(s0) THEN s0
    ELSE IF K(s0) # "Identifier" THEN ErrCur(s0, "Expected loop variable name.")
    ELSE LET s1 == DeclareVar(Advance(s0)) IN
         IF Failed(s1) THEN s1
         ELSE LET loopVar == Len(CurFn(s1).locals)
                  s2 == Expression(Consume(s1, "In", "Expected 'in' after loop variable."))
              IN IF Failed(s2) THEN s2
                 ELSE LET f == CurFn(s2)
                          f2 == [f EXCEPT !.locals = Append([@ EXCEPT ![loopVar].d = f.depth], [n |-> "... temp-iter-var ...", d |-> f.depth]), !.loops = @ + 1]
                          s3 == ScopedBlock(Consume(SetFn(s2, f2), "LeftBrace", "Expected '{' after loop expression."))
                      IN IF Failed(s3) THEN s3 ELSE EndScope(SetFn(s3, [CurFn(s3) EXCEPT !.loops = @ - 1]))

IfStmt(s) ==
    LET s1 == ScopedBlock(Consume(Expression(s), "LeftBrace", "Expected '{' after condition.")) IN
    IF Failed(s1) THEN s1
    ELSE IF K(s1) = "Else" THEN
         LET s2 == Advance(s1) IN
         IF Failed(s2) THEN s2 ELSE Statement(IF K(s2) \notin {"If", "LeftBrace"} THEN ErrCur(s2, "Expected '{' after 'else'.") ELSE s2)
    ELSE s1

ReturnStmt(s) ==
    LET s1 == IF CurFn(s).kind = "script" THEN ErrPrev(s, "Cannot return from top-level code.") ELSE s IN
    IF Failed(s1) THEN s1
    ELSE IF K(s1) = "SemiColon" THEN Advance(s1)
    ELSE LET s2 == IF CurFn(s1).kind = "init" THEN ErrPrev(s1, "Cannot return a value from an initialiser.") ELSE s1 IN
         Consume(Expression(s2), "SemiColon", "Expected ';' after return value.")

TryStmt(s) ==
    LET s1 == ScopedBlock(Consume(s, "LeftBrace", "Expected '{' after 'try'.")) IN
    IF Failed(s1) THEN s1
    ELSE LET hc == K(s1) = "Catch"
             s2 == IF ~hc THEN s1
                   ELSE LET a == Advance(s1) IN
                        IF Failed(a) THEN a
                        ELSE IF K(a) # "Identifier" THEN ErrCur(a, "Expected exception variable name.")
                        ELSE EndScope(Block(Consume(MarkInit(DeclareVar(BeginScope(Advance(a)))), "LeftBrace", "Expected '{' after variable.")))
         IN IF Failed(s2) THEN s2
            ELSE LET hf == K(s2) = "Finally"
                     s3 == IF ~hf THEN s2 ELSE ScopedBlock(Consume(Advance(s2), "LeftBrace", "Expected '{' after 'finally'."))
                 IN IF Failed(s3) THEN s3
                    ELSE IF ~hc /\ ~hf THEN ErrPrev(s3, "Expected 'catch' or 'finally' after 'try' block.") ELSE s3

WhileStmt(s) ==
    LET s1 == ScopedBlock(Consume(Expression(SetFn(s, [CurFn(s) EXCEPT !.loops = @ + 1])), "LeftBrace", "Expected '{' after condition.")) IN
    IF Failed(s1) THEN s1 ELSE SetFn(s1, [CurFn(s1) EXCEPT !.loops = @ - 1])

Statement(s) ==
    LET s0 == CheckNoAttrs(s) IN
    IF Failed(s0) THEN s0
    ELSE LET k == K(s0)
             a == Advance(s0)
         IN CASE k = "Import" -> ImportStmt(a)
              [] k = "For" -> ForStmt(a)
              [] k = "If" -> IfStmt(a)
              [] k = "Return" -> IF Failed(a) THEN a ELSE ReturnStmt(a)
              [] k = "Break" -> IF Failed(a) THEN a
                                ELSE IF CurFn(a).loops = 0 THEN ErrPrev(a, "Cannot use 'break' statement outside of loop body.")
                                ELSE Consume(a, "SemiColon", "Expected ';' after 'break'.")
              [] k = "Continue" -> IF Failed(a) THEN a
                                   ELSE IF CurFn(a).loops = 0 THEN ErrPrev(a, "Cannot use 'continue' statement outside of loop body.")
                                   ELSE Consume(a, "SemiColon", "Expected ';' after 'continue'.")
              [] k = "Throw" -> Consume(Expression(a), "SemiColon", "Expected ';' after throw value.")
              [] k = "Try" -> TryStmt(a)
              [] k = "While" -> IF Failed(a) THEN a ELSE WhileStmt(a)
              [] k = "LeftBrace" -> ScopedBlock(a)
              [] OTHER -> Consume(Expression(s0), "SemiColon", "Expected ';' after expression.")

Declaration(s) ==
    IF Failed(s) THEN s
    ELSE LET k == K(s) IN
         CASE k = "Class" -> ClassDecl(Advance(s))
           [] k = "Fn" -> FnDecl(Advance(s))
           [] k = "Hash" -> AttributesDecl(Advance(s))
           [] k = "Var" -> VarDecl(Advance(s))
           [] OTHER -> Statement(s)

RECURSIVE TopLoop(_)
TopLoop(s) == IF Failed(s) THEN s ELSE IF K(s) # "Eof" THEN TopLoop(Declaration(s)) ELSE CheckNoAttrs(Advance(s))

(* the prediction for a token sequence that ends with its Eof token *)
Parse(toks) ==
    LET s == TopLoop(Advance(InitParser(toks))) IN
    IF s.oom THEN [r |-> "oom", line |-> 0, where |-> "", msg |-> ""]
    ELSE IF s.err.at # 0 THEN [r |-> "error", line |-> s.err.line, where |-> s.err.where, msg |-> s.err.msg]
    ELSE [r |-> "ok", line |-> 0, where |-> "", msg |-> ""]
=============================================================================
