SPECIFICATION Spec
CONSTANTS
  Alphabet <- Alpha6
  MaxChars = 2
  Ops <- OpsB
INVARIANTS ProducesValidUtf8 Emit
CHECK_DEADLOCK FALSE
