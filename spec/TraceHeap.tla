------------------------------- MODULE TraceHeap -------------------------------
(* Trace validation of the collector's pacing (memory.rs: allocate_raw / collect_if_required /
   collect) against the pacing part of Heap.tla, in real bytes.  Events, in order of occurrence:
     Collect(before, freed, after, thr, objects)   - logged at the end of Heap::collect
     Alloc(n, size, gc, bytes, thr)                - logged at the end of Heap::allocate_raw;
                                                     gc = number of collections it ran first
   What the code reclaimed (freed) is an input; everything else must be what the
   specification computes from its own state: the decision to collect, bytes, threshold.  *)
EXTENDS Naturals, Sequences, TLC, Json, IOUtils

CONSTANTS InitBudget, Growth, Policy     \* Policy: "paced" | "always"

Rec == TLCEval(ndJsonDeserialize(IOEnv.TRACE))

VARIABLES l, bytes, threshold, afterLast, pendingCollect, lastSize
vars == <<l, bytes, threshold, afterLast, pendingCollect, lastSize>>

Init == l = 1 /\ bytes = 0 /\ threshold = InitBudget /\ afterLast = 0 /\ pendingCollect = FALSE /\ lastSize = 0

ShouldCollect == IF Policy = "always" THEN TRUE ELSE bytes >= threshold

Reset ==                                      \* a new thread = a new heap (concatenated runs)
    /\ l <= Len(Rec) /\ Rec[l].e = "Reset"
    /\ bytes' = 0 /\ threshold' = InitBudget /\ afterLast' = 0 /\ pendingCollect' = FALSE /\ lastSize' = 0
    /\ l' = l + 1

Collect ==                                    \* Heap::collect, run from allocate_raw
    /\ l <= Len(Rec) /\ Rec[l].e = "Collect"
    /\ ~pendingCollect
    /\ ShouldCollect                          \* a collection only when the policy asks for one
    /\ LET r == Rec[l] IN
         /\ r.before = bytes                  \* accounting agrees with the specification's
         /\ r.freed <= r.before
         /\ r.after = r.before - r.freed
         /\ r.thr = r.after * Growth
         /\ bytes' = r.after
         /\ threshold' = r.after * Growth
         /\ afterLast' = r.after
    /\ pendingCollect' = TRUE
    /\ UNCHANGED lastSize
    /\ l' = l + 1

Alloc ==
    /\ l <= Len(Rec) /\ Rec[l].e = "Alloc"
    /\ LET r == Rec[l] IN
         /\ (r.gc = 1) = pendingCollect       \* exactly the collection the policy demanded, no other
         /\ r.gc \in {0, 1}
         /\ (~pendingCollect) => ~ShouldCollect    \* and none was skipped
         /\ bytes' = bytes + r.size
         /\ r.bytes = bytes + r.size
         /\ r.thr = threshold
         /\ lastSize' = r.size
    /\ pendingCollect' = FALSE
    /\ UNCHANGED <<threshold, afterLast>>
    /\ l' = l + 1

Next == Reset \/ Collect \/ Alloc
Spec == Init /\ [][Next]_vars

Max(a, b) == IF a > b THEN a ELSE b
(* C16: between collections the heap never exceeds max(growth x size after the previous
   collection, initial budget) by more than one allocation *)
Pacing == (Policy = "paced") => bytes <= Max(Growth * afterLast, InitBudget) + lastSize

(* Every recorded step of the real heap is a step of Pacing.tla - the pacing rule over unbounded integers, whose
   invariant is proved inductive by Apalache and TLAPS - so the bound is not only observed on this trace but follows
   from the rule the trace was just shown to obey.  (Paced policy only; a Reset starts a new heap.) *)
P == INSTANCE Pacing
RefinesPacing == [][Rec[l].e = "Reset" \/ P!Collect(bytes - bytes') \/ P!AllocStep(bytes' - bytes)]_<<bytes, threshold, afterLast, lastSize, pendingCollect>>

Accepted ==
    LET d == TLCGet("stats").diameter IN
    IF d - 1 = Len(Rec) THEN TRUE
    ELSE Print(<<"REJECT", d, IF d <= Len(Rec) THEN Rec[d] ELSE "end">>, FALSE)
=============================================================================
