----------------------------- MODULE MC_Scanner -----------------------------
EXTENDS Scanner
(* class representatives: letters that spell keywords, digits, punctuation with two-character forms,
   string / interpolation / escape characters, white space, a comment starter, 2- and 4-byte characters,
   a character that starts no token *)
Broad == {"a", "i", "f", "n", "s", "1", "9", ".", "\"", "$", "{", "}", "\\", "x", "u", " ", "\n", "/", "=", "<", "|", "&", "-", "@", "é", "😀"}
Numbers == {"1", "2", ".", "a", "l", "e", "_"}
Strings6 == {"\"", "$", "{", "}", "a", "\\", "\n"}
Escapes == {"\"", "\\", "x", "u", "U", "f", "9", "e", "b", "a", "$", "n", "0"}
Words == {"a", "s", "i", "f", "n", "l", "e", "r", "t", "u", " ", "S", "o", "_"}
Ops2 == {"<", ">", "=", "!", "|", "&", "+", "-", "*", "/", "^", "%", ".", "~", " "}
=============================================================================
