----------------------------- MODULE MC_Scanner -----------------------------
EXTENDS Scanner
(* class representatives: letters that spell keywords, digits, punctuation with two-character forms,
   string / interpolation / escape characters, white space, a comment starter, 2- and 4-byte characters,
   a character that starts no token *)
Broad == {"a", "i", "f", "n", "s", "1", "9", ".", "\"", "$", "{", "}", "\\", "x", "u", " ", "\n", "/", "=", "<", "|", "&", "-", "@", "é", "😀"}
Numbers == {"1", "2", ".", "a", "l", "e", "_"}
Strings6 == {"\"", "$", "{", "}", "a", "\\", "\n"}
Escapes == {"\"", "\\", "x", "u", "U", "f", "9", "e", "b", "a", "$", "n", "0"}
Words == {"a", "s", "i", "f", "n", "l", "e", "r", "t", "u", " ", "S", "o", "_"}
(* line counting: line breaks, carriage returns and tabs inside and outside string literals and comments *)
Lines == {"\"", "a", "\n", "\r", "\t", "/", ";"}
(* escape sequences whose digit window runs into multi-byte characters (2, 3 and 4 bytes) *)
EscapesU == {"\"", "\\", "x", "u", "f", "é", "€", "😀"}
Ops2 == {"<", ">", "=", "!", "|", "&", "+", "-", "*", "/", "^", "%", ".", "~", " "}
=============================================================================
