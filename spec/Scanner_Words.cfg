SPECIFICATION Spec
CONSTANTS
  Alphabet <- Words
  MaxLen = 4
INVARIANTS ScanTerminates Emit
CHECK_DEADLOCK FALSE
