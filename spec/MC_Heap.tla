------------------------------- MODULE MC_Heap -------------------------------
EXTENDS Heap
KindsNB == {"node", "bound"}
KindsN  == {"node"}
KindsLeaky == {"node", "leaky"}
MutAll == {"clone", "asroot", "drop", "link", "unlink"}
MutDrop == {"drop"}
MutDropLink == {"drop", "link"}

(* Heap.tla's paced policy step-refines Pacing.tla (whose invariant is proved for unbounded sizes by Apalache and TLAPS):
   every allocation is Pacing's AllocAtomic with size 1 and whatever the collection reclaimed; everything else stutters. *)
PH == INSTANCE Pacing WITH lastSize <- (IF next = 1 THEN 0 ELSE 1), pendingCollect <- FALSE
RefinesPacing == [][PH!AllocAtomic(1, bytes + 1 - bytes')]_<<bytes, threshold, afterLast, next>>
==============================================================================
