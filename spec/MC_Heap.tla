------------------------------- MODULE MC_Heap -------------------------------
EXTENDS Heap
KindsNB == {"node", "bound"}
KindsN  == {"node"}
KindsLeaky == {"node", "leaky"}
MutAll == {"clone", "asroot", "drop", "link", "unlink"}
MutDrop == {"drop"}
MutDropLink == {"drop", "link"}
==============================================================================
