SPECIFICATION Spec
CONSTANTS
  Alphabet <- EscapesU
  MaxLen = 5
INVARIANTS ScanTerminates Emit
CHECK_DEADLOCK FALSE
