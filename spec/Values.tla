-------------------------------- MODULE Values --------------------------------
(* The value universe of the reference machine, the language's operators on it (with the
   error classes and messages of vm.rs / core.rs), and the text `print` produces.

   A value is a record [k, v]: k is the kind and sorts before v, so values of different kinds
   compare unequal without ever comparing payloads of different types.
     nil, bool, num (v: integer), flt (v: "inf" | "-inf" | "nan" | "-0"), str (v: text),
     nat (v: name of a built-in function), ref (v: store address of a heap object).
   A heap object is a record whose first field `k` is its kind (vec, tuple, map, range, closure,
   class, inst, bound, fiber, iter, module).  Numbers are the integers plus the four special
   doubles a program can produce from them; an operation whose exact result is not in this
   domain yields OutOfModel and the behaviour is not compared.                             *)
EXTENDS Integers, Sequences, FiniteSets, TLC

ASSUME KindComparedFirst == [k |-> "a", v |-> 1] # [k |-> "b", v |-> "x"]

Nil == [k |-> "nil", v |-> 0]
B(b) == [k |-> "bool", v |-> b]
N(n) == [k |-> "num", v |-> n]
F(s) == [k |-> "flt", v |-> s]
S(s) == [k |-> "str", v |-> s]
Nat_(s) == [k |-> "nat", v |-> s]
Ref(a) == [k |-> "ref", v |-> a]

IsNum(x) == x.k \in {"num", "flt"}
IsStr(x) == x.k = "str"
IsRef(x) == x.k = "ref"
Truthy(x) == ~(x.k = "nil" \/ (x.k = "bool" /\ x.v = FALSE))

NoErr == [kind |-> "", msg |-> ""]
Err(kind, msg) == [kind |-> kind, msg |-> msg]
IsErr(e) == e.kind # ""
OOM == Err("OutOfModel", "")          \* result outside the modelled number domain

Limit == 1073741824                    \* |results| beyond this are OutOfModel (TLC integers are 32-bit)

(* ---- text of a number ------------------------------------------------------------------- *)
NumText(x) == IF x.k = "num" THEN ToString(x.v)
              ELSE CASE x.v = "inf" -> "inf" [] x.v = "-inf" -> "-inf" [] x.v = "nan" -> "NaN" [] x.v = "-0" -> "-0"

(* ---- arithmetic on num/flt --------------------------------------------------------------- *)
Sign(x) == IF x.k = "num" THEN (IF x.v > 0 THEN 1 ELSE IF x.v < 0 THEN -1 ELSE 0)
           ELSE CASE x.v = "inf" -> 1 [] x.v = "-inf" -> -1 [] x.v = "nan" -> 0 [] x.v = "-0" -> 0
IsNaN(x) == x.k = "flt" /\ x.v = "nan"
IsInf(x) == x.k = "flt" /\ x.v \in {"inf", "-inf"}
IsZero(x) == (x.k = "num" /\ x.v = 0) \/ (x.k = "flt" /\ x.v = "-0")
NegZero(x) == x.k = "flt" /\ x.v = "-0"
Fin(x) == IF x.k = "num" THEN x.v ELSE 0           \* finite payload (-0 counts as 0)
Ok(v) == [v |-> v, err |-> NoErr]
Bad(e) == [v |-> Nil, err |-> e]
Clip(n) == IF n > Limit \/ n < -Limit THEN Bad(OOM) ELSE Ok(N(n))
Inf(s) == F(IF s >= 0 THEN "inf" ELSE "-inf")

Neg(x) == IF x.k = "num" THEN (IF x.v = 0 THEN F("-0") ELSE N(-x.v))
          ELSE CASE x.v = "inf" -> F("-inf") [] x.v = "-inf" -> F("inf") [] x.v = "nan" -> F("nan") [] x.v = "-0" -> N(0)

AddNum(a, b) ==
    IF IsNaN(a) \/ IsNaN(b) THEN Ok(F("nan"))
    ELSE IF IsInf(a) /\ IsInf(b) THEN (IF a.v = b.v THEN Ok(a) ELSE Ok(F("nan")))
    ELSE IF IsInf(a) THEN Ok(a) ELSE IF IsInf(b) THEN Ok(b)
    ELSE IF NegZero(a) /\ NegZero(b) THEN Ok(F("-0"))
    ELSE Clip(Fin(a) + Fin(b))
SubNum(a, b) == AddNum(a, Neg(b))     \* IEEE: a - b = a + (-b), including the sign of zero
MulNum(a, b) ==
    IF IsNaN(a) \/ IsNaN(b) THEN Ok(F("nan"))
    ELSE IF (IsInf(a) /\ IsZero(b)) \/ (IsZero(a) /\ IsInf(b)) THEN Ok(F("nan"))
    ELSE IF IsInf(a) \/ IsInf(b) THEN Ok(Inf(Sign(a) * Sign(b)))
    ELSE IF IsZero(a) \/ IsZero(b) THEN
         \* sign of a zero product: negative iff exactly one operand is negative (sign bit)
         LET na == NegZero(a) \/ Sign(a) < 0
             nb == NegZero(b) \/ Sign(b) < 0
         IN Ok(IF na # nb THEN F("-0") ELSE N(0))
    ELSE Clip(Fin(a) * Fin(b))
DivNum(a, b) ==
    IF IsNaN(a) \/ IsNaN(b) THEN Ok(F("nan"))
    ELSE IF IsInf(a) /\ IsInf(b) THEN Ok(F("nan"))
    ELSE IF IsZero(a) /\ IsZero(b) THEN Ok(F("nan"))
    ELSE LET na == NegZero(a) \/ Sign(a) < 0
             nb == NegZero(b) \/ Sign(b) < 0
         IN IF IsInf(a) THEN Ok(Inf(IF na # nb THEN -1 ELSE 1))
            ELSE IF IsInf(b) \/ IsZero(a) THEN Ok(IF na # nb THEN F("-0") ELSE N(0))
            ELSE IF IsZero(b) THEN Ok(Inf(IF na # nb THEN -1 ELSE 1))
            ELSE LET x == Fin(a) y == Fin(b)
                     ax == IF x < 0 THEN -x ELSE x
                     ay == IF y < 0 THEN -y ELSE y
                 IN IF ax % ay = 0 THEN Ok(N((IF na # nb THEN -1 ELSE 1) * (ax \div ay))) ELSE Bad(OOM)
ModNum(a, b) ==                        \* f64 `%`: truncated remainder, sign of the dividend
    IF IsNaN(a) \/ IsNaN(b) \/ IsInf(a) \/ IsZero(b) THEN Ok(F("nan"))
    ELSE IF IsInf(b) THEN Ok(a)
    ELSE IF IsZero(a) THEN Ok(a)
    ELSE LET x == Fin(a) y == Fin(b)
             ax == IF x < 0 THEN -x ELSE x
             ay == IF y < 0 THEN -y ELSE y
             r == ax % ay
         IN IF r = 0 THEN Ok(IF x < 0 THEN F("-0") ELSE N(0)) ELSE Ok(N(IF x < 0 THEN -r ELSE r))

LessNum(a, b) ==
    IF IsNaN(a) \/ IsNaN(b) THEN FALSE
    ELSE IF IsInf(a) \/ IsInf(b) THEN
         (IF a.k = "flt" /\ b.k = "flt" /\ a.v = b.v THEN FALSE
          ELSE IF IsInf(a) THEN a.v = "-inf" ELSE b.v = "inf")
    ELSE Fin(a) < Fin(b)
EqNum(a, b) == IF IsNaN(a) \/ IsNaN(b) THEN FALSE
               ELSE IF IsInf(a) \/ IsInf(b) THEN a = b
               ELSE Fin(a) = Fin(b)

(* `as i64` of a double: saturating, NaN -> 0 ; back to double *)
I64Sat == 2147483647                   \* stands for i64::MAX inside the model: results using it are OOM
ToI(x) == IF x.k = "num" THEN x.v ELSE CASE x.v = "inf" -> I64Sat [] x.v = "-inf" -> -I64Sat [] OTHER -> 0
SatOOM(x) == IsInf(x)                  \* the exact i64 value is not representable in the model

RECURSIVE BitAnd(_, _), BitOr(_, _), BitXor(_, _)
BitAnd(x, y) == IF x = 0 \/ y = 0 THEN 0 ELSE (x % 2) * (y % 2) + 2 * BitAnd(x \div 2, y \div 2)
BitOr(x, y)  == IF x = 0 THEN y ELSE IF y = 0 THEN x
                ELSE (IF (x % 2) + (y % 2) > 0 THEN 1 ELSE 0) + 2 * BitOr(x \div 2, y \div 2)
BitXor(x, y) == IF x = 0 THEN y ELSE IF y = 0 THEN x
                ELSE (((x % 2) + (y % 2)) % 2) + 2 * BitXor(x \div 2, y \div 2)
RECURSIVE Pow2(_)
Pow2(n) == IF n = 0 THEN 1 ELSE 2 * Pow2(n - 1)

(* two's complement identities let negative operands be reduced to non-negative ones:
   ~x = -x-1 ; x & y, x | y, x ^ y with negatives via De Morgan on the complements *)
NotI(x) == -x - 1
AndI(x, y) == IF x >= 0 /\ y >= 0 THEN BitAnd(x, y)
              ELSE IF x < 0 /\ y < 0 THEN NotI(BitOr(NotI(x), NotI(y)))
              ELSE IF x < 0 THEN BitAnd(y, y) - BitAnd(NotI(x), y)        \* y & ~(~x) = y - (y & ~x')
              ELSE BitAnd(x, x) - BitAnd(NotI(y), x)
OrI(x, y)  == IF x >= 0 /\ y >= 0 THEN BitOr(x, y) ELSE NotI(AndI(NotI(x), NotI(y)))
XorI(x, y) == IF x >= 0 /\ y >= 0 THEN BitXor(x, y)
              ELSE IF x < 0 /\ y < 0 THEN BitXor(NotI(x), NotI(y))
              ELSE IF x < 0 THEN NotI(BitXor(NotI(x), y)) ELSE NotI(BitXor(x, NotI(y)))

BitOp(op, a, b) ==                    \* ((a as i64) op (b as i64)) as f64
    IF SatOOM(a) \/ SatOOM(b) THEN Bad(OOM)
    ELSE LET x == ToI(a) y == ToI(b) IN
         CASE op = "&" -> Ok(N(AndI(x, y)))
           [] op = "|" -> Ok(N(OrI(x, y)))
           [] op = "^" -> Ok(N(XorI(x, y)))
           [] op = "<<" -> \* checked_shl(b as u32): `as u32` saturates (negative -> 0); shift >= 64 gives 0
                 IF y < 0 THEN Ok(N(x)) ELSE IF y >= 64 THEN Ok(N(0))
                 ELSE IF y > 20 \/ x > 1024 \/ x < -1024 THEN Bad(OOM) ELSE Clip(x * Pow2(y))
           [] op = ">>" ->
                 IF y < 0 THEN Ok(N(x)) ELSE IF y >= 64 THEN Ok(N(0))
                 ELSE IF y > 30 THEN Ok(N(IF x < 0 THEN -1 ELSE 0))
                 ELSE Ok(N(IF x >= 0 THEN x \div Pow2(y) ELSE -(((-x) + Pow2(y) - 1) \div Pow2(y))))   \* arithmetic shift = floor

ArithErr == Err("TypeError", "Binary operands must both be numbers.")
AddErr   == Err("TypeError", "Binary operands must be two numbers or two strings.")
UnaryErr == Err("TypeError", "Unary operand must be a number.")

(* binary operators that need no heap access (== and indexing live in the machine) *)
BinNum(op, a, b) ==
    IF op = "+" THEN
         (IF IsStr(a) /\ IsStr(b) THEN Ok(S(a.v \o b.v))
          ELSE IF IsNum(a) /\ IsNum(b) THEN AddNum(a, b) ELSE Bad(AddErr))
    ELSE IF ~(IsNum(a) /\ IsNum(b)) THEN Bad(ArithErr)
    ELSE CASE op = "-" -> SubNum(a, b)
           [] op = "*" -> MulNum(a, b)
           [] op = "/" -> DivNum(a, b)
           [] op = "%" -> ModNum(a, b)
           [] op = "<" -> Ok(B(LessNum(a, b)))
           [] op = ">" -> Ok(B(LessNum(b, a)))
           [] op = "<=" -> Ok(B(~LessNum(b, a)))      \* compiled as !(a > b): true for NaN operands
           [] op = ">=" -> Ok(B(~LessNum(a, b)))      \* compiled as !(a < b)
           [] op \in {"&", "|", "^", "<<", ">>"} -> BitOp(op, a, b)

UnNum(op, a) ==
    CASE op = "!" -> Ok(B(~Truthy(a)))
      [] op = "-" -> IF IsNum(a) THEN Ok(Neg(a)) ELSE Bad(UnaryErr)
      [] op = "~" -> IF ~IsNum(a) THEN Bad(UnaryErr)
                     ELSE IF SatOOM(a) THEN Bad(OOM) ELSE Ok(N(NotI(ToI(a))))

(* utils::validate_integer *)
IntErrT(txt) == Err("TypeError", "Expected an integer value but found '" \o txt \o "'.")
IntErrV(txt) == Err("ValueError", "Expected an integer value but found '" \o txt \o "'.")
=============================================================================
