----------------------------- MODULE StackBudget -----------------------------
(* C02 - exhausted call depth and value-stack space are REPORTED, never overrun.

   One fiber of the VM as the call protocol sees it: `frames` call frames (object.rs: at most FramesMax)
   over one value stack of SlotsMax slots (stack.rs; LOCALS_MAX * FRAMES_MAX).  A program of the limit
   family is a chain of `depth` nested calls of one function that holds `w` locals and keeps `t`
   temporaries alive across the nested call; every call needs 2 + w + t slots (callee, argument, locals,
   temporaries).

   call_closure checks the FRAME budget and raises IndexError "Stack overflow." (catchable).  The property
   demands the same for the SLOT budget; the code has no such check (push is unchecked in optimised builds
   and panics in checked builds) - the recorded finding `value-stack-overrun-with-wide-frames`.  The
   specification is written as built: CheckSlots = FALSE reaches status "overrun", and the invariant
   SlotsRespected fails there (TLC's counterexample is the finding's input); with CheckSlots = TRUE (the
   ideal) it holds.  The behaviours' terminal states are the predicted outcomes replayed on the VM. *)
EXTENDS Naturals, TLC, Json
CONSTANTS FramesMax, SlotsMax, Widths, Temps, Depths, CheckSlots,
          Nests, SafeNest, UnsafeNest,    \* nesting depths of data; what the host stack certainly carries / certainly does not
          FiberNests                      \* depths of fibers calling fibers
VARIABLES frames, slots, left, w, t, depth, status
vars == <<frames, slots, left, w, t, depth, status>>

Need == 2 + w + t
Init == /\ w \in Widths /\ t \in Temps /\ depth \in Depths
        /\ frames = 1 /\ slots = 1 /\ left = depth /\ status = "run"      \* the script's own frame and closure slot
Call == /\ status = "run" /\ left > 0
        /\ IF frames = FramesMax THEN status' = "frame-limit" /\ UNCHANGED <<frames, slots, left>>
           ELSE IF CheckSlots /\ slots + Need > SlotsMax THEN status' = "slot-limit" /\ UNCHANGED <<frames, slots, left>>
           ELSE /\ frames' = frames + 1 /\ slots' = slots + Need /\ left' = left - 1
                /\ status' = IF slots + Need > SlotsMax THEN "overrun" ELSE "run"
        /\ UNCHANGED <<w, t, depth>>
Return == /\ status = "run" /\ left = 0 /\ status' = "done" /\ UNCHANGED <<frames, slots, left, w, t, depth>>
Next == Call \/ Return
Spec == Init /\ [][Next]_vars

FramesRespected == frames <= FramesMax
SlotsRespected == slots <= SlotsMax /\ status # "overrun"
Terminal == status # "run"
(* how close the run came to the slot budget: cases within Margin of it are not replayed (the exact
   number of transient slots an expression needs is not part of this model) *)
Margin == 300
Clear == (slots + Margin < SlotsMax) \/ (status = "overrun" /\ slots > SlotsMax + Margin)
(* Printing, comparing, hashing and tracing a value recurse over its nesting on the HOST stack.  The property
   demands a reported error (or success) at any depth; the code recurses without a bound - the recorded finding
   `deeply-nested-data-overflows-native-stack`.  Depths up to SafeNest must simply work. *)
NestOutcome(n) == IF n <= SafeNest THEN "done" ELSE IF n >= UnsafeNest THEN "native-overflow" ELSE "unclear"
(* A fiber has frames and slots of its own: a fiber that calls another fiber spends nothing of its budget beyond the frame it is
   in, so fibers nest to any depth (memory permitting) - there is no bound to report - and a run that dies inside nested fibers
   leaves no count behind: after any number of such runs the interpreter still nests fibers to any depth. *)
FiberNestOutcome(n) == "done"
EmitNests == (frames = 1 /\ status = "run" /\ w = (CHOOSE x \in Widths : TRUE) /\ t = (CHOOSE x \in Temps : TRUE) /\ depth = (CHOOSE x \in Depths : TRUE)) =>
                /\ \A n \in Nests : PrintT(<<"NEST", ToJson([nest |-> n, status |-> NestOutcome(n)])>>)
                /\ \A n \in FiberNests : PrintT(<<"FNEST", ToJson([nest |-> n, status |-> FiberNestOutcome(n)])>>)
Emit == Terminal => PrintT(<<"LIMIT", ToJson([w |-> w, t |-> t, depth |-> depth, status |-> status, frames |-> frames, slots |-> slots, clear |-> Clear])>>)
=============================================================================
