SPECIFICATION Spec
CONSTANT N = 2
INVARIANT EmitGen
CHECK_DEADLOCK FALSE
