------------------------------ MODULE StrIdent ------------------------------
(* C11 inside programs: strings are VALUES - two strings with the same bytes are the same string no matter
   how each was produced (literal, concatenation at any split point, slice of a longer string at any byte
   offset, interpolation, a piece of a split, replace, from_utf8, character-wise rebuild), and strings that
   differ in one byte are different.  The interner (InternTable.tla) guarantees this only if every producer
   hands it the same (hash, bytes) for the same bytes; this module enumerates producer pairs x lengths around
   the word / block sizes a hash function might treat specially x misalignments, with the expected verdict. *)
EXTENDS Naturals, Sequences, TLC, Json
CONSTANTS Lens, Offs, Routes,
          LongLens, LongOffs     \* lengths around the sizes a length field or a "short string" fast path might treat specially (255/256/257, 1024, 4097, 65536)
VARIABLE icase

Content(len, variant) == [i \in 1..len |-> 97 + ((i * 7 + (IF i = len THEN variant ELSE 0)) % 26)]
Cases == {[len |-> l, r1 |-> a, r2 |-> b, o1 |-> x, o2 |-> y, same |-> s] :
             l \in Lens, a \in Routes, b \in Routes, x \in Offs, y \in Offs, s \in BOOLEAN}
         \cup {[len |-> l, r1 |-> a, r2 |-> b, o1 |-> x, o2 |-> y, same |-> s] :
             l \in LongLens, a \in Routes, b \in Routes, x \in LongOffs, y \in LongOffs, s \in BOOLEAN}
Wanted(c) == c.len > 0 \/ c.same        \* two empty strings cannot differ
Bytes1(c) == Content(c.len, 0)
Bytes2(c) == Content(c.len, IF c.same THEN 0 ELSE 1)
Init == icase \in {c \in Cases : Wanted(c)}
Next == UNCHANGED icase
Spec == Init /\ [][Next]_icase
(* the property: the verdict of ==, and of a map lookup, is exactly byte equality *)
Verdict(c) == Bytes1(c) = Bytes2(c)
VerdictIsSame == Verdict(icase) = icase.same
Emit == PrintT(<<"IDENT", ToJson([c |-> icase, b1 |-> Bytes1(icase), b2 |-> Bytes2(icase), equal |-> Verdict(icase)])>>)
=============================================================================
