------------------------------- MODULE MC_Gen -------------------------------
(* Generator + reference machine: every behaviour is one program (generated token by token)
   followed by its complete execution.  Exhaustive mode visits every program of the profile
   within the token budget; simulation mode visits random ones.                            *)
EXTENDS Gen, Machine

(* Records compare field by field in the order in which TLC first met the field names; values
   are [k, v] records whose kind must be compared before the payload.  The root module is read
   first, so naming k before v here fixes the order (checked by the ASSUME in Values.tla). *)
FieldOrder == [k |-> 0, v |-> 0]
VARIABLES g, m, phase
vars == <<g, m, phase>>

Init == g = InitGen /\ m = InitMachine(<<>>) /\ phase = "gen"

GenStep == /\ phase = "gen"
           /\ \E g2 \in GenSucc(g) : g' = g2
           /\ UNCHANGED <<m, phase>>
Start   == /\ phase = "gen" /\ Complete(g)
           /\ phase' = "run" /\ m' = InitMachine(g.toks) /\ g' = InitGen
RunStep == /\ phase = "run" /\ m.status = "run" /\ m.n < MaxSteps
           /\ m' = Step(m)
           /\ UNCHANGED <<g, phase>>
Next == GenStep \/ Start \/ RunStep
Spec == Init /\ [][Next]_vars

Finished == phase = "run" /\ (m.status = "done" \/ m.n >= MaxSteps)
EmitRun == Finished =>
    PrintT(<<"RUN", ToJson([prog |-> SubSeq(m.prog, m.segs[2].lo, m.segs[2].hi), out |-> m.out, result |-> m.result, trig |-> m.trig, oom |-> m.oom,
                            done |-> m.status = "done", steps |-> m.n,
                            heap |-> IF m.status = "done" /\ ~m.oom THEN LiveCounts(m) ELSE [exact |-> FALSE]])>>)
(* the reference semantics is total: it never gets stuck *)
NotStuck == ~(phase = "run" /\ m.status = "done" /\ m.result.kind = "Stuck")
=============================================================================
