--------------------------------- MODULE Gen ---------------------------------
(* Program generator: a pushdown automaton that appends one structured token per step.

   The generator does what the single-pass compiler does for names: it keeps the static scope
   stack (per function: a stack of block scopes of <<name, declaration id>>), gives every local
   declaration a fresh id, and writes into each variable node the id of the innermost
   declaration that textually precedes the use (0 = module global).  Guards prune only waste:
   no statement directly after an unconditional break / continue / return / throw in the same
   block, `else` / `catch` / `finally` only where the grammar allows them, loops bounded by a
   hidden counter.  A profile is a vocabulary (set of statement and expression forms) and a
   token budget.                                                                             *)
EXTENDS Values

CONSTANTS Vocab,          \* set of strings: statement / expression forms the profile may use
          Budget,         \* maximal number of tokens
          ExprBudget,     \* maximal number of nodes of an expression built by the operator profile
          Names,          \* variable names
          FnNames         \* function names

(* generator state *)
InitGen == [toks |-> <<>>,
            open |-> <<>>,                 \* stack of open constructs: [c, dead]
            funcs |-> << <<<<>>>> >>,      \* stack of functions; each a stack of scopes; each a seq of <<name, decl, kind>>
            next |-> 1,                    \* next declaration id
            dead |-> FALSE,                \* the current block cannot continue (after break/return/...)
            es |-> <<>>,                   \* expression under construction (operator profile), RPN stack
            esize |-> 0,
            lamc |-> <<0>>,                \* per open function: lambdas compiled so far (they are named lambda-N)
            nloop |-> 0,
            nfib |-> 0]

GTop(s) == s[Len(s)]
GPop(s) == SubSeq(s, 1, Len(s) - 1)

AtScriptTop(g) == Len(g.funcs) = 1 /\ Len(g.funcs[1]) = 1

(* resolve a name: innermost declaration preceding the use, through enclosing functions *)
RECURSIVE FindInScope(_, _, _), FindInFunc(_, _, _), FindInFuncs(_, _, _)
FindInScope(sc, x, i) == IF i = 0 THEN <<0, "">> ELSE IF sc[i][1] = x THEN <<sc[i][2], sc[i][3]>> ELSE FindInScope(sc, x, i - 1)
FindInFunc(f, x, j) ==
    IF j = 0 THEN <<0, "">>
    ELSE LET r == FindInScope(f[j], x, Len(f[j])) IN IF r[1] # 0 THEN r ELSE FindInFunc(f, x, j - 1)
FindInFuncs(fs, x, i) ==
    IF i = 0 THEN <<0, "">>
    ELSE LET r == FindInFunc(fs[i], x, Len(fs[i])) IN IF r[1] # 0 THEN r ELSE FindInFuncs(fs, x, i - 1)
Resolve(g, x) == FindInFuncs(g.funcs, x, Len(g.funcs))[1]

(* names declared so far and what they are ("var" | "fn"), locals first then globals *)
LocalNames(g) == UNION {UNION {{<<s[i][1], s[i][3]>> : i \in 1..Len(s)} : s \in {f[j] : j \in 1..Len(f)}} : f \in {g.funcs[k] : k \in 1..Len(g.funcs)}}
FiberNames == {"fb0", "fb1", "fb2"}          \* variables that hold fibers (profile "fiber") are told apart by their names
GlobalNames(g) == {<<g.toks[i].x, IF g.toks[i].t = "fn" THEN "fn" ELSE IF g.toks[i].x \in FiberNames THEN "fiber" ELSE "var">> :
                     i \in {j \in 1..Len(g.toks) : g.toks[j].t \in {"var", "fn"} /\ g.toks[j].d = 0}}
Known(g) == LocalNames(g) \cup GlobalNames(g)
VarsKnown(g) == {p[1] : p \in {q \in Known(g) : q[2] = "var"}}
FnsKnown(g)  == {p[1] : p \in {q \in Known(g) : q[2] = "fn"}}
FibersKnown(g) == {p[1] : p \in {q \in Known(g) : q[2] = "fiber"}}

V(g, x) == [k |-> "var", x |-> x, d |-> Resolve(g, x)]
L(v) == [k |-> "lit", v |-> v]
Bin(op, l, r) == [k |-> "bin", op |-> op, l |-> l, r |-> r]
CallE(f, args) == [k |-> "call", f |-> f, args |-> args]
Inv(o, mth, args) == [k |-> "inv", o |-> o, m |-> mth, args |-> args]
FiberCls == [k |-> "var", x |-> "Fiber", d |-> 0]
Pos(g) == Len(g.toks) + 1

LamName(g) == "lambda-" \o ToString(g.lamc[Len(g.lamc)])
RECURSIVE CountLams(_)
CountLams(e) ==
    CASE e.k = "lam" -> 1
      [] e.k = "bin" -> CountLams(e.l) + CountLams(e.r)
      [] e.k = "call" -> CountLams(e.f) + (IF e.args = <<>> THEN 0 ELSE CountLams(e.args[1]))
      [] e.k = "assign" -> CountLams(e.e)
      [] OTHER -> 0

(* ---- expression choices (kept small: every step has few alternatives) ---------------------- *)
(* fibers: resume a fiber held in a variable (with / without a value), ask whether it has finished, and - inside a function,
   which may or may not be running as a fiber's body when it is called - yield (with / without a value) *)
FiberExprs(g) ==
    IF "fiber" \notin Vocab THEN {}
    ELSE {Inv(V(g, x), "call", <<>>) : x \in FibersKnown(g)}
    \cup {Inv(V(g, x), "call", <<L(N(Pos(g)))>>) : x \in FibersKnown(g)}
    \cup {Inv(V(g, x), "has_finished", <<>>) : x \in FibersKnown(g)}
    \cup (IF \E i \in 1..Len(g.open) : g.open[i].c = "fn"
          THEN {Inv(FiberCls, "yield", <<>>), Inv(FiberCls, "yield", <<L(N(Pos(g)))>>)} \cup {Inv(FiberCls, "yield", <<V(g, x)>>) : x \in VarsKnown(g)}
          ELSE {})
Atoms(g) == {L(N(Pos(g)))} \cup {V(g, x) : x \in VarsKnown(g)}
Simple(g) == Atoms(g)
           \cup (IF "arith" \in Vocab THEN {Bin("+", V(g, x), L(N(1))) : x \in VarsKnown(g)} ELSE {})
           \cup (IF "call" \in Vocab THEN {CallE(V(g, f), <<>>) : f \in FnsKnown(g)} \cup
                                          {CallE(V(g, x), <<>>) : x \in VarsKnown(g)} ELSE {})
           \cup (IF "call1" \in Vocab THEN {CallE(V(g, f), <<a>>) : f \in FnsKnown(g), a \in Atoms(g)} ELSE {})
           \cup (IF "lam" \in Vocab THEN
                   \* a closure over one visible variable: reads it, or writes it
                   {[k |-> "lam", ps |-> <<>>, e |-> V(g, x), name |-> LamName(g)] : x \in VarsKnown(g)} \cup
                   {[k |-> "lam", ps |-> <<>>, e |-> [k |-> "assign", x |-> x, d |-> Resolve(g, x), e |-> Bin("+", V(g, x), L(N(10)))],
                     name |-> LamName(g)] : x \in VarsKnown(g)}
                 ELSE {})
           \cup FiberExprs(g)
Conds(g) == {L(B(TRUE)), L(B(FALSE))} \cup {Bin("<", V(g, x), L(N(2))) : x \in VarsKnown(g)}

(* does expression e mention name x (as written, whatever it resolves to) *)
RECURSIVE Mentions(_, _)
Mentions(e, x) ==
    CASE e.k = "lit" -> FALSE
      [] e.k = "var" -> e.x = x
      [] e.k = "bin" -> Mentions(e.l, x) \/ Mentions(e.r, x)
      [] e.k = "call" -> Mentions(e.f, x) \/ (\E i \in 1..Len(e.args) : Mentions(e.args[i], x))
      [] e.k = "lam" -> Mentions(e.e, x)
      [] e.k = "assign" -> e.x = x \/ Mentions(e.e, x)
      [] e.k = "inv" -> Mentions(e.o, x) \/ (\E i \in 1..Len(e.args) : Mentions(e.args[i], x))
      [] OTHER -> FALSE

(* ---- scope bookkeeping --------------------------------------------------------------------- *)
PushScope(g) == [g EXCEPT !.funcs[Len(g.funcs)] = Append(GTop(g.funcs), <<>>)]
PopScope(g)  == [g EXCEPT !.funcs[Len(g.funcs)] = GPop(GTop(g.funcs))]
DeclId(g) == IF AtScriptTop(g) THEN 0 ELSE g.next
Declare(g, x, kind) ==
    IF AtScriptTop(g) THEN g
    ELSE LET f == GTop(g.funcs) IN
         [g EXCEPT !.funcs[Len(g.funcs)][Len(f)] = Append(GTop(f), <<x, g.next, kind>>), !.next = g.next + 1]
DeclaredHere(g, x) == \E i \in 1..Len(GTop(GTop(g.funcs))) : GTop(GTop(g.funcs))[i][1] = x
Emit(g, tok) == [g EXCEPT !.toks = Append(g.toks, tok),
                          !.lamc[Len(g.lamc)] = @ + (IF "e" \in DOMAIN tok THEN CountLams(tok.e) ELSE 0)]
Open(g, c) == [g EXCEPT !.open = Append(g.open, [c |-> c, dead |-> g.dead]), !.dead = FALSE]

InLoop(g) ==        \* a loop is open in the current function
    LET RECURSIVE Look(_)
        Look(i) == IF i = 0 THEN FALSE ELSE IF g.open[i].c = "fn" THEN FALSE
                   ELSE IF g.open[i].c \in {"while", "for"} THEN TRUE ELSE Look(i - 1)
    IN Look(Len(g.open))
InFn(g) == \E i \in 1..Len(g.open) : g.open[i].c = "fn"
Room(g, n) == Len(g.toks) + Len(g.open) + n <= Budget      \* every open construct still needs its `end`

(* ---- one generator step: the set of successor generator states ----------------------------- *)
Stmts(g) ==
    IF g.dead THEN {} ELSE
      (IF "print" \in Vocab /\ Room(g, 1) THEN {Emit(g, [t |-> "print", e |-> e]) : e \in Simple(g)} ELSE {})
 \cup (IF "var" \in Vocab /\ Room(g, 1) THEN
         \* inside a block the new variable is already declared (uninitialised) while its initialiser
         \* is compiled, so the initialiser cannot mention it; at the top level it names the global
         {Emit(Declare(g, q[1], "var"), [t |-> "var", x |-> q[1], d |-> DeclId(g), e |-> q[2]]) :
            q \in {r \in {y \in Names : ~DeclaredHere(g, y)} \X Simple(g) : AtScriptTop(g) \/ ~Mentions(r[2], r[1])}} ELSE {})
 \cup (IF "set" \in Vocab /\ Room(g, 1) THEN
         {Emit(g, [t |-> "expr", e |-> [k |-> "assign", x |-> q[1], d |-> Resolve(g, q[1]), e |-> q[2]]]) :
            q \in {r \in VarsKnown(g) \X Simple(g) : r[2] # V(g, r[1])}} ELSE {})
 \cup (IF "exprstmt" \in Vocab /\ Room(g, 1) THEN
         {Emit(g, [t |-> "expr", e |-> e]) : e \in {s \in Simple(g) : s.k \in {"call", "inv"}}} ELSE {})
 \cup (IF "fiber" \in Vocab /\ Room(g, 1) /\ g.nfib < 2 THEN
         \* var fbN = Fiber.new(f);   f: a function declared so far (its arity 0 or 1 decides how the first call must look)
         {LET x == "fb" \o ToString(g.nfib) IN
          [Emit(Declare(g, x, "fiber"), [t |-> "var", x |-> x, d |-> DeclId(g), e |-> Inv(FiberCls, "new", <<V(g, f)>>)]) EXCEPT !.nfib = g.nfib + 1]
          : f \in FnsKnown(g)} ELSE {})
 \cup (IF "if" \in Vocab /\ Room(g, 3) THEN {Open(PushScope(Emit(g, [t |-> "if", e |-> c])), "if") : c \in Conds(g)} ELSE {})
 \cup (IF "block" \in Vocab /\ Room(g, 3) THEN {Open(PushScope(Emit(g, [t |-> "block"])), "block")} ELSE {})
 \cup (IF "while" \in Vocab /\ Room(g, 5) THEN
         \* bounded loop:  var iN = 0; while iN < 2 { iN = iN + 1; ...
         LET x == "i" \o ToString(g.nloop)
             g1 == Emit(Declare(g, x, "ctr"), [t |-> "var", x |-> x, d |-> DeclId(g), e |-> L(N(0))])
             g2 == PushScope(Emit(g1, [t |-> "while", e |-> Bin("<", V(g1, x), L(N(2)))]))
             g3 == Emit(g2, [t |-> "expr", e |-> [k |-> "assign", x |-> x, d |-> Resolve(g2, x), e |-> Bin("+", V(g2, x), L(N(1)))]])
         IN {[Open(g3, "while") EXCEPT !.nloop = g.nloop + 1]}
       ELSE {})
 \cup (IF "for" \in Vocab /\ Room(g, 3) THEN
         \* for x in <small iterable> {   - the loop variable lives in a scope of its own around the body
         {LET g1 == PushScope(g)
              g2 == Declare(g1, q[1], "var")
              g3 == PushScope(Emit(g2, [t |-> "for", x |-> q[1], d |-> g1.next, e |-> q[2]]))
          IN Open(g3, "for")
          : q \in {r \in Names \X ({[k |-> "range", l |-> L(N(0)), r |-> L(N(2))], [k |-> "range", l |-> L(N(2)), r |-> L(N(0))],
                                    [k |-> "vec", es |-> <<L(N(Pos(g))), L(S("s"))>>], [k |-> "tup", es |-> <<>>]}
                                   \cup {V(g, y) : y \in VarsKnown(g)}) : ~Mentions(r[2], r[1])}}
       ELSE {})
 \cup (IF "break" \in Vocab /\ InLoop(g) /\ Room(g, 1) THEN {[Emit(g, [t |-> "break"]) EXCEPT !.dead = TRUE]} ELSE {})
 \cup (IF "continue" \in Vocab /\ InLoop(g) /\ Room(g, 1) THEN {[Emit(g, [t |-> "continue"]) EXCEPT !.dead = TRUE]} ELSE {})
 \cup (IF "throw" \in Vocab /\ Room(g, 1) THEN {[Emit(g, [t |-> "throw", e |-> e]) EXCEPT !.dead = TRUE] : e \in Atoms(g)} ELSE {})
 \cup (IF "return" \in Vocab /\ InFn(g) /\ Room(g, 1) THEN {[Emit(g, [t |-> "return", e |-> e]) EXCEPT !.dead = TRUE] : e \in Simple(g)} ELSE {})
 \cup (IF "try" \in Vocab /\ Room(g, 4) THEN {Open(PushScope(Emit(g, [t |-> "try"])), "try")} ELSE {})
 \cup (IF "fn" \in Vocab /\ Room(g, 3) /\ Len(g.funcs) < 3 THEN
         {LET g1 == Declare(g, f, "fn")
              d == DeclId(g)
              g2 == [g1 EXCEPT !.funcs = Append(g1.funcs, << <<>> >>), !.lamc = Append(g1.lamc, 0)]
              g3 == IF np = 0 THEN g2 ELSE Declare(g2, "p", "var")
              ps == IF np = 0 THEN <<>> ELSE <<[x |-> "p", d |-> g2.next]>>
          IN Open(Emit(g3, [t |-> "fn", x |-> f, d |-> d, ps |-> ps]), "fn")
          : f \in {h \in FnNames : ~DeclaredHere(g, h) /\ h \notin FnsKnown(g)}, np \in (IF "call1" \in Vocab THEN {0, 1} ELSE {0})}
       ELSE {})

(* closing / continuing the innermost open construct *)
Closers(g) ==
    IF g.open = <<>> THEN {}
    ELSE LET o == GTop(g.open)
             body == Len(g.toks) > 0
             lastTok == g.toks[Len(g.toks)].t
             close == [g EXCEPT !.open = GPop(g.open), !.dead = o.dead]
         IN
         (IF o.c \in {"if", "else", "block", "while", "catch", "finally"} THEN
             {Emit(PopScope(close), [t |-> "end"])} ELSE {})
    \cup (IF o.c = "for" THEN {Emit(PopScope(PopScope(close)), [t |-> "end"])} ELSE {})
    \cup (IF o.c = "fn" THEN {Emit([close EXCEPT !.funcs = GPop(g.funcs), !.lamc = GPop(g.lamc)], [t |-> "end"])} ELSE {})
    \cup (IF o.c = "if" /\ "else" \in Vocab /\ Room(g, 1) THEN
             {[PushScope(Emit(PopScope(g), [t |-> "else"])) EXCEPT !.open[Len(g.open)].c = "else", !.dead = FALSE]} ELSE {})
    \cup (IF o.c = "try" /\ "catch" \in Vocab /\ Room(g, 1) THEN
             {LET g1 == PushScope(PopScope(g))
                  g2 == Declare(g1, "e", "var")
              IN [Emit(g2, [t |-> "catch", x |-> "e", d |-> g1.next]) EXCEPT !.open[Len(g.open)].c = "catch", !.dead = FALSE]} ELSE {})
    \cup (IF o.c \in {"try", "catch"} /\ "finally" \in Vocab /\ Room(g, 1) THEN
             {[PushScope(Emit(PopScope(g), [t |-> "finally"])) EXCEPT !.open[Len(g.open)].c = "finally", !.dead = FALSE]} ELSE {})

(* ---- operator profile: expressions over every kind of value, built in reverse Polish order ---- *)
OpAtoms == {L(Nil), L(B(TRUE)), L(B(FALSE)), L(N(0)), L(N(1)), L(N(2)), L(N(7)), L(N(-1)), L(S("a")), L(S("")),
            [k |-> "vec", es |-> <<L(N(1))>>], [k |-> "tup", es |-> <<L(N(1))>>], [k |-> "range", l |-> L(N(0)), r |-> L(N(2))]}
BinOps == {"+", "-", "*", "/", "%", "<", ">", "<=", ">=", "==", "!=", "&", "|", "^", "<<", ">>"}
UnOps == {"-", "!", "~"}
Un(op, e) == [k |-> "un", op |-> op, e |-> e]
(* narrower vocabularies reach deeper trees exhaustively: all pairs of logical operators, all pairs of
   arithmetic / bitwise / comparison operators over three distinguishable numbers *)
SelAtoms == IF "ops-logic" \in Vocab THEN {L(Nil), L(B(FALSE)), L(N(0)), L(S("a")), L(S("b"))}
            ELSE IF "ops-arith" \in Vocab THEN {L(N(1)), L(N(2)), L(N(3))}
            ELSE OpAtoms
SelBin == IF "ops-logic" \in Vocab THEN {"=="}
          ELSE IF "ops-arith" \in Vocab THEN {"+", "-", "*", "%", "<", "==", "&", "|", "^", "<<"}
          ELSE BinOps
SelUn == IF "ops-logic" \in Vocab THEN {"!"} ELSE IF "ops-arith" \in Vocab THEN {"-"} ELSE UnOps
SelNodes == IF "ops-arith" \in Vocab THEN {"range"} ELSE IF "ops-logic" \in Vocab THEN {"and", "or"} ELSE {"and", "or", "range"}
ExprSteps(g) ==
    LET n == Len(g.es) IN
      (IF g.esize < ExprBudget THEN {[g EXCEPT !.es = Append(g.es, a), !.esize = g.esize + 1] : a \in SelAtoms} ELSE {})
 \cup (IF n >= 1 /\ g.esize < ExprBudget THEN
         {[g EXCEPT !.es[n] = Un(op, g.es[n]), !.esize = g.esize + 1] : op \in SelUn} ELSE {})
 \cup (IF n >= 2 /\ g.esize < ExprBudget THEN
         {[g EXCEPT !.es = Append(SubSeq(g.es, 1, n - 2), Bin(op, g.es[n - 1], g.es[n])), !.esize = g.esize + 1] : op \in SelBin}
         \cup {[g EXCEPT !.es = Append(SubSeq(g.es, 1, n - 2), [k |-> kk, l |-> g.es[n - 1], r |-> g.es[n]]), !.esize = g.esize + 1]
                : kk \in SelNodes}
       ELSE {})
 \cup (IF n = 1 THEN {[Emit(g, [t |-> "print", e |-> g.es[1]]) EXCEPT !.es = <<>>, !.esize = 0]} ELSE {})

GenSucc(g) == IF "ops" \in Vocab THEN (IF Len(g.toks) < Budget THEN ExprSteps(g) ELSE {})
              ELSE Stmts(g) \cup Closers(g)
Complete(g) == g.open = <<>> /\ Len(g.toks) > 0 /\ g.es = <<>>
=============================================================================
