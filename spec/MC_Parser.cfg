SPECIFICATION Spec
INVARIANT EmitParse
CHECK_DEADLOCK FALSE
