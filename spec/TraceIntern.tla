------------------------------ MODULE TraceIntern ------------------------------
(* Trace validation for the real interning path: every call of Vm::new_gc_obj_string logs
   (low 20 bits of the FNV hash, text, probe result index, hit, capacity, size) *before* it
   touches the table.  Each event must be explained by InternTable!Intern from the state the
   specification has reached, with every logged field equal to what the specification computes. *)
EXTENDS InternTable, IOUtils

Rec == TLCEval(ndJsonDeserialize(IOEnv.TRACE))
TraceKeys == TLCEval({<<Rec[i].h, Rec[i].text>> : i \in 1..Len(Rec)})

VARIABLE l
tvars == <<vars, l>>

TraceInit == Init /\ l = 1

TraceStep ==
    /\ l <= Len(Rec)
    /\ LET r == Rec[l]
           k == <<r.h, r.text>>
           idx == FindIndex(entries, k)
       IN /\ r.idx = idx
          /\ r.hit = (entries[idx + 1] # None)
          /\ r.cap = Len(entries)
          /\ r.size = size
          /\ Intern(k)
    /\ l' = l + 1

TraceSpec == TraceInit /\ [][TraceStep]_tvars

(* cheap invariants at every step, the quadratic ones every 128 events and at the end *)
TraceInv == /\ AlwaysAHole
            /\ ((l % 64 = 0 \/ l = Len(Rec) + 1) => SizeExact /\ Findable)

Accepted ==
    LET d == TLCGet("stats").diameter IN
    IF d - 1 = Len(Rec) THEN TRUE
    ELSE Print(<<"REJECT", d, IF d <= Len(Rec) THEN Rec[d] ELSE "end">>, FALSE)
=============================================================================
