SPECIFICATION Spec
CONSTANT MaxSteps = 400
INVARIANT Emit
CHECK_DEADLOCK FALSE
