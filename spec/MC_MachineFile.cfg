SPECIFICATION Spec
CONSTANT MaxSteps = 1500
INVARIANT Emit
CHECK_DEADLOCK FALSE
