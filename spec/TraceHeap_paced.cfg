SPECIFICATION Spec
CONSTANTS
  InitBudget = 65536
  Growth = 2
  Policy = "paced"
INVARIANT Pacing
POSTCONDITION Accepted
CHECK_DEADLOCK FALSE
PROPERTY RefinesPacing
