SPECIFICATION Spec
CONSTANTS
  Alphabet <- Lines
  MaxLen = 5
INVARIANTS ScanTerminates Emit
CHECK_DEADLOCK FALSE
