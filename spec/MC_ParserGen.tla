---------------------------- MODULE MC_ParserGen ----------------------------
(* TLC enumerates EVERY token sequence of up to N tokens over the full token vocabulary (one token per line, so the line of a token is its
   position), evaluates the parser twin on it - which proves the recogniser total on that space: an operator of Parser.tla that is undefined
   for some sequence stops TLC - and prints the sequence with the predicted outcome; the harness renders the texts, compiles, and compares. *)
EXTENDS Parser, Json
CONSTANT N
T(k, s) == [k |-> k, s |-> s]
Vocab == << T("LeftParen", "("), T("RightParen", ")"), T("LeftBrace", "{"), T("RightBrace", "}"), T("LeftBracket", "["), T("RightBracket", "]"),
            T("Comma", ","), T("Dot", "."), T("DotDot", ".."), T("Minus", "-"), T("MinusEqual", "-="), T("Plus", "+"), T("PlusEqual", "+="),
            T("Colon", ":"), T("SemiColon", ";"), T("Slash", "/"), T("SlashEqual", "/="), T("Star", "*"), T("StarEqual", "*="), T("Bang", "!"),
            T("BangEqual", "!="), T("Equal", "="), T("EqualEqual", "=="), T("Greater", ">"), T("GreaterEqual", ">="), T("Less", "<"),
            T("LessEqual", "<="), T("Amp", "&"), T("AmpEqual", "&="), T("Bar", "|"), T("BarEqual", "|="), T("Caret", "^"), T("CaretEqual", "^="),
            T("Percent", "%"), T("PercentEqual", "%="), T("GreaterGreater", ">>"), T("GreaterGreaterEqual", ">>="), T("LessLess", "<<"),
            T("LessLessEqual", "<<="), T("AmpAmp", "&&"), T("BarBar", "||"), T("Tilde", "~"), T("Hash", "#"), T("Identifier", "x"),
            T("Identifier", "y"), T("Identifier", "static"), T("Identifier", "constructor"), T("Identifier", "derive"), T("Number", "1"),
            T("CapSelf", "Self"), T("Catch", "catch"), T("Class", "class"), T("Else", "else"), T("False", "false"), T("Finally", "finally"),
            T("For", "for"), T("Fn", "fn"), T("If", "if"), T("Import", "import"), T("As", "as"), T("In", "in"), T("Nil", "nil"),
            T("Return", "return"), T("Self_", "self"), T("Super", "super"), T("Break", "break"), T("Continue", "continue"), T("Throw", "throw"),
            T("True", "true"), T("Try", "try"), T("Var", "var"), T("While", "while"), T("Error", "Unexpected character: '@'.") >>
VARIABLE seq
Init == seq \in UNION {[1..n -> 1..Len(Vocab)] : n \in 0..N}
Next == UNCHANGED seq
Spec == Init /\ [][Next]_seq
Toks == [i \in 1..Len(seq) |-> [k |-> Vocab[seq[i]].k, s |-> Vocab[seq[i]].s, l |-> i, f |-> ""]] \o <<[k |-> "Eof", s |-> "", l |-> Len(seq) + 1, f |-> ""]>>
EmitGen == PrintT(<<"PGEN", ToJson([seq |-> seq, out |-> Parse(Toks)])>>)
=============================================================================
