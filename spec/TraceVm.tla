------------------------------- MODULE TraceVm -------------------------------
(* Trace validation of the interpreter's control state (vm.rs / object.rs) against the mechanism the
   properties describe.  The real VM (hooks on, `--cfg yarel_verif`) emits one event per action with the
   cheap scalar state it had at that point:

     fib, ufib   the active fiber in its two representations (Root and raw pointer), renamed to small ids
     nf, nh, sl  frames / installed handlers / value-stack height of the active fiber
     hx          the interpreter-wide exception-in-flight flag
     cd          length of the chain of calling fibers

   Events logged AFTER the change: PushHandler, Call, Landed(h, fc), JumpFinally, LoadFiber, UnloadFiber;
   BEFORE it: PopHandler, Throw, Unwind, Return, EndFinally, StartImport; RunStart / RunEnd(ok) / Reset frame a run.

   The specification keeps, per fiber, the frame count and the STACK OF HANDLER RECORDS [fc, h] as it follows
   the events, and accepts an event only if everything the code logged is what the specification computes:

     C08  a handler is popped only by its own frame (PopHandler / JumpFinally: top.fc = nf); a frame never
          returns while one of its handlers is installed (HandlerOutlivesFrame); an exception lands exactly on
          the innermost installed handler, at the frame count and stack height recorded when that handler was
          pushed (Landed.fc / Landed.h = top record); the in-flight flag changes only at Throw and Landed.
     C09  a fiber's frames and handlers are exactly what they were when it was left (LoadFiber of a started
          fiber, UnloadFiber back to the caller); the caller chain grows / shrinks by one.
     C10  fib = ufib at every event: the two representations of the active fiber never disagree.
     C02  at most FramesMax frames.
     C15  a run starts with the flag clear, and a run that ends normally
          leaves no frame and no handler behind.
     C14  imports nest: FinishImport closes the innermost open StartImport of the same path.               *)
EXTENDS Naturals, Sequences, TLC, Json, IOUtils

CONSTANTS FramesMax
Rec == TLCEval(ndJsonDeserialize(IOEnv.TRACE))

VARIABLES l, cur, fibs, hx, depth, imports, phase
vars == <<l, cur, fibs, hx, depth, imports, phase>>
(* fibs: fiber id -> [nf, hs]   hs: sequence of [fc, h], innermost last;  cur = 0: no fiber loaded
   phase: "idle" (between runs) | "run" | "unwinding" (an Unwind with a handler installed awaits its Landed) | "dead" (uncaught) *)

Fresh == [nf |-> 1, hs |-> <<>>]
Known(f) == f \in DOMAIN fibs
Me == fibs[cur]
Top(hs) == hs[Len(hs)]
Pop(hs) == SubSeq(hs, 1, Len(hs) - 1)
With(f, r) == [x \in DOMAIN fibs \cup {f} |-> IF x = f THEN r ELSE fibs[x]]

Ev(name) == l <= Len(Rec) /\ Rec[l].e = name
E == Rec[l]
(* what every event of the running fiber must show *)
Here == E.fib = cur /\ E.ufib = E.fib /\ E.nf = Me.nf /\ E.nh = Len(Me.hs) /\ E.cd = depth

Init == l = 1 /\ cur = 0 /\ fibs = <<>> /\ hx = FALSE /\ depth = 0 /\ imports = <<>> /\ phase = "idle"

Reset == /\ Ev("Reset")
         /\ cur' = 0 /\ fibs' = <<>> /\ hx' = FALSE /\ depth' = 0 /\ imports' = <<>> /\ phase' = "idle" /\ l' = l + 1

RunStart == /\ Ev("RunStart")
            /\ E.hx = 0                                       \* C15: no exception of an earlier run is in flight
            \* (wcd - a class definition cut short by an error - is logged but not constrained: the next class
            \*  declaration overwrites it and nothing else reads it, so it cannot affect a later snippet)
            /\ cur' = 0 /\ hx' = FALSE /\ depth' = 0 /\ imports' = <<>> /\ phase' = "run"
            /\ UNCHANGED fibs /\ l' = l + 1                    \* fibers of earlier runs may be resumed later

RunEnd == /\ Ev("RunEnd")
          /\ (E.ok = 1) => (phase = "run" /\ cur # 0 /\ Me.nf = 0 /\ Me.hs = <<>>)
          /\ (E.ok = 0) => phase \in {"dead", "idle"}             \* idle: the snippet did not compile, no run started
          /\ phase' = "idle" /\ cur' = 0 /\ l' = l + 1
          /\ UNCHANGED <<fibs, hx, depth, imports>>

LoadFiber == /\ Ev("LoadFiber") /\ phase = "run"
             /\ E.ufib = E.fib                                  \* C10
             /\ E.cd = (IF cur = 0 THEN 0 ELSE depth + 1)
             /\ (E.hx = 1) = hx                                 \* a switch does not touch the in-flight flag
             /\ LET f == E.fib IN
                  /\ f # cur
                  /\ IF Known(f) /\ fibs[f].nf = E.nf /\ Len(fibs[f].hs) = E.nh /\ fibs[f].nf > 0
                     THEN fibs' = fibs                                           \* resumed exactly as it was left (C09)
                     ELSE E.nf = 1 /\ E.nh = 0 /\ fibs' = With(f, Fresh)         \* a new fiber (or a recycled address)
                  /\ cur' = f
             /\ depth' = E.cd /\ l' = l + 1 /\ UNCHANGED <<hx, imports, phase>>

UnloadFiber == /\ Ev("UnloadFiber") /\ phase = "run" /\ cur # 0 /\ depth > 0
               /\ E.ufib = E.fib /\ E.cd = depth - 1
               /\ (E.hx = 1) = hx
               /\ Known(E.fib) /\ E.fib # cur
               /\ fibs[E.fib].nf = E.nf /\ Len(fibs[E.fib].hs) = E.nh      \* the caller is as it was when it called (C09)
               /\ cur' = E.fib /\ depth' = depth - 1 /\ l' = l + 1
               /\ UNCHANGED <<fibs, hx, imports, phase>>

Call == /\ Ev("Call") /\ phase = "run" /\ cur # 0
        /\ E.fib = cur /\ E.ufib = E.fib /\ E.cd = depth /\ (E.hx = 1) = hx
        /\ E.nf = Me.nf + 1 /\ E.nf <= FramesMax /\ E.nh = Len(Me.hs)
        /\ fibs' = With(cur, [Me EXCEPT !.nf = E.nf])
        /\ l' = l + 1 /\ UNCHANGED <<cur, hx, depth, imports, phase>>

Return == /\ Ev("Return") /\ phase = "run" /\ cur # 0 /\ Here /\ (E.hx = 1) = hx
          /\ Me.nf >= 1
          /\ \A i \in 1..Len(Me.hs) : Me.hs[i].fc < Me.nf        \* C08: no handler of the returning frame is still installed
          /\ fibs' = With(cur, [Me EXCEPT !.nf = Me.nf - 1])
          /\ l' = l + 1 /\ UNCHANGED <<cur, hx, depth, imports, phase>>

PushHandler == /\ Ev("PushHandler") /\ phase = "run" /\ cur # 0
               /\ E.fib = cur /\ E.ufib = E.fib /\ E.cd = depth /\ (E.hx = 1) = hx
               /\ E.nf = Me.nf /\ E.nh = Len(Me.hs) + 1
               /\ fibs' = With(cur, [Me EXCEPT !.hs = Append(Me.hs, [fc |-> E.nf, h |-> E.sl])])
               /\ l' = l + 1 /\ UNCHANGED <<cur, hx, depth, imports, phase>>

PopHandler == /\ Ev("PopHandler") /\ phase = "run" /\ cur # 0 /\ Here /\ (E.hx = 1) = hx
              /\ Me.hs # <<>> /\ Top(Me.hs).fc = Me.nf           \* C08 / C04: never on an empty stack, only its own frame's
              /\ fibs' = With(cur, [Me EXCEPT !.hs = Pop(Me.hs)])
              /\ l' = l + 1 /\ UNCHANGED <<cur, hx, depth, imports, phase>>

JumpFinally == /\ Ev("JumpFinally") /\ phase = "run" /\ cur # 0
               /\ E.fib = cur /\ E.ufib = E.fib /\ E.cd = depth /\ (E.hx = 1) = hx
               /\ Me.hs # <<>> /\ Top(Me.hs).fc = Me.nf
               /\ E.nf = Me.nf /\ E.nh = Len(Me.hs) - 1 /\ E.sl = Top(Me.hs).h     \* back at the height the handler recorded
               /\ fibs' = With(cur, [Me EXCEPT !.hs = Pop(Me.hs)])
               /\ l' = l + 1 /\ UNCHANGED <<cur, hx, depth, imports, phase>>

EndFinally == /\ Ev("EndFinally") /\ phase = "run" /\ cur # 0 /\ Here /\ (E.hx = 1) = hx
              /\ l' = l + 1 /\ UNCHANGED <<cur, fibs, hx, depth, imports, phase>>

Throw == /\ Ev("Throw") /\ phase = "run" /\ cur # 0 /\ Here /\ (E.hx = 1) = hx
         /\ hx' = TRUE
         /\ l' = l + 1 /\ UNCHANGED <<cur, fibs, depth, imports, phase>>

Unwind == /\ Ev("Unwind") /\ phase = "run" /\ cur # 0 /\ Here /\ (E.hx = 1) = hx
          /\ phase' = IF Me.hs = <<>> THEN "dead" ELSE "unwinding"       \* no handler in this fiber: the run ends with the error
          /\ l' = l + 1 /\ UNCHANGED <<cur, fibs, hx, depth, imports>>

Landed == /\ Ev("Landed") /\ phase = "unwinding" /\ cur # 0
          /\ E.fib = cur /\ E.ufib = E.fib /\ E.cd = depth
          /\ LET top == Top(Me.hs) IN
               /\ E.fc = top.fc /\ E.h = top.h                  \* C08: the innermost installed handler, with what it recorded
               /\ E.nf = top.fc /\ E.nh = Len(Me.hs) - 1
               /\ top.fc <= Me.nf
               /\ fibs' = With(cur, [nf |-> top.fc, hs |-> Pop(Me.hs)])
          /\ hx' = (E.hx = 1)                                    \* decided by the kind of handler (finally-only keeps it raised)
          /\ phase' = "run"
          /\ l' = l + 1 /\ UNCHANGED <<cur, depth, imports>>

StartImport == /\ Ev("StartImport") /\ phase = "run" /\ cur # 0 /\ Here /\ (E.hx = 1) = hx
               /\ imports' = Append(imports, E.path)
               /\ l' = l + 1 /\ UNCHANGED <<cur, fibs, hx, depth, phase>>
(* an import that does not run a body (already loaded, failing) never reaches FinishImport: such entries are
   dropped when the enclosing body finishes *)
FinishImport == /\ Ev("FinishImport") /\ phase = "run" /\ cur # 0 /\ (E.hx = 1) = hx
                /\ E.fib = cur /\ E.ufib = E.fib
                /\ \E i \in 1..Len(imports) : imports[i] = E.path /\ (\A j \in (i + 1)..Len(imports) : imports[j] # E.path)
                                               /\ imports' = SubSeq(imports, 1, i - 1)
                /\ l' = l + 1 /\ UNCHANGED <<cur, fibs, hx, depth, phase>>

Next == Reset \/ RunStart \/ RunEnd \/ LoadFiber \/ UnloadFiber \/ Call \/ Return \/ PushHandler \/ PopHandler
        \/ JumpFinally \/ EndFinally \/ Throw \/ Unwind \/ Landed \/ StartImport \/ FinishImport
Spec == Init /\ [][Next]_vars

(* state invariants, evaluated at every step of every validated trace *)
FrameBound == \A f \in DOMAIN fibs : fibs[f].nf <= FramesMax
HandlersBelongToLiveFrames == \A f \in DOMAIN fibs : \A i \in 1..Len(fibs[f].hs) : fibs[f].hs[i].fc <= fibs[f].nf \/ fibs[f].nf = 0
HandlersNested == \A f \in DOMAIN fibs : \A i \in 1..(Len(fibs[f].hs) - 1) :
                      fibs[f].hs[i].fc <= fibs[f].hs[i + 1].fc /\ (fibs[f].hs[i].fc = fibs[f].hs[i + 1].fc => fibs[f].hs[i].h <= fibs[f].hs[i + 1].h)

Accepted ==
    LET d == TLCGet("stats").diameter IN
    IF d - 1 = Len(Rec) THEN TRUE
    ELSE Print("REJECT " \o ToString(d) \o " event " \o (IF d <= Len(Rec) THEN ToJson(Rec[d]) ELSE "end") \o " after "
               \o (IF d > 1 /\ d - 1 <= Len(Rec) THEN ToJson(Rec[d - 1]) ELSE "start"), FALSE)
=============================================================================
