SPECIFICATION Spec
CONSTANTS
  MaxObj = 3
  NLabels = 2
  Kinds <- KindsLeaky
  MaxRoots = 2
  Policy = "schedule"
  InitBudget = 4
  Growth = 2
  Mutators <- MutAll
  MarksInBlacken = FALSE
  KeepHist = TRUE
VIEW viewSafety
INVARIANTS TypeOK GcSafety Reclaimed NoGreyLeft BytesExact FreedDead
