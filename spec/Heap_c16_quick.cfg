SPECIFICATION Spec
CONSTANTS
  MaxObj = 13
  NLabels = 1
  Kinds <- KindsN
  MaxRoots = 1
  Policy = "paced"
  InitBudget = 4
  Growth = 2
  Mutators <- MutDrop
  MarksInBlacken = FALSE
  KeepHist = TRUE
VIEW view
INVARIANTS TypeOK GcSafety Reclaimed NoGreyLeft BytesExact FreedDead Pacing
ACTION_CONSTRAINT EmitCollect
PROPERTY RefinesPacing
