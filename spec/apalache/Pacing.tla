------------------------------- MODULE Pacing -------------------------------
(* The pacing arithmetic of memory.rs (allocate_raw / collect_if_required / collect) over UNBOUNDED integers, for Apalache:
   the same actions as Heap.tla's paced policy with everything but the byte counters abstracted away (a collection may keep any
   amount between 0 and what is allocated).  IndInv is an inductive invariant (Init => IndInv, IndInv /\ Next => IndInv') and implies
   Pacing - C16's "between collections the heap never exceeds the growth factor times its size after the previous collection, or the
   initial budget, by more than one allocation" - for every allocation size, budget and history, not only the small constants TLC
   explores in Heap.tla.

     apalache-mc check --init=Init    --inv=IndInv --length=0 Pacing.tla      (base case)
     apalache-mc check --init=IndInit --inv=IndInv --length=1 Pacing.tla      (inductive step)
     apalache-mc check --init=IndInit --inv=Pacing --length=0 Pacing.tla      (IndInv => Pacing)                              *)
EXTENDS Integers

CONSTANTS
    \* @type: Int;
    InitBudget,      \* common::HEAP_INIT_BYTES_MAX
    \* @type: Int;
    Growth           \* common::HEAP_GROWTH_FACTOR

ASSUME InitBudget >= 1 /\ Growth >= 1

VARIABLES
    \* @type: Int;
    bytes,           \* Heap.bytes_allocated
    \* @type: Int;
    thr,             \* Heap.collection_threshold
    \* @type: Int;
    after,           \* bytes_allocated right after the last collection (0 before the first)
    \* @type: Int;
    last,            \* size of the last allocation
    \* @type: Bool;
    collected        \* has a collection happened yet

ConstInit == InitBudget \in {1, 4, 65536} /\ Growth \in {1, 2, 3}

Init == bytes = 0 /\ thr = InitBudget /\ after = 0 /\ last = 0 /\ collected = FALSE

Max(a, b) == IF a >= b THEN a ELSE b

(* allocate_raw: collect first iff bytes_allocated >= collection_threshold; the collection keeps `keep` bytes; then account the new box *)
Alloc ==
    \E size \in Int : \E keep \in Int :
        /\ size >= 1
        /\ IF bytes >= thr
           THEN /\ keep >= 0 /\ keep <= bytes
                /\ after' = keep /\ thr' = keep * Growth /\ bytes' = keep + size /\ collected' = TRUE
           ELSE /\ keep = 0
                /\ bytes' = bytes + size /\ UNCHANGED <<thr, after, collected>>
        /\ last' = size

Next == Alloc

TypeOK == bytes >= 0 /\ thr >= 0 /\ after >= 0 /\ last >= 0

(* before its last allocation the heap was below the threshold in force, or had just been collected *)
IndInv ==
    /\ TypeOK
    /\ last <= bytes
    /\ thr = (IF collected THEN after * Growth ELSE InitBudget)
    /\ (~collected => after = 0)
    /\ bytes - last <= Max(thr, after)

IndInit == bytes \in Int /\ thr \in Int /\ after \in Int /\ last \in Int /\ collected \in BOOLEAN /\ IndInv

Pacing == bytes <= Max(Growth * after, InitBudget) + last
=============================================================================
