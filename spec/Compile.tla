------------------------------- MODULE Compile -------------------------------
(* The single-pass compiler (compiler.rs) as a function from token programs to chunks: a twin of the code generator for the
   statement and expression forms the program generators use (everything but classes and imports).

   A program is the flat token sequence of Machine.tla / Gen.tla, printed one token per line by lib/yprog.py, so the line of
   token i is i.  Compile(p) returns every function the real compiler would produce for it, in the order in which they are
   finished (inner functions first, the script last), each with its code bytes, its line table (one entry per byte: the line of
   the token the parser had just consumed when the byte was emitted), its constant pool (with compiler.rs' de-duplication and
   creation order), its arity and the number of variables it captures - or says that the compiler must reject the program.

   What is transcribed, construct by construct:
     * the compiler stack: per function its locals (name, scope depth, -1 while being initialised, captured flag), its capture
       list (index, is_local; de-duplicated), scope depth, lambda counter, the in-try flag, the loop stack with pending breaks;
     * name resolution exactly as resolve_local / resolve_upvalue / add_upvalue do it BY NAME (innermost local of that name in the
       current function; else the nearest enclosing function that has such a local, marked captured there and threaded through
       every function in between; else a global looked up by a string constant) - C06's static half;
     * scope exit: one Pop or CloseUpvalue per local, innermost first; break / continue replay them without forgetting the locals - C04;
     * jump emission and back-patching (JumpIfFalse / Jump / Loop / JumpIfStopIter / PushExcHandler operands) - C05;
     * the desugaring of for, the and / or short circuits, compound assignment, lambdas, try / catch / finally with its handler
       operands, return inside try (JumpFinally) - C08;
     * the line table - C17.
   The harness exports the real compiler's output for the same source; lib/compiletwin.py compares byte for byte.            *)
EXTENDS Integers, Sequences, FiniteSets, TLC, Opcodes

Op(n) == (CHOOSE i \in 1..Len(OpNames) : OpNames[i] = n) - 1
U16(n) == <<n % 256, (n \div 256) % 256>>

(* ---- constants ------------------------------------------------------------------------------ *)
KStr(s) == [k |-> "str", s |-> s, n |-> 0]
KNum(n) == [k |-> "num", s |-> "", n |-> n]
KFn(i)  == [k |-> "fn", s |-> "", n |-> i]

(* ---- compiler records ------------------------------------------------------------------------ *)
Local(name, depth) == [name |-> name, depth |-> depth, cap |-> FALSE]
(* kind: script | fn | method | static | init  (FunctionKind); slot 0 is named self / Self / "" accordingly *)
NewC(name, kind) ==
    [name |-> name, kind |-> kind, script |-> kind = "script", code |-> <<>>, lines |-> <<>>, consts |-> <<>>, arity |-> 1,
     locals |-> <<Local(IF kind = "static" THEN "Self" ELSE IF kind # "fn" THEN "self" ELSE "", 0)>>, upv |-> <<>>, depth |-> 0, lam |-> 0,
     intry |-> FALSE, loops |-> <<>>]

Cur(S) == S.cs[Len(S.cs)]
SetCur(S, c) == [S EXCEPT !.cs[Len(S.cs)] = c]
Err(S) == [S EXCEPT !.err = TRUE]
Unsup(S) == [S EXCEPT !.unsup = TRUE]
Here(S) == Len(Cur(S).code)

Emit(S, bs, ln) == SetCur(S, [Cur(S) EXCEPT !.code = @ \o bs, !.lines = @ \o [i \in 1..Len(bs) |-> ln]])
EmitOp(S, n, ln) == Emit(S, <<Op(n)>>, ln)
PatchAt(S, pos, n) ==      \* two operand bytes at 0-based position pos
    IF n > 65535 THEN Err(S)
    ELSE SetCur(S, [Cur(S) EXCEPT !.code = [@ EXCEPT ![pos + 1] = n % 256, ![pos + 2] = n \div 256]])
EmitJump(S, n, ln) == Emit(S, <<Op(n), 255, 255>>, ln)          \* the operand is at Here(result) - 2
PatchJump(S, pos) == PatchAt(S, pos, Here(S) - pos - 2)
EmitLoop(S, start, ln) ==
    LET S1 == EmitOp(S, "Loop", ln)
        off == Here(S1) - start + 2
    IN IF off > 65535 THEN Err(Emit(S1, U16(off), ln)) ELSE Emit(S1, U16(off), ln)

(* Chunk::add_constant: numbers and strings are shared by value, every function constant is a new entry *)
AddConst(S, k) ==
    LET cs == Cur(S).consts
        hit == {i \in 1..Len(cs) : k.k # "fn" /\ cs[i] = k}
    IN IF hit # {} THEN [s |-> S, i |-> (CHOOSE i \in hit : TRUE) - 1]
       ELSE IF Len(cs) >= 65536 THEN [s |-> Err(S), i |-> 0]                                       \* "Too many constants in one chunk."
       ELSE [s |-> SetCur(S, [Cur(S) EXCEPT !.consts = Append(@, k)]), i |-> Len(cs)]
EmitConstOp(S, n, k, ln) == LET a == AddConst(S, k) IN Emit(a.s, <<Op(n)>> \o U16(a.i), ln)

(* ---- locals, scopes ---------------------------------------------------------------------------- *)
BeginScope(S) == SetCur(S, [Cur(S) EXCEPT !.depth = @ + 1])
(* emit_scope_end: one Pop / CloseUpvalue per local declared deeper than `depth`, innermost first *)
RECURSIVE ScopeOps(_, _, _)
ScopeOps(locals, i, depth) ==
    IF i = 0 \/ locals[i].depth <= depth THEN <<>>
    ELSE <<Op(IF locals[i].cap THEN "CloseUpvalue" ELSE "Pop")>> \o ScopeOps(locals, i - 1, depth)
EmitScopeEnd(S, forget, depth, ln) ==
    LET c == Cur(S)
        ops == ScopeOps(c.locals, Len(c.locals), depth)
        S1 == Emit(S, ops, ln)
    IN IF forget THEN SetCur(S1, [Cur(S1) EXCEPT !.locals = SubSeq(@, 1, Len(@) - Len(ops))]) ELSE S1
EndScope(S, ln) ==
    LET S1 == SetCur(S, [Cur(S) EXCEPT !.depth = @ - 1]) IN EmitScopeEnd(S1, TRUE, Cur(S1).depth, ln)

(* declare_variable: a local of the current scope (globals are not declared); same name twice in one scope is an error *)
DeclareLocal(S, x) ==
    LET c == Cur(S)
        dup == \E i \in 1..Len(c.locals) : c.locals[i].name = x /\ (c.locals[i].depth = -1 \/ c.locals[i].depth >= c.depth)
                                            /\ \A j \in (i + 1)..Len(c.locals) : (c.locals[j].depth = -1 \/ c.locals[j].depth >= c.depth)
        S1 == IF dup THEN Err(S) ELSE S
    IN IF Len(c.locals) >= 256 THEN Err(S1)
       ELSE SetCur(S1, [Cur(S1) EXCEPT !.locals = Append(@, Local(x, -1))])
MarkInit(S) == LET c == Cur(S) IN SetCur(S, [c EXCEPT !.locals[Len(c.locals)].depth = c.depth])

(* ---- name resolution ------------------------------------------------------------------------------ *)
ResolveLocal(c, x) ==
    LET hits == {i \in 1..Len(c.locals) : c.locals[i].name = x} IN
    IF hits = {} THEN [k |-> "none", i |-> 0]
    ELSE LET i == CHOOSE i \in hits : \A j \in hits : j <= i IN
         IF c.locals[i].depth = -1 THEN [k |-> "uninit", i |-> 0] ELSE [k |-> "ok", i |-> i - 1]

AddUpvalue(c, index, islocal) ==
    LET hits == {i \in 1..Len(c.upv) : c.upv[i].index = index /\ c.upv[i].islocal = islocal} IN
    IF hits # {} THEN [c |-> c, i |-> (CHOOSE i \in hits : TRUE) - 1]
    ELSE [c |-> [c EXCEPT !.upv = Append(@, [index |-> index, islocal |-> islocal])], i |-> Len(c.upv)]

RECURSIVE Thread(_, _, _, _)
Thread(cs, comp, first, index) ==       \* add_upvalue in every compiler from `comp` to the innermost one; at most 256 captures each
    IF comp > Len(cs) THEN [cs |-> cs, i |-> index, over |-> FALSE]
    ELSE LET a == AddUpvalue(cs[comp], index, comp = first) IN
         IF Len(a.c.upv) > 256 THEN [cs |-> cs, i |-> 0, over |-> TRUE]
         ELSE Thread([cs EXCEPT ![comp] = a.c], comp + 1, first, a.i)

ResolveUpvalue(S, x) ==
    LET n == Len(S.cs)
        encs == {e \in 1..(n - 1) : ResolveLocal(S.cs[e], x).k = "ok"}
    IN IF n < 2 \/ encs = {} THEN [s |-> S, found |-> FALSE, i |-> 0]
       ELSE LET e == CHOOSE e \in encs : \A f \in encs : f <= e
                slot == ResolveLocal(S.cs[e], x).i
                cs1 == [S.cs EXCEPT ![e].locals[slot + 1].cap = TRUE]
                t == Thread(cs1, e + 1, e + 1, slot)
            IN IF t.over THEN [s |-> Err([S EXCEPT !.cs = cs1]), found |-> FALSE, i |-> 0]      \* "Too many closure variables in function."
               ELSE [s |-> [S EXCEPT !.cs = t.cs], found |-> TRUE, i |-> t.i]

NamedVar(S, x) ==
    LET r == ResolveLocal(Cur(S), x) IN
    IF r.k = "ok" THEN [s |-> S, get |-> "GetLocal", set |-> "SetLocal", a |-> r.i]
    ELSE LET S1 == IF r.k = "uninit" THEN Err(S) ELSE S
             u == ResolveUpvalue(S1, x)
         IN IF u.found THEN [s |-> u.s, get |-> "GetUpvalue", set |-> "SetUpvalue", a |-> u.i]
            ELSE LET k == AddConst(S1, KStr(x)) IN [s |-> k.s, get |-> "GetGlobal", set |-> "SetGlobal", a |-> k.i]
EmitVarOp(S, n, a, ln) == IF n \in {"GetLocal", "SetLocal", "GetUpvalue", "SetUpvalue"} THEN Emit(S, <<Op(n), a>>, ln) ELSE Emit(S, <<Op(n)>> \o U16(a), ln)

(* ---- functions --------------------------------------------------------------------------------------- *)
EmitReturn(S, ln) ==
    LET S1 == IF Cur(S).kind = "init" THEN Emit(S, <<Op("GetLocal"), 0>>, ln) ELSE EmitOp(S, "Nil", ln)
        S2 == IF Cur(S1).intry THEN EmitOp(S1, "JumpFinally", ln) ELSE S1
    IN EmitOp(S2, "Return", ln)
PushCompilerK(S, name, kind) == [S EXCEPT !.cs = Append(@, [NewC(name, kind) EXCEPT !.depth = 1])]
PushCompiler(S, name) == PushCompilerK(S, name, "fn")
RECURSIVE Params(_, _, _)
Params(S, ps, i) ==
    IF i > Len(ps) THEN S
    ELSE Params(MarkInit(DeclareLocal(SetCur(S, [Cur(S) EXCEPT !.arity = @ + 1]), ps[i].x)), ps, i + 1)
RECURSIVE Pairs(_, _)
Pairs(upv, i) == IF i > Len(upv) THEN <<>> ELSE <<IF upv[i].islocal THEN 1 ELSE 0, upv[i].index>> \o Pairs(upv, i + 1)
(* finalise_compiler + the Closure instruction in the enclosing function *)
FinishFunction(S, ln) ==
    LET S1 == EmitReturn(S, ln)
        c == Cur(S1)
        fn == [name |-> c.name, arity |-> c.arity, upv |-> Len(c.upv), code |-> c.code, lines |-> c.lines, consts |-> c.consts]
        S2 == [S1 EXCEPT !.cs = SubSeq(@, 1, Len(@) - 1), !.fns = Append(@, fn)]
        k == AddConst(S2, KFn(Len(S2.fns)))
    IN Emit(k.s, <<Op("Closure")>> \o U16(k.i) \o Pairs(c.upv, 1), ln)

BinOps == [x \in {"==", "!=", ">", ">=", "<", "<=", "+", "-", "*", "/", "&", "|", "^", "%", "<<", ">>"} |->
    CASE x = "==" -> <<Op("Equal")>>
      [] x = "!=" -> <<Op("Equal"), Op("LogicalNot")>>
      [] x = ">" -> <<Op("Greater")>>
      [] x = ">=" -> <<Op("Less"), Op("LogicalNot")>>
      [] x = "<" -> <<Op("Less")>>
      [] x = "<=" -> <<Op("Greater"), Op("LogicalNot")>>
      [] x = "+" -> <<Op("Add")>>
      [] x = "-" -> <<Op("Subtract")>>
      [] x = "*" -> <<Op("Multiply")>>
      [] x = "/" -> <<Op("Divide")>>
      [] x = "&" -> <<Op("BitwiseAnd")>>
      [] x = "|" -> <<Op("BitwiseOr")>>
      [] x = "^" -> <<Op("BitwiseXor")>>
      [] x = "%" -> <<Op("Modulo")>>
      [] x = "<<" -> <<Op("BitShiftLeft")>>
      [] OTHER -> <<Op("BitShiftRight")>>]
UnOpName(x) == IF x = "-" THEN "Negate" ELSE IF x = "!" THEN "LogicalNot" ELSE "BitwiseNot"

(* ---- expressions -------------------------------------------------------------------------------------- *)
IsStrLit(e) == e.k = "lit" /\ e.v.k = "str"
RECURSIVE MergeParts(_, _, _)
MergeParts(parts, i, acc) ==          \* adjacent literal pieces of an interpolated string are one piece of source text
    IF i > Len(parts) THEN acc
    ELSE IF IsStrLit(parts[i]) /\ acc # <<>> /\ IsStrLit(acc[Len(acc)])
         THEN MergeParts(parts, i + 1, [acc EXCEPT ![Len(acc)] = [k |-> "lit", v |-> [k |-> "str", v |-> acc[Len(acc)].v.v \o parts[i].v.v]]])
         ELSE MergeParts(parts, i + 1, Append(acc, parts[i]))

RECURSIVE CE(_, _, _), CEs(_, _, _, _), CInterp(_, _, _, _, _), CKvs(_, _, _, _)
CEs(S, es, i, ln) == IF i > Len(es) THEN S ELSE CEs(CE(S, es[i], ln), es, i + 1, ln)
CKvs(S, kvs, i, ln) == IF i > Len(kvs) THEN S ELSE CKvs(CE(S, kvs[i], ln), kvs, i + 1, ln)
CInterp(S, parts, i, count, ln) ==
    IF i > Len(parts) THEN [s |-> S, n |-> count]
    ELSE IF IsStrLit(parts[i])
         THEN IF parts[i].v.v = "" THEN CInterp(S, parts, i + 1, count, ln)
              ELSE CInterp(EmitConstOp(S, "Constant", KStr(parts[i].v.v), ln), parts, i + 1, count + 1, ln)
         ELSE CInterp(EmitOp(CE(S, parts[i], ln), "FormatString", ln), parts, i + 1, count + 1, ln)

CE(S, e, ln) ==
    CASE e.k = "lit" ->
           (CASE e.v.k = "nil" -> EmitOp(S, "Nil", ln)
              [] e.v.k = "bool" -> EmitOp(S, IF e.v.v THEN "True" ELSE "False", ln)
              [] e.v.k = "num" -> IF e.v.v < 0 THEN EmitOp(EmitConstOp(S, "Constant", KNum(0 - e.v.v), ln), "Negate", ln)
                                  ELSE EmitConstOp(S, "Constant", KNum(e.v.v), ln)
              [] e.v.k = "str" -> EmitConstOp(S, "Constant", KStr(e.v.v), ln)
              [] OTHER -> Unsup(S))
      [] e.k = "var" ->
           LET S0 == IF e.x = "self" /\ (S.classes = <<>> \/ Cur(S).kind = "static") THEN Err(S) ELSE S
               v == NamedVar(S0, e.x)
           IN EmitVarOp(v.s, v.get, v.a, ln)
      [] e.k = "Self" ->
           LET v == NamedVar(IF S.classes = <<>> THEN Err(S) ELSE S, "Self") IN EmitOp(EmitVarOp(v.s, v.get, v.a, ln), "GetClass", ln)
      [] e.k \in {"superinv", "superget"} ->
           LET S0 == IF S.classes = <<>> \/ ~S.classes[Len(S.classes)] THEN Err(S) ELSE S
               k == AddConst(S0, KStr(e.m))
               \* the receiver: slot zero of the innermost enclosing method (self / Self), captured like any variable by nested functions
               named == {j \in 1..Len(k.s.cs) : k.s.cs[j].locals[1].name # ""}
               rname == IF named = {} THEN "" ELSE k.s.cs[CHOOSE j \in named : \A q \in named : q <= j].locals[1].name
               recv == NamedVar(k.s, rname)
               S1 == EmitVarOp(recv.s, recv.get, recv.a, ln)
               S2 == IF e.k = "superinv" THEN CEs(S1, e.args, 1, ln) ELSE S1
               sup == NamedVar(S2, "super")
               S3 == EmitVarOp(sup.s, sup.get, sup.a, ln)
           IN IF e.k = "superinv" THEN Emit(S3, <<Op("SuperInvoke")>> \o U16(k.i) \o <<Len(e.args)>>, ln)
              ELSE Emit(S3, <<Op("GetSuper")>> \o U16(k.i), ln)
      [] e.k = "bin" -> Emit(CE(CE(S, e.l, ln), e.r, ln), BinOps[e.op], ln)
      [] e.k = "un" -> EmitOp(CE(S, e.e, ln), UnOpName(e.op), ln)
      [] e.k = "and" ->
           LET S1 == EmitJump(CE(S, e.l, ln), "JumpIfFalse", ln)
               pos == Here(S1) - 2
           IN PatchJump(CE(EmitOp(S1, "Pop", ln), e.r, ln), pos)
      [] e.k = "or" ->
           LET S1 == EmitJump(CE(S, e.l, ln), "JumpIfFalse", ln)
               elsepos == Here(S1) - 2
               S2 == EmitJump(S1, "Jump", ln)
               endpos == Here(S2) - 2
           IN PatchJump(CE(EmitOp(PatchJump(S2, elsepos), "Pop", ln), e.r, ln), endpos)
      [] e.k = "assign" -> LET v == NamedVar(S, e.x) IN EmitVarOp(CE(v.s, e.e, ln), v.set, v.a, ln)
      [] e.k = "cassign" ->
           LET v == NamedVar(S, e.x) IN
           EmitVarOp(Emit(CE(EmitVarOp(v.s, v.get, v.a, ln), e.e, ln), BinOps[e.op], ln), v.set, v.a, ln)
      [] e.k = "call" ->
           \* the printed text of a call whose callee is a property access is a method invocation (o.m(args) / super.m(args))
           IF e.f.k = "get" THEN CE(S, [k |-> "inv", o |-> e.f.o, m |-> e.f.m, args |-> e.args], ln)
           ELSE IF e.f.k = "superget" THEN CE(S, [k |-> "superinv", m |-> e.f.m, args |-> e.args], ln)
           ELSE Emit(CEs(CE(S, e.f, ln), e.args, 1, ln), <<Op("Call"), Len(e.args)>>, ln)
      [] e.k = "lam" ->
           LET parent == Cur(S)
               S1 == SetCur(S, [parent EXCEPT !.lam = @ + 1])
               S2 == Params(PushCompiler(S1, "lambda-" \o ToString(parent.lam)), e.ps, 1)
               S3 == EmitOp(CE(S2, e.e, ln), "Return", ln)
           IN FinishFunction(S3, ln)
      [] e.k = "vec" -> Emit(CEs(S, e.es, 1, ln), <<Op("BuildVec"), Len(e.es)>>, ln)
      [] e.k = "tup" -> Emit(CEs(S, e.es, 1, ln), <<Op("BuildTuple"), Len(e.es)>>, ln)
      [] e.k = "map" -> Emit(CKvs(S, e.kvs, 1, ln), <<Op("BuildHashMap"), Len(e.kvs) \div 2>>, ln)
      [] e.k = "idx" -> EmitOp(CE(CE(S, e.o, ln), e.i, ln), "GetItem", ln)
      [] e.k = "setidx" -> EmitOp(CE(CE(CE(S, e.o, ln), e.i, ln), e.e, ln), "SetItem", ln)
      [] e.k = "range" -> EmitOp(CE(CE(S, e.l, ln), e.r, ln), "BuildRange", ln)
      [] e.k = "interp" ->
           LET parts == MergeParts(e.parts, 1, <<>>) IN
           IF \A i \in 1..Len(parts) : IsStrLit(parts[i])
           THEN EmitConstOp(S, "Constant", KStr(IF parts = <<>> THEN "" ELSE parts[1].v.v), ln)       \* no ${}: an ordinary string
           ELSE LET r == CInterp(S, parts, 1, 0, ln) IN
                IF r.n > 255 THEN Err(r.s) ELSE Emit(r.s, <<Op("BuildString"), r.n>>, ln)
      [] e.k = "inv" ->
           LET S1 == CE(S, e.o, ln)
               k == AddConst(S1, KStr(e.m))
           IN Emit(CEs(k.s, e.args, 1, ln), <<Op("Invoke")>> \o U16(k.i) \o <<Len(e.args)>>, ln)
      [] e.k = "get" -> EmitConstOp(CE(S, e.o, ln), "GetProperty", KStr(e.m), ln)
      [] e.k = "setf" ->
           LET S1 == CE(S, e.o, ln)
               k == AddConst(S1, KStr(e.m))
           IN Emit(CE(k.s, e.e, ln), <<Op("SetProperty")>> \o U16(k.i), ln)
      [] e.k = "csetf" ->
           LET S1 == CE(S, e.o, ln)
               k == AddConst(S1, KStr(e.m))
               S2 == Emit(EmitOp(k.s, "CopyTop", ln), <<Op("GetProperty")>> \o U16(k.i), ln)
           IN Emit(Emit(CE(S2, e.e, ln), BinOps[e.op], ln), <<Op("SetProperty")>> \o U16(k.i), ln)
      [] OTHER -> Unsup(S)

(* ---- statements ------------------------------------------------------------------------------------------- *)
Openers == {"if", "while", "for", "block", "try", "fn", "class", "method"}
RECURSIVE ScanTo(_, _, _, _)
ScanTo(p, i, depth, want) ==
    IF i > Len(p) THEN 0
    ELSE LET t == p[i].t IN
         IF depth = 0 /\ t \in want THEN i
         ELSE IF t \in Openers THEN ScanTo(p, i + 1, depth + 1, want)
         ELSE IF t = "end" THEN (IF depth = 0 THEN 0 ELSE ScanTo(p, i + 1, depth - 1, want))
         ELSE ScanTo(p, i + 1, depth, want)
EndOf(p, i) == ScanTo(p, i + 1, 0, {"end"})
Between(p, i, want) == LET e == EndOf(p, i) j == ScanTo(p, i + 1, 0, want) IN IF j # 0 /\ j < e THEN j ELSE 0

IsNilLit(e) == e.k = "lit" /\ e.v.k = "nil"

(* pop_loop: the pending breaks are patched to here *)
RECURSIVE PatchAll(_, _, _)
PatchAll(S, bs, i) == IF i > Len(bs) THEN S ELSE PatchAll(PatchJump(S, bs[i]), bs, i + 1)
PopLoop(S) ==
    LET c == Cur(S)
        lp == c.loops[Len(c.loops)]
    IN PatchAll(SetCur(S, [c EXCEPT !.loops = SubSeq(@, 1, Len(@) - 1)]), lp.breaks, 1)

(* the token line: one token per line *)
RECURSIVE CS(_, _, _, _), CStmt(_, _, _)
CS(S, p, i, j) ==              \* statements p[i..j]
    IF i > j THEN S
    ELSE LET r == CStmt(S, p, i) IN CS(r.s, p, r.next, j)

(* a `{ ... }` body whose opening token is at o and whose closing token is at c (line c) *)
Body(S, p, o, c) == EndScope(CS(BeginScope(S), p, o + 1, c - 1), c)

CStmt(S, p, i) ==
    LET tk == p[i]
        ln == i
        e == EndOf(p, i)
    IN
    CASE tk.t = "print" ->
           LET v == NamedVar(S, "print") IN
           [s |-> EmitOp(Emit(CE(EmitVarOp(v.s, v.get, v.a, ln), tk.e, ln), <<Op("Call"), 1>>, ln), "Pop", ln), next |-> i + 1]
      [] tk.t = "expr" -> [s |-> EmitOp(CE(S, tk.e, ln), "Pop", ln), next |-> i + 1]
      [] tk.t = "var" ->
           IF Cur(S).depth = 0
           THEN LET k == AddConst(S, KStr(tk.x)) IN
                [s |-> Emit(CE(k.s, tk.e, ln), <<Op("DefineGlobal")>> \o U16(k.i), ln), next |-> i + 1]
           ELSE [s |-> MarkInit(CE(DeclareLocal(S, tk.x), tk.e, ln)), next |-> i + 1]
      [] tk.t = "block" -> [s |-> Body(S, p, i, e), next |-> e + 1]
      [] tk.t = "if" ->
           LET el == Between(p, i, {"else"})
               thenEnd == IF el # 0 THEN el ELSE e
               S1 == EmitJump(CE(S, tk.e, ln), "JumpIfFalse", ln)
               thenpos == Here(S1) - 2
               S2 == Body(EmitOp(S1, "Pop", ln), p, i, thenEnd)
               S3 == EmitJump(S2, "Jump", thenEnd)
               elsepos == Here(S3) - 2
               S4 == EmitOp(PatchJump(S3, thenpos), "Pop", thenEnd)
               S5 == IF el # 0 THEN Body(S4, p, el, e) ELSE S4
           IN [s |-> PatchJump(S5, elsepos), next |-> e + 1]
      [] tk.t = "while" ->
           LET c0 == Cur(S)
               start == Len(c0.code)
               S0 == SetCur(S, [c0 EXCEPT !.loops = Append(@, [start |-> start, depth |-> c0.depth, breaks |-> <<>>])])
               S1 == EmitJump(CE(S0, tk.e, ln), "JumpIfFalse", ln)
               exitpos == Here(S1) - 2
               S2 == Body(EmitOp(S1, "Pop", ln), p, i, e)
               S3 == EmitOp(PatchJump(EmitLoop(S2, start, e), exitpos), "Pop", e)
           IN [s |-> PopLoop(S3), next |-> e + 1]
      [] tk.t = "for" ->
           LET S1 == EmitOp(DeclareLocal(BeginScope(S), tk.x), "Nil", ln)
               loopvar == Len(Cur(S1).locals) - 1
               S2 == CE(S1, tk.e, ln)
               c2 == Cur(S2)
               S3 == SetCur(S2, [c2 EXCEPT !.locals[loopvar + 1].depth = c2.depth])
               S4 == SetCur(S3, [Cur(S3) EXCEPT !.locals = Append(@, Local("... temp-iter-var ...", -1))])
               k == AddConst(S4, KStr("iter"))
               S5 == MarkInit(Emit(k.s, <<Op("Invoke")>> \o U16(k.i) \o <<0>>, ln))
               c5 == Cur(S5)
               start == Len(c5.code)
               S6 == SetCur(S5, [c5 EXCEPT !.loops = Append(@, [start |-> start, depth |-> c5.depth, breaks |-> <<>>])])
               S7 == EmitJump(Emit(EmitOp(S6, "IterNext", ln), <<Op("SetLocal"), loopvar>>, ln), "JumpIfStopIter", ln)
               exitpos == Here(S7) - 2
               S8 == Body(EmitOp(S7, "Pop", ln), p, i, e)
               S9 == PopLoop(EmitOp(PatchJump(EmitLoop(S8, start, e), exitpos), "Pop", e))
           IN [s |-> EndScope(S9, e), next |-> e + 1]
      [] tk.t = "break" ->
           LET c == Cur(S) IN
           IF c.loops = <<>> THEN [s |-> Err(S), next |-> i + 1]
           ELSE LET lp == c.loops[Len(c.loops)]
                    S1 == EmitJump(EmitScopeEnd(S, FALSE, lp.depth, ln), "Jump", ln)
                    c1 == Cur(S1)
                IN [s |-> SetCur(S1, [c1 EXCEPT !.loops[Len(c1.loops)].breaks = Append(@, Here(S1) - 2)]), next |-> i + 1]
      [] tk.t = "continue" ->
           LET c == Cur(S) IN
           IF c.loops = <<>> THEN [s |-> Err(S), next |-> i + 1]
           ELSE LET lp == c.loops[Len(c.loops)] IN
                [s |-> EmitLoop(EmitScopeEnd(S, FALSE, lp.depth, ln), lp.start, ln), next |-> i + 1]
      [] tk.t = "return" ->
           LET S0 == IF Cur(S).script THEN Err(S) ELSE S IN
           IF IsNilLit(tk.e) THEN [s |-> EmitReturn(S0, ln), next |-> i + 1]
           ELSE LET S1 == CE(IF Cur(S0).kind = "init" THEN Err(S0) ELSE S0, tk.e, ln)
                    S2 == IF Cur(S1).intry THEN EmitOp(S1, "JumpFinally", ln) ELSE S1
                IN [s |-> EmitOp(S2, "Return", ln), next |-> i + 1]
      [] tk.t = "throw" -> [s |-> EmitOp(CE(S, tk.e, ln), "Throw", ln), next |-> i + 1]
      [] tk.t = "try" ->
           LET ca == Between(p, i, {"catch"})
               fi == Between(p, i, {"finally"})
               bodyEnd == IF ca # 0 THEN ca ELSE IF fi # 0 THEN fi ELSE e
               catchEnd == IF fi # 0 THEN fi ELSE e
               prev == Cur(S).intry
               S1 == Emit(SetCur(S, [Cur(S) EXCEPT !.intry = TRUE]), <<Op("PushExcHandler"), 255, 255, 255, 255>>, ln)
               hpos == Here(S1) - 4
               post == Here(S1)
               S2 == Body(S1, p, i, bodyEnd)
               S3 == EmitOp(SetCur(S2, [Cur(S2) EXCEPT !.intry = prev]), "PopExcHandler", bodyEnd)
               S4 == EmitJump(S3, "Jump", bodyEnd)
               cj == Here(S4) - 2
               S5 == PatchAt(S4, hpos, Here(S4) - post)
               catchStart == Here(S5)
               S6 == IF ca # 0
                     THEN EndScope(CS(MarkInit(DeclareLocal(BeginScope(S5), p[ca].x)), p, ca + 1, catchEnd - 1), catchEnd)
                     ELSE S5
               S7 == PatchJump(S6, cj)
               S8 == PatchAt(S7, hpos + 2, Here(S7) - catchStart)
               S9 == IF fi # 0 THEN EmitOp(Body(S8, p, fi, e), "EndFinally", e) ELSE S8
           IN [s |-> IF ca = 0 /\ fi = 0 THEN Err(S9) ELSE S9, next |-> e + 1]
      [] tk.t = "fn" ->
           LET global == Cur(S).depth = 0
               k == IF global THEN AddConst(S, KStr(tk.x)) ELSE [s |-> MarkInit(DeclareLocal(S, tk.x)), i |-> 0]
               S1 == Params(PushCompiler(k.s, tk.x), tk.ps, 1)
               S2 == FinishFunction(CS(S1, p, i + 1, e - 1), e)
           IN [s |-> IF global THEN Emit(S2, <<Op("DefineGlobal")>> \o U16(k.i), e) ELSE S2, next |-> e + 1]
      [] tk.t = "import" ->
           LET S0 == IF tk.p = "main" THEN Err(S) ELSE S
               kp == AddConst(S0, KStr(tk.p))
               S1 == IF Cur(kp.s).depth > 0 THEN DeclareLocal(kp.s, tk.x) ELSE kp.s
               S2 == EmitOp(Emit(S1, <<Op("StartImport")>> \o U16(kp.i), ln), "FinishImport", ln)
               kn == AddConst(S2, KStr(tk.x))
           IN [s |-> IF Cur(kn.s).depth > 0 THEN MarkInit(kn.s) ELSE Emit(kn.s, <<Op("DefineGlobal")>> \o U16(kn.i), ln), next |-> i + 1]
      [] tk.t = "class" ->
           LET hasSup == tk.sup.k = "var"
               kn == AddConst(S, KStr(tk.x))
               global == Cur(S).depth = 0
               S1 == IF global THEN kn.s ELSE DeclareLocal(kn.s, tk.x)
               S2 == Emit(S1, <<Op("DeclareClass")>> \o U16(kn.i), ln)
               S3 == IF global THEN Emit(S2, <<Op("DefineGlobal")>> \o U16(kn.i), ln) ELSE MarkInit(S2)
               S4 == [S3 EXCEPT !.classes = Append(@, FALSE)]
               S5 == IF hasSup
                     THEN LET sv == NamedVar(S4, tk.sup.x)
                              A1 == EmitVarOp(sv.s, sv.get, sv.a, ln)
                              A2 == IF tk.sup.x = tk.x THEN Err(A1) ELSE A1
                              A3 == BeginScope(A2)
                              A4 == MarkInit(SetCur(A3, [Cur(A3) EXCEPT !.locals = Append(@, Local("super", -1))]))
                              cv == NamedVar(A4, tk.x)
                              A5 == EmitOp(EmitVarOp(cv.s, cv.get, cv.a, ln), "Inherit", ln)
                          IN [A5 EXCEPT !.classes[Len(A5.classes)] = TRUE]
                     ELSE S4
               rv == NamedVar(S5, tk.x)                        \* resolve_variable(name): the operand of the final Set
               gv == NamedVar(rv.s, tk.x)
               S6 == EmitVarOp(gv.s, gv.get, gv.a, ln)
               S7 == IF tk.ctor # ""
                     THEN LET kc == AddConst(S6, KStr(tk.ctor))
                              B1 == Emit(PushCompilerK(kc.s, tk.ctor, "init"), <<Op("Construct"), 0>>, ln)
                              B2 == EmitReturn(B1, ln)
                              c == Cur(B2)
                              fn == [name |-> c.name, arity |-> c.arity, upv |-> Len(c.upv), code |-> c.code, lines |-> c.lines, consts |-> c.consts]
                              B3 == [B2 EXCEPT !.cs = SubSeq(@, 1, Len(@) - 1), !.fns = Append(@, fn)]
                              kf == AddConst(B3, KFn(Len(B3.fns)))
                          IN Emit(Emit(kf.s, <<Op("Closure")>> \o U16(kf.i), ln), <<Op("StaticMethod")>> \o U16(kc.i), ln)
                     ELSE S6
               S8 == CS(S7, p, i + 1, e - 1)                   \* the methods
               S9 == EmitOp(EmitVarOp(EmitOp(S8, "DefineClass", e), rv.set, rv.a, e), "Pop", e)
               S10 == IF hasSup THEN EndScope(S9, e) ELSE S9
           IN [s |-> [S10 EXCEPT !.classes = SubSeq(@, 1, Len(@) - 1)], next |-> e + 1]
      [] tk.t = "method" ->
           LET kind == IF tk.kind = "ctor" THEN "init" ELSE IF tk.kind = "static" THEN "static" ELSE "method"
               kn == AddConst(S, KStr(tk.x))
               S1 == Params(PushCompilerK(kn.s, tk.x, kind), tk.ps, 1)
               S2 == IF kind = "init" THEN Emit(S1, <<Op("Construct"), Cur(S1).arity - 1>>, ln) ELSE S1
               S3 == FinishFunction(CS(S2, p, i + 1, e - 1), e)
           IN [s |-> Emit(S3, <<Op(IF kind = "method" THEN "Method" ELSE "StaticMethod")>> \o U16(kn.i), e), next |-> e + 1]
      [] OTHER -> [s |-> Unsup(S), next |-> IF tk.t \in Openers /\ e # 0 THEN e + 1 ELSE i + 1]

(* ---- whole programs ------------------------------------------------------------------------------------------- *)
Compile(p) ==
    LET S0 == [cs |-> <<NewC("", "script")>>, fns |-> <<>>, err |-> FALSE, unsup |-> FALSE, classes |-> <<>>]
        S1 == CS(S0, p, 1, Len(p))
        S2 == EmitReturn(S1, Len(p) + 1)                       \* at the end-of-file token
        c == Cur(S2)
        script == [name |-> "", arity |-> c.arity, upv |-> 0, code |-> c.code, lines |-> c.lines, consts |-> c.consts]
    IN [unsup |-> S2.unsup, err |-> S2.err, fns |-> Append(S2.fns, script)]
=============================================================================
