SPECIFICATION Spec
CONSTANTS
  Alphabet <- Broad
  MaxLen = 3
INVARIANTS ScanTerminates Emit
CHECK_DEADLOCK FALSE
