SPECIFICATION Spec
CONSTANTS
  Lens = {0, 1, 2, 3, 7, 8, 9, 15, 16, 17, 31, 32, 33, 34, 40, 47, 48, 63, 64, 65, 100}
  Offs = {0, 1, 2, 3, 4, 5, 6, 7, 8, 9}
  LongLens = {127, 128, 129, 255, 256, 257, 258, 511, 512, 513, 1023, 1024, 1025, 4097}
  LongOffs = {0, 3}
  Routes = {"lit", "cat", "slice", "interp", "split", "replace", "utf8", "join"}
INVARIANTS VerdictIsSame Emit
CHECK_DEADLOCK FALSE
