SPECIFICATION Spec
CONSTANTS
  MaxSteps = 100
  Budget = 1
  ExprBudget = 4
  Names = {"a"}
  FnNames = {"f"}
  Vocab = {"ops"}
INVARIANTS EmitRun NotStuck
CHECK_DEADLOCK FALSE
