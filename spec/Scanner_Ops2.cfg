SPECIFICATION Spec
CONSTANTS
  Alphabet <- Ops2
  MaxLen = 3
INVARIANTS ScanTerminates Emit
CHECK_DEADLOCK FALSE
