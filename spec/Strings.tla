-------------------------------- MODULE Strings --------------------------------
(* Byte-exact reference model of indexing, slicing and the string functions (C13).

   A string is its UTF-8 byte sequence.  TLC enumerates every case of the configured pools
   (strings over an alphabet mixing 1-, 2-, 3- and 4-byte characters, every index / range bound
   around every boundary, special numbers, non-numbers) as an initial state, and the invariant
   Emit prints the case with the result this model computes: a value, or the error class and
   message vm.rs / core.rs / utils.rs / object.rs produce, in the order they check things.      *)
EXTENDS Integers, Sequences, FiniteSets, TLC, Json

CONSTANTS Alphabet,      \* set of characters, each a byte sequence
          MaxChars,      \* strings of up to this many characters
          Ops            \* which operations this run enumerates

(* ---- UTF-8 ---------------------------------------------------------------------------------- *)
IsCont(b) == b >= 128 /\ b <= 191
Boundary(s, i) == i = 0 \/ i = Len(s) \/ (i > 0 /\ i < Len(s) /\ ~IsCont(s[i + 1]))     \* str::is_char_boundary
RECURSIVE NextBoundary(_, _)
NextBoundary(s, i) == IF i >= Len(s) THEN Len(s) ELSE IF Boundary(s, i) THEN i ELSE NextBoundary(s, i + 1)
CharAt(s, i) == SubSeq(s, i + 1, NextBoundary(s, i + 1))          \* the character starting at byte offset i
RECURSIVE Chars(_, _)
Chars(s, i) == IF i >= Len(s) THEN <<>> ELSE <<CharAt(s, i)>> \o Chars(s, NextBoundary(s, i + 1))
CodePoint(c) == CASE Len(c) = 1 -> c[1]
                  [] Len(c) = 2 -> (c[1] - 192) * 64 + (c[2] - 128)
                  [] Len(c) = 3 -> (c[1] - 224) * 4096 + (c[2] - 128) * 64 + (c[3] - 128)
                  [] Len(c) = 4 -> (c[1] - 240) * 262144 + (c[2] - 128) * 4096 + (c[3] - 128) * 64 + (c[4] - 128)
RECURSIVE Cat(_, _)
Cat(ss, i) == IF i > Len(ss) THEN <<>> ELSE ss[i] \o Cat(ss, i + 1)
RECURSIVE StrsUpTo(_)
StrsUpTo(n) == IF n = 0 THEN {<<>>}
               ELSE LET prev == StrsUpTo(n - 1) IN prev \cup {s \o c : s \in {p \in prev : TRUE}, c \in Alphabet}
AllStrings == {s \in StrsUpTo(MaxChars) : Len(Chars(s, 0)) <= MaxChars}

(* ---- results -------------------------------------------------------------------------------- *)
VStr(s) == <<"str", s>>
VNum(n) == <<"num", n>>
VBool(b) == <<"bool", b>>
VNil == <<"nil", 0>>
VVec(vs) == <<"vec", vs>>
Ok(v) == [ok |-> TRUE, val |-> v, kind |-> "", msg |-> <<>>]
Fail(kind, msg) == [ok |-> FALSE, val |-> VNil, kind |-> kind, msg |-> msg]     \* msg: sequence of text pieces / values
Idx(kind) == Fail("IndexError", <<kind \o " index out of bounds.">>)

(* ---- numbers as arguments: ["int", n] | ["frac"] (0.5) | ["nan"] | ["inf"] | ["ninf"] | ["big"] (2^63) | ["nbig"] | ["nil"] | ["str"] | ["bool"] ---- *)
ArgText(a) == CASE a[1] = "int" -> ToString(a[2]) [] a[1] = "frac" -> "0.5" [] a[1] = "nan" -> "NaN" [] a[1] = "inf" -> "inf"
                [] a[1] = "ninf" -> "-inf" [] a[1] = "big" -> "9223372036854775808" [] a[1] = "nbig" -> "-9223372036854775808"
                [] a[1] = "nil" -> "nil" [] a[1] = "str" -> "x" [] a[1] = "bool" -> "true"
IsNumArg(a) == a[1] \in {"int", "frac", "nan", "inf", "ninf", "big", "nbig"}
Huge == 1000000        \* stands for isize::MAX after the saturating cast; only its order matters
(* utils::validate_integer: [ok, n] or the error *)
AsInt(a) ==
    IF ~IsNumArg(a) THEN [ok |-> FALSE, n |-> 0, err |-> Fail("TypeError", <<"Expected an integer value but found '", ArgText(a), "'.">>)]
    ELSE IF a[1] \in {"frac", "nan"} THEN [ok |-> FALSE, n |-> 0, err |-> Fail("ValueError", <<"Expected an integer value but found '", ArgText(a), "'.">>)]
    ELSE [ok |-> TRUE, err |-> Ok(VNil),
          n |-> CASE a[1] = "int" -> a[2] [] a[1] \in {"inf", "big"} -> Huge [] OTHER -> -Huge]
(* Value::try_as_bounded_index *)
Bounded(a, len, kind) ==
    LET r == AsInt(a) IN
    IF ~r.ok THEN [ok |-> FALSE, n |-> 0, err |-> r.err]
    ELSE LET i == IF r.n < 0 THEN r.n + len ELSE r.n IN
         IF i < 0 \/ i >= len THEN [ok |-> FALSE, n |-> 0, err |-> Idx(kind)] ELSE [ok |-> TRUE, n |-> i, err |-> Ok(VNil)]
(* ObjRange::make_bounded_range on integer bounds *)
BoundedRange(b, e, len, kind) ==
    LET b1 == IF b < 0 THEN b + len ELSE b
        e1 == IF e < 0 THEN e + len ELSE e
    IN IF b1 < 0 \/ b1 >= len THEN [ok |-> FALSE, b |-> 0, e |-> 0, err |-> Fail("IndexError", <<kind \o " slice start out of range.">>)]
       ELSE IF e1 < 0 \/ e1 > len THEN [ok |-> FALSE, b |-> 0, e |-> 0, err |-> Fail("IndexError", <<kind \o " slice end out of range.">>)]
       ELSE [ok |-> TRUE, b |-> b1, e |-> IF e1 >= b1 THEN e1 ELSE b1, err |-> Ok(VNil)]
NotBoundary(what) == Fail("IndexError", <<"Provided " \o what \o " is not on a character boundary.">>)

(* ---- the operations --------------------------------------------------------------------------- *)
StrIndex(s, a) ==
    IF ~IsNumArg(a) THEN Fail("TypeError", <<"Expected an integer or range.">>)
    ELSE LET r == Bounded(a, Len(s), "String") IN
         IF ~r.ok THEN r.err
         ELSE IF ~Boundary(s, r.n) THEN NotBoundary("string index")
         ELSE Ok(VStr(CharAt(s, r.n)))
StrSlice(s, b, e) ==
    LET r == BoundedRange(b, e, Len(s), "String") IN
    IF ~r.ok THEN r.err
    ELSE IF ~Boundary(s, r.b) THEN NotBoundary("string slice start")
    ELSE IF ~Boundary(s, r.e) THEN NotBoundary("string slice end")
    ELSE Ok(VStr(SubSeq(s, r.b + 1, r.e)))
SeqIndex(xs, a, kind) ==
    IF ~IsNumArg(a) THEN Fail("TypeError", <<"Expected an integer or range.">>)
    ELSE LET r == Bounded(a, Len(xs), kind) IN IF ~r.ok THEN r.err ELSE Ok(VNum(xs[r.n + 1]))
SeqSlice(xs, b, e, kind) ==
    LET r == BoundedRange(b, e, Len(xs), kind) IN
    IF ~r.ok THEN r.err ELSE Ok(VVec([i \in 1..(r.e - r.b) |-> VNum(xs[r.b + i])]))

StartsWith(s, p) == Len(p) <= Len(s) /\ SubSeq(s, 1, Len(p)) = p
EndsWith(s, p) == Len(p) <= Len(s) /\ SubSeq(s, Len(s) - Len(p) + 1, Len(s)) = p
MatchAt(s, sub, i) == i + Len(sub) <= Len(s) /\ SubSeq(s, i + 1, i + Len(sub)) = sub      \* i: byte offset
RECURSIVE FindFrom(_, _, _)
FindFrom(s, sub, i) ==
    IF i >= Len(s) THEN VNil
    ELSE IF Boundary(s, i) /\ i + Len(sub) <= Len(s) /\ Boundary(s, i + Len(sub)) /\ MatchAt(s, sub, i) THEN VNum(i)
    ELSE FindFrom(s, sub, i + 1)
Find(s, sub, a) ==
    IF sub = <<>> THEN Fail("ValueError", <<"Cannot find empty string.">>)
    ELSE LET r == AsInt(a) IN
         IF ~r.ok THEN r.err
         ELSE LET st == IF r.n < 0 THEN r.n + Len(s) ELSE r.n IN
              IF st < 0 \/ st >= Len(s) THEN Fail("IndexError", <<"String index out of bounds.">>)
              ELSE IF ~Boundary(s, st) THEN NotBoundary("string index")
              ELSE Ok(FindFrom(s, sub, st))
RECURSIVE Replace(_, _, _, _)
Replace(s, old, new, i) ==         \* str::replace: non-overlapping, left to right
    IF i >= Len(s) THEN <<>>
    ELSE IF MatchAt(s, old, i) THEN new \o Replace(s, old, new, i + Len(old))
    ELSE <<s[i + 1]>> \o Replace(s, old, new, i + 1)
RECURSIVE Split(_, _, _, _)
Split(s, d, i, cur) ==             \* str::split
    IF i >= Len(s) THEN <<cur>>
    ELSE IF MatchAt(s, d, i) THEN <<cur>> \o Split(s, d, i + Len(d), <<>>)
    ELSE Split(s, d, i + 1, Append(cur, s[i + 1]))
AllBytes(s, P(_)) == Len(s) > 0 /\ \A i \in 1..Len(s) : P(s[i])
Alpha(b) == (b >= 65 /\ b <= 90) \/ (b >= 97 /\ b <= 122)
Digit(b) == b >= 48 /\ b <= 57
HexDigit(b) == Digit(b) \/ (b >= 65 /\ b <= 70) \/ (b >= 97 /\ b <= 102)
RECURSIVE ByteOfChar(_, _, _)
ByteOfChar(s, n, i) == IF n = 0 THEN i ELSE ByteOfChar(s, n - 1, NextBoundary(s, i + 1))
CharByteIndex(s, a) ==
    LET r == Bounded(a, Len(Chars(s, 0)), "String") IN IF ~r.ok THEN r.err ELSE Ok(VNum(ByteOfChar(s, r.n, 0)))

(* String.from_utf8 on a vector of integers: validity and the offending byte *)
RECURSIVE ValidUpTo(_, _)
Need(b) == IF b <= 127 THEN 1 ELSE IF b >= 194 /\ b <= 223 THEN 2 ELSE IF b >= 224 /\ b <= 239 THEN 3 ELSE IF b >= 240 /\ b <= 244 THEN 4 ELSE 0
SecondOk(b1, b2) == CASE b1 = 224 -> b2 >= 160 /\ b2 <= 191 [] b1 = 237 -> b2 >= 128 /\ b2 <= 159
                      [] b1 = 240 -> b2 >= 144 /\ b2 <= 191 [] b1 = 244 -> b2 >= 128 /\ b2 <= 143 [] OTHER -> IsCont(b2)
ValidUpTo(bs, i) ==                \* i: bytes accepted so far; returns the length of the valid prefix
    IF i >= Len(bs) THEN i
    ELSE LET n == Need(bs[i + 1]) IN
         IF n = 0 \/ i + n > Len(bs) THEN i
         ELSE IF n >= 2 /\ ~SecondOk(bs[i + 1], bs[i + 2]) THEN i
         ELSE IF n >= 3 /\ ~IsCont(bs[i + 3]) THEN i
         ELSE IF n = 4 /\ ~IsCont(bs[i + 4]) THEN i
         ELSE ValidUpTo(bs, i + n)
FromUtf8(bs) ==
    IF \E j \in 1..Len(bs) : bs[j] < 0 \/ bs[j] > 255 THEN
         LET j == CHOOSE q \in 1..Len(bs) : (bs[q] < 0 \/ bs[q] > 255) /\ \A p \in 1..(q - 1) : bs[p] >= 0 /\ bs[p] <= 255 IN
         Fail("ValueError", <<"Expected a positive integer less than 256 but found '", ToString(bs[j]), "'.">>)
    ELSE LET v == ValidUpTo(bs, 0) IN
         IF v = Len(bs) THEN Ok(VStr(bs))
         ELSE Fail("ValueError", <<"Invalid Unicode encountered at byte ", ToString(bs[v + 1]), " with index ", ToString(v), ".">>)
Encode(cp) == IF cp < 128 THEN <<cp>>
              ELSE IF cp < 2048 THEN <<192 + (cp \div 64), 128 + (cp % 64)>>
              ELSE IF cp < 65536 THEN <<224 + (cp \div 4096), 128 + ((cp \div 64) % 64), 128 + (cp % 64)>>
              ELSE <<240 + (cp \div 262144), 128 + ((cp \div 4096) % 64), 128 + ((cp \div 64) % 64), 128 + (cp % 64)>>
BadCp(c) == c < 0 \/ (c >= 55296 /\ c <= 57343) \/ c > 1114111
FromCodePoints(cps) ==
    IF \E j \in 1..Len(cps) : BadCp(cps[j]) THEN
         LET j == CHOOSE q \in 1..Len(cps) : BadCp(cps[q]) /\ \A p \in 1..(q - 1) : ~BadCp(cps[p]) IN
         IF cps[j] < 0 THEN Fail("ValueError", <<"Expected a positive integer less than 4294967295 but found '", ToString(cps[j]), "'.">>)
         ELSE Fail("ValueError", <<"Expected a valid Unicode code point but found '", ToString(cps[j]), "'.">>)
    ELSE Ok(VStr(Cat([i \in 1..Len(cps) |-> Encode(cps[i])], 1)))

(* ---- case pools ------------------------------------------------------------------------------ *)
IndexArgs(len) == {<<"int", i>> : i \in (-len - 2)..(len + 2)} \cup {<<"frac">>, <<"nan">>, <<"inf">>, <<"ninf">>, <<"big">>, <<"nbig">>, <<"nil">>, <<"str">>, <<"bool">>}
Subs == {s \in AllStrings : Len(Chars(s, 0)) <= 2}
VecPool == {<<>>, <<10>>, <<10, 11, 12>>}
BytePool == {<<>>, <<97>>, <<195, 169>>, <<195>>, <<169>>, <<226, 130, 172>>, <<226, 130>>, <<240, 159, 152, 128>>, <<240, 159, 152>>, <<224, 128, 128>>,
             <<237, 160, 128>>, <<244, 144, 128, 128>>, <<192, 128>>, <<97, 255, 98>>, <<97, 256>>, <<-1>>, <<97, 195, 40>>, <<245, 128, 128, 128>>,
             <<224, 164, 168>>, <<97, 226, 130, 172, 98>>}
CodePool == {<<>>, <<97>>, <<233>>, <<8364>>, <<128512>>, <<55296>>, <<57343>>, <<1114111>>, <<1114112>>, <<-1>>, <<97, 55296>>, <<2344>>, <<97, 8364, 98>>, <<0>>}

(* slice bounds: everything around the sequence, plus the two ends of the integer domain (range bounds saturate: 2^63 and
   +inf become isize::MAX, -2^63 and -inf isize::MIN) *)
SliceBounds(n) == (-n)..n \cup {Huge, -Huge}
Cases ==
      (IF "index" \in Ops THEN {[op |-> "index", s |-> s, a |-> a, t |-> <<>>, b |-> 0, e |-> 0, u |-> <<>>] : s \in AllStrings, a \in IndexArgs(3 * MaxChars)} ELSE {})
 \cup (IF "slice" \in Ops THEN {[op |-> "slice", s |-> s, a |-> <<"nil">>, t |-> <<>>, b |-> b, e |-> e, u |-> <<>>] :
                                  s \in AllStrings, b \in SliceBounds(3 * MaxChars + 1), e \in SliceBounds(3 * MaxChars + 1)} ELSE {})
 \cup (IF "seq" \in Ops THEN {[op |-> o, s |-> xs, a |-> a, t |-> <<>>, b |-> 0, e |-> 0, u |-> <<>>] : o \in {"vindex", "tindex"}, xs \in VecPool, a \in IndexArgs(3)}
                         \cup {[op |-> o, s |-> xs, a |-> <<"nil">>, t |-> <<>>, b |-> b, e |-> e, u |-> <<>>] : o \in {"vslice", "tslice"}, xs \in VecPool, b \in SliceBounds(5), e \in SliceBounds(5)} ELSE {})
 \cup (IF "unary" \in Ops THEN {[op |-> o, s |-> s, a |-> <<"nil">>, t |-> <<>>, b |-> 0, e |-> 0, u |-> <<>>] :
                                  o \in {"len", "count_chars", "is_alpha", "is_digit", "is_hexdigit", "to_bytes", "to_code_points", "iterate"}, s \in AllStrings} ELSE {})
 \cup (IF "cbi" \in Ops THEN {[op |-> "char_byte_index", s |-> s, a |-> a, t |-> <<>>, b |-> 0, e |-> 0, u |-> <<>>] : s \in AllStrings, a \in IndexArgs(MaxChars)} ELSE {})
 \cup (IF "binary" \in Ops THEN {[op |-> o, s |-> s, a |-> <<"nil">>, t |-> t, b |-> 0, e |-> 0, u |-> <<>>] :
                                   o \in {"starts_with", "ends_with", "split"}, s \in AllStrings, t \in Subs} ELSE {})
 \cup (IF "find" \in Ops THEN {[op |-> "find", s |-> s, a |-> a, t |-> t, b |-> 0, e |-> 0, u |-> <<>>] : s \in AllStrings, t \in Subs, a \in IndexArgs(3 * MaxChars)} ELSE {})
 \cup (IF "replace" \in Ops THEN {[op |-> "replace", s |-> s, a |-> <<"nil">>, t |-> t, b |-> 0, e |-> 0, u |-> u] : s \in AllStrings, t \in Subs, u \in {<<>>, <<120>>, <<226, 130, 172>>}} ELSE {})
 \cup (IF "from" \in Ops THEN {[op |-> "from_utf8", s |-> bs, a |-> <<"nil">>, t |-> <<>>, b |-> 0, e |-> 0, u |-> <<>>] : bs \in BytePool}
                          \cup {[op |-> "from_code_points", s |-> cs, a |-> <<"nil">>, t |-> <<>>, b |-> 0, e |-> 0, u |-> <<>>] : cs \in CodePool} ELSE {})

Expect(c) ==
    CASE c.op = "index" -> StrIndex(c.s, c.a)
      [] c.op = "slice" -> StrSlice(c.s, c.b, c.e)
      [] c.op = "vindex" -> SeqIndex(c.s, c.a, "Vec")
      [] c.op = "tindex" -> SeqIndex(c.s, c.a, "Tuple")
      [] c.op = "vslice" -> SeqSlice(c.s, c.b, c.e, "Vec")
      [] c.op = "tslice" -> SeqSlice(c.s, c.b, c.e, "Tuple")
      [] c.op = "len" -> Ok(VNum(Len(c.s)))
      [] c.op = "count_chars" -> Ok(VNum(Len(Chars(c.s, 0))))
      [] c.op = "is_alpha" -> Ok(VBool(AllBytes(c.s, Alpha)))
      [] c.op = "is_digit" -> Ok(VBool(AllBytes(c.s, Digit)))
      [] c.op = "is_hexdigit" -> Ok(VBool(AllBytes(c.s, HexDigit)))
      [] c.op = "to_bytes" -> Ok(VVec([i \in 1..Len(c.s) |-> VNum(c.s[i])]))
      [] c.op = "to_code_points" -> LET cs == Chars(c.s, 0) IN Ok(VVec([i \in 1..Len(cs) |-> VNum(CodePoint(cs[i]))]))
      [] c.op = "iterate" -> LET cs == Chars(c.s, 0) IN Ok(VVec([i \in 1..Len(cs) |-> VStr(cs[i])]))
      [] c.op = "char_byte_index" -> CharByteIndex(c.s, c.a)
      [] c.op = "starts_with" -> Ok(VBool(StartsWith(c.s, c.t)))
      [] c.op = "ends_with" -> Ok(VBool(EndsWith(c.s, c.t)))
      [] c.op = "split" -> IF c.t = <<>> THEN Fail("ValueError", <<"Cannot split using an empty string.">>)
                           ELSE LET ps == Split(c.s, c.t, 0, <<>>) IN Ok(VVec([i \in 1..Len(ps) |-> VStr(ps[i])]))
      [] c.op = "find" -> Find(c.s, c.t, c.a)
      [] c.op = "replace" -> IF c.t = <<>> THEN Fail("ValueError", <<"Cannot replace empty string.">>) ELSE Ok(VStr(Replace(c.s, c.t, c.u, 0)))
      [] c.op = "from_utf8" -> FromUtf8(c.s)
      [] c.op = "from_code_points" -> FromCodePoints(c.s)

VARIABLE case
Init == case \in Cases
Next == UNCHANGED case
Spec == Init /\ [][Next]_case

(* every produced string is valid UTF-8 (a model-level property of the operations above) *)
RECURSIVE ValidValue(_)
ValidValue(v) == IF v[1] = "str" THEN ValidUpTo(v[2], 0) = Len(v[2])
                 ELSE IF v[1] = "vec" THEN \A i \in 1..Len(v[2]) : ValidValue(v[2][i]) ELSE TRUE
ProducesValidUtf8 == LET r == Expect(case) IN r.ok => ValidValue(r.val)
Emit == PrintT(<<"CASE", ToJson([c |-> case, r |-> Expect(case)])>>)
=============================================================================
