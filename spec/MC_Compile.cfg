SPECIFICATION Spec
INVARIANT EmitCmp
CHECK_DEADLOCK FALSE
