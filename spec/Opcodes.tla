------------------------------- MODULE Opcodes -------------------------------
(* The instruction set of chunk.rs / vm.rs as the interpreter reads it: opcode numbering, operand sizes,
   operand-stack effect (appendix A of DESIGN.md), which instructions can raise.  Shared by Bytecode.tla
   (static exploration of every path of emitted code) and TraceOps.tla (the same table followed in lock-step
   with the instructions the real interpreter executes). *)
EXTENDS Integers, Sequences

OpNames == <<"Constant","Nil","True","False","Pop","CopyTop","GetLocal","SetLocal","GetGlobal","DefineGlobal",
  "SetGlobal","GetUpvalue","SetUpvalue","GetProperty","SetProperty","GetClass","GetSuper","Equal","Greater","Less",
  "Add","Subtract","Multiply","Divide","BitwiseAnd","BitwiseOr","BitwiseXor","Modulo","LogicalNot","BitwiseNot",
  "BitShiftLeft","BitShiftRight","Negate","GetItem","SetItem","FormatString","BuildHashMap","BuildRange","BuildString",
  "BuildTuple","BuildVec","IterNext","Jump","JumpIfFalse","JumpIfStopIter","Loop","JumpFinally","EndFinally",
  "PushExcHandler","PopExcHandler","Throw","Call","Invoke","Construct","SuperInvoke","Closure","CloseUpvalue","Return",
  "DeclareClass","DefineClass","Inherit","Method","StaticMethod","StartImport","FinishImport">>

(* operand sizes as the VM reads them (the disassembler's table differs for PopExcHandler) *)
Two == {"Constant","GetGlobal","DefineGlobal","SetGlobal","GetProperty","SetProperty","GetSuper","Jump","JumpIfFalse",
        "JumpIfStopIter","Loop","Closure","DeclareClass","Method","StaticMethod","StartImport"}
One == {"GetLocal","SetLocal","GetUpvalue","SetUpvalue","BuildHashMap","BuildString","BuildTuple","BuildVec","Call","Construct"}
Sizes(n) == IF n \in Two THEN <<2>> ELSE IF n \in One THEN <<1>>
            ELSE IF n = "PushExcHandler" THEN <<2, 2>>
            ELSE IF n \in {"Invoke", "SuperInvoke"} THEN <<2, 1>> ELSE <<>>

Plus1  == {"Constant","Nil","True","False","CopyTop","GetLocal","GetGlobal","GetUpvalue","IterNext","DeclareClass","Closure"}
Minus1 == {"Pop","CloseUpvalue","DefineGlobal","SetProperty","GetSuper","Equal","Greater","Less","Add","Subtract","Multiply",
           "Divide","Modulo","BitwiseAnd","BitwiseOr","BitwiseXor","BitShiftLeft","BitShiftRight","GetItem","BuildRange",
           "Inherit","Method","StaticMethod","FinishImport"}
Zero   == {"SetLocal","SetGlobal","SetUpvalue","GetProperty","GetClass","LogicalNot","FormatString","BitwiseNot","Negate",
           "Construct","DefineClass","PushExcHandler","PopExcHandler"}
Raises == {"GetGlobal","SetGlobal","GetProperty","SetProperty","GetSuper","Greater","Less","Add","Subtract","Multiply","Divide",
           "Modulo","BitwiseAnd","BitwiseOr","BitwiseXor","BitShiftLeft","BitShiftRight","BitwiseNot","Negate","GetItem","SetItem",
           "BuildHashMap","BuildRange","IterNext","Call","Invoke","SuperInvoke","Inherit","StartImport","Throw"}
NameOps == {"GetGlobal","SetGlobal","DefineGlobal","GetProperty","SetProperty","GetSuper","Invoke","SuperInvoke","DeclareClass",
            "Method","StaticMethod","StartImport"}
(* minimum operand-stack height an instruction needs above the frame's slot 0 (what it pops / peeks) *)
Needs(n, a, b) ==
    CASE n \in {"Pop","CloseUpvalue","DefineGlobal","CopyTop","SetLocal","SetGlobal","SetUpvalue","GetProperty","GetClass",
                "LogicalNot","FormatString","BitwiseNot","Negate","JumpIfFalse","JumpIfStopIter","Throw","Return","IterNext",
                "JumpFinally","Method","StaticMethod","DefineClass"} -> 1
      [] n \in {"SetProperty","GetSuper","Equal","Greater","Less","Add","Subtract","Multiply","Divide","Modulo","BitwiseAnd",
                "BitwiseOr","BitwiseXor","BitShiftLeft","BitShiftRight","GetItem","BuildRange","Inherit","FinishImport"} -> 2
      [] n = "SetItem" -> 3
      [] n \in {"BuildString","BuildTuple","BuildVec"} -> a
      [] n = "BuildHashMap" -> 2 * a
      [] n \in {"Call","Construct"} -> a + 1
      [] n = "Invoke" -> b + 1
      [] n = "SuperInvoke" -> b + 2
      [] OTHER -> 0

(* decode the instruction at pc of a function record [code, ckind, cupv] *)
DecodeIn(fn, pc) ==
    LET op == fn.code[pc + 1] IN
    IF op >= Len(OpNames) THEN [ok |-> FALSE, n |-> "?", a |-> 0, b |-> 0, nxt |-> pc + 1]
    ELSE LET n == OpNames[op + 1]
             sz == Sizes(n)
             need == IF sz = <<>> THEN 0 ELSE IF Len(sz) = 1 THEN sz[1] ELSE sz[1] + sz[2]
         IN IF pc + need >= Len(fn.code) THEN [ok |-> FALSE, n |-> n, a |-> 0, b |-> 0, nxt |-> pc + 1 + need]
            ELSE LET a == IF sz = <<>> THEN 0 ELSE IF sz[1] = 1 THEN fn.code[pc + 2] ELSE (fn.code[pc + 2] + 256 * fn.code[pc + 3])
                     b == IF Len(sz) < 2 THEN 0 ELSE IF sz[2] = 1 THEN fn.code[pc + 4] ELSE (fn.code[pc + 4] + 256 * fn.code[pc + 5])
                     extra == IF n = "Closure" /\ a < Len(fn.ckind) /\ fn.ckind[a + 1] = "fn" THEN 2 * fn.cupv[a + 1] ELSE 0
                 IN [ok |-> TRUE, n |-> n, a |-> a, b |-> b, nxt |-> pc + 1 + need + extra]

Delta(n, a, b) ==
    CASE n \in Plus1 -> 1
      [] n \in Minus1 -> -1
      [] n \in Zero -> 0
      [] n = "SetItem" -> -2
      [] n \in {"BuildString","BuildTuple","BuildVec"} -> 1 - a
      [] n = "BuildHashMap" -> 1 - 2 * a
      [] n = "Call" -> -a
      [] n = "Invoke" -> -b
      [] n = "SuperInvoke" -> -1 - b
      [] n = "StartImport" -> 2
      [] OTHER -> 0

=============================================================================
