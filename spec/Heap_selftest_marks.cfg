SPECIFICATION Spec
CONSTANTS
  MaxObj = 4
  NLabels = 1
  Kinds <- KindsNB
  MaxRoots = 1
  Policy = "schedule"
  InitBudget = 4
  Growth = 2
  Mutators <- MutAll
  MarksInBlacken = TRUE
  KeepHist = TRUE
VIEW viewSafety
INVARIANTS TypeOK GcSafety Reclaimed NoGreyLeft BytesExact FreedDead
