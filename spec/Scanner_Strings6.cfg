SPECIFICATION Spec
CONSTANTS
  Alphabet <- Strings6
  MaxLen = 5
INVARIANTS ScanTerminates Emit
CHECK_DEADLOCK FALSE
