SPECIFICATION Spec
CONSTANTS
  MaxSteps = 300
  ExprBudget = 4
  Budget = 13
  Names = {"a"}
  FnNames = {"f"}
  Vocab = {"print", "var", "try", "catch", "finally", "throw", "while", "break", "continue", "fn", "call", "return", "exprstmt"}
INVARIANTS EmitRun NotStuck
CHECK_DEADLOCK FALSE
