---------------------------- MODULE MC_Parser ----------------------------
(* Runs the parser twin (Parser.tla) on token sequences read from a file (one JSON record per line: id, toks - the tokens the real
   scanner produced, whose agreement with Scanner.tla is checked separately) and prints the predicted outcome of compilation. *)
EXTENDS Parser, Json, IOUtils
Cases == TLCEval(ndJsonDeserialize(IOEnv.CASES))
VARIABLES cid
Init == cid \in 1..Len(Cases)
Next == UNCHANGED cid
Spec == Init /\ [][Next]_cid
EmitParse == PrintT(<<"PARSE", ToJson([id |-> Cases[cid].id, out |-> Parse(Cases[cid].toks)])>>)
=============================================================================
