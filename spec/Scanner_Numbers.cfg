SPECIFICATION Spec
CONSTANTS
  Alphabet <- Numbers
  MaxLen = 5
INVARIANTS ScanTerminates Emit
CHECK_DEADLOCK FALSE
