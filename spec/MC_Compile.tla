---------------------------- MODULE MC_Compile ----------------------------
(* Runs the compiler twin (Compile.tla) on token programs read from a file (one JSON record per line: id, prog) and prints, for
   each, the functions the real compiler has to produce. *)
EXTENDS Compile, Json, IOUtils
Progs == TLCEval(ndJsonDeserialize(IOEnv.PROGS))
FieldOrder == [k |-> 0, v |-> 0]
VARIABLES pid
Init == pid \in 1..Len(Progs)
Next == UNCHANGED pid
Spec == Init /\ [][Next]_pid
EmitCmp == PrintT(<<"CMP", ToJson([id |-> Progs[pid].id, out |-> Compile(Progs[pid].prog)])>>)
===============================================================================
