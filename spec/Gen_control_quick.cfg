SPECIFICATION Spec
CONSTANTS
  MaxSteps = 300
  ExprBudget = 4
  Budget = 12
  Names = {"a", "b"}
  FnNames = {"f"}
  Vocab = {"print", "var", "set", "if", "else", "while", "for", "break", "continue", "block", "arith"}
INVARIANTS EmitRun NotStuck
CHECK_DEADLOCK FALSE
