"""Generator profiles: run MC_Gen (exhaustive or simulation) and replay every generated program."""
import hashlib
import json
import threading

import vlib
import yprog
import mrun
from vlib import run_tlc, log

# triggers recorded by Machine.tla in the *ideal* run -> key of the known finding they belong to
TRIGGER_FINDING = {
    "LeftTryBodyByBreakOrContinue": "break-or-continue-inside-try-body",
    "BreakOrContinueThroughFinally": "break-or-continue-inside-try-body",
    "ReturnInTryWithoutFinally": "return-inside-try-without-finally",
    "ReturnThroughNestedTry": "return-inside-nested-try",
    "ThrowInCatchWithFinally": "completion-from-catch-block-skips-finally",
    "ReturnInCatchWithFinally": "completion-from-catch-block-skips-finally",
    "CompletionReplacedInFinally": "control-transfer-out-of-finally-with-pending-completion",
    "CatchWhileCompletionPendingInFinally": "vm-wide-exception-in-flight-flag",
    "FinallyWhileCompletionPending": "vm-wide-exception-in-flight-flag",
}


def generate(cfg, simulate=None, depth=400, seed=1, procs=8, timeout=1800, module="MC_Gen", tag="gen"):
    """-> (list of distinct model runs, tlc stats dict)"""
    runs, seen = [], set()
    stats = {"generated": 0, "distinct": 0, "behaviours": 0}
    lock = threading.Lock()

    def on(t, o):
        if t != "RUN":
            return
        key = hashlib.md5(json.dumps(o["prog"], sort_keys=True).encode()).hexdigest()
        with lock:
            stats["behaviours"] += 1
            if key not in seen:
                seen.add(key)
                o["id"] = key[:12]
                runs.append(o)

    if simulate:
        errs = []

        def one(i):
            try:
                r = run_tlc(module, cfg, workers=1, simulate=simulate // procs + 1, depth=depth, seed=seed * 1000 + i, timeout=timeout,
                            on_line=on, keep_lines=False, tag="%s%d" % (tag, i), xmx="3g")
                with lock:
                    stats["generated"] += r.generated
                    if r.violation:
                        errs.append(r.violation)
            except Exception as e:  # noqa
                errs.append(str(e))
        ts = [threading.Thread(target=one, args=(i,)) for i in range(procs)]
        for t in ts:
            t.start()
        for t in ts:
            t.join()
        # simulation reports "states checked"
        if errs:
            stats["violation"] = errs[0]
    else:
        r = run_tlc(module, cfg, workers=12, timeout=timeout, on_line=on, keep_lines=False, tag=tag, xmx="12g")
        stats["generated"], stats["distinct"] = r.generated, r.distinct
        if r.violation:
            stats["violation"] = r.violation
    return runs, stats


def replay(rep, runs, binaries, what, prop, gc="default", known_ok=True):
    """Replay model runs on the implementation(s); classify mismatches.  Returns number compared."""
    allf = vlib.load_findings()["findings"]
    findings = {f["key"]: f for f in allf if f["property"] == prop}
    usable = [r for r in runs if r["done"] and not r["oom"] and r["result"]["kind"] not in ("Stuck", "OutOfModel")]
    for r in runs:
        if r["result"]["kind"] == "Stuck":
            rep.violation("the reference machine got stuck (the specification must be total): %r" % (r["result"],),
                          {"prog": r["prog"]})
    progs = [(r["id"], r["prog"]) for r in usable]
    src_of = lambda body: (yprog.program_src(body) if not isinstance(body, dict) else
                           "\n--- next snippet ---\n".join("<reset>" if sn.get("reset") else (sn.get("src") or yprog.program_src(sn["prog"])) for sn in body["snips"])
                           + "".join("\n--- module %s ---\n%s" % (md["path"], md.get("src") or yprog.program_src(md["prog"])) for md in body.get("mods", [])))
    ncmp = 0
    for bname, binary in binaries:
        impl = mrun.impl_run(binary, progs, gc=gc)
        base = impl.get(mrun.BASE_ID)
        for r in usable:
            msg = mrun.compare(r, impl[r["id"]])
            ncmp += 1
            if not r["trig"] and isinstance(impl[r["id"]], dict) and impl[r["id"]].get("uaf", 0) > 0:
                rep.violation("%s (%s build): %d accesses to objects the collector had already reclaimed (quarantine hook)%s"
                              % (what, bname, impl[r["id"]]["uaf"], "; also: " + msg if msg else ""),
                              {"source": src_of(r["prog"]), "impl": {k: impl[r["id"]][k] for k in impl[r["id"]] if k != "events"}})
                continue
            if not msg and not r["trig"]:
                msg = mrun.compare_heap(r, impl[r["id"]], base)
                if r.get("heap", {}).get("exact"):
                    rep.add("heaps_compared_with_the_reachable_set", 1)
            if not msg:
                continue
            keys = {TRIGGER_FINDING[t] for t in r["trig"] if t in TRIGGER_FINDING}
            hit = [k for k in keys if k in findings]
            if hit and known_ok:
                for k in hit:
                    rep.known_finding(k, "%s (%s)" % (findings[k]["what"], k))
                continue
            rep.violation("%s (%s build): %s" % (what, bname, msg),
                          {"source": src_of(r["prog"]), "spec": {k: r.get(k) for k in ("out", "result", "trig", "runs")},
                           "impl": impl[r["id"]], "tokens": r["prog"]})
    return ncmp, len(usable)
