"""Parser.tla against compiler.rs: for every source text, the tokens of the real scanner are given to the parser twin under TLC,
which predicts whether compilation succeeds and, if not, the first recorded error (line, offending token, message); the real compiler
must agree.  (The scanner's own agreement with Scanner.tla is C03's first part.)"""
import json
import os
import re

import vlib
from vlib import Pool, run_tlc, log

KINDS = ["LeftParen", "RightParen", "LeftBrace", "RightBrace", "LeftBracket", "RightBracket", "Comma", "Dot", "DotDot", "Minus", "MinusEqual",
         "Plus", "PlusEqual", "Colon", "SemiColon", "Slash", "SlashEqual", "Star", "StarEqual", "Bang", "BangEqual", "Equal", "EqualEqual",
         "Greater", "GreaterEqual", "Less", "LessEqual", "Amp", "AmpEqual", "Bar", "BarEqual", "Caret", "CaretEqual", "Percent", "PercentEqual",
         "GreaterGreater", "GreaterGreaterEqual", "LessLess", "LessLessEqual", "AmpAmp", "BarBar", "Tilde", "Hash", "Identifier", "Str",
         "Interpolation", "Number", "CapSelf", "Catch", "Class", "Else", "False", "Finally", "For", "Fn", "If", "Import", "As", "In", "Nil",
         "Return", "Self_", "Super", "Break", "Continue", "Throw", "True", "Try", "Var", "While", "Error", "Eof"]
FIRST = re.compile(r"^\[module \"main\", line (\d+)\] Error( at end| at '(.*)')?: (.*)$", re.S)


def file_name(path):
    """Path::new(p).file_name() for the paths the twin is asked about; "??" = not decided here"""
    if path == "" or path in (".", "..", "/"):
        return "?"
    if re.fullmatch(r"[A-Za-z0-9_]+(/[A-Za-z0-9_]+)*", path):
        return path.split("/")[-1]
    return "??"


def check(rep, binary, sources, what, tag="ptwin", limit_tokens=400):
    """-> (compared, states); a source whose token text is outside TLC's string handling (non-ASCII, quotes in text) is skipped, counted"""
    items = [{"id": i, "src": s} for i, s in enumerate(sources)]
    toks = Pool(binary, "tokenize", timeout=10).map(items)
    cases = []
    skipped = 0
    for it, r in zip(items, toks):
        if "tokens" not in r:
            skipped += 1
            continue
        recs = []
        ok = len(r["tokens"]) <= limit_tokens
        for k, l, s in r["tokens"]:
            kind = KINDS[k] if k < len(KINDS) else "?"
            if not all(32 <= ord(ch) < 127 for ch in s) or "\\" in s or '"' in s:
                ok = False
                break
            recs.append({"k": kind, "s": s, "l": l, "f": file_name(s) if kind == "Str" else ""})
        if not ok or not recs or recs[-1]["k"] != "Eof":
            skipped += 1
            continue
        cases.append({"id": it["id"], "toks": recs})
    if not cases:
        return 0, 0
    path = os.path.join(vlib.WORK, "ptwin-%s-%d.ndjson" % (tag, os.getpid()))
    with open(path, "w") as f:
        for c in cases:
            f.write(json.dumps(c) + "\n")
    pred = {}
    res = run_tlc("MC_Parser", "MC_Parser.cfg", workers=8, timeout=3000, keep_lines=False, tag=tag, env_extra={"CASES": path},
                  jvm=["-Xss1g"], on_line=lambda t, o: pred.__setitem__(o["id"], o["out"]) if t == "PARSE" else None)
    if res.violation:
        rep.violation("Parser.tla (%s): TLC reports\n%s" % (what, res.violation[:1500]), {"tlc": res.violation})
        return 0, 0
    os.remove(path)
    run_cases = [{"id": c["id"], "main": sources[c["id"]], "compile_only": True, "stack_mb": 64} for c in cases if c["id"] in pred]
    n = oom = bad = nerr = 0
    for c, r in zip(run_cases, Pool(binary, "run", timeout=15).map(run_cases)):
        p = pred[c["id"]]
        if p["r"] == "oom":
            oom += 1
            continue
        if "runs" not in r:
            continue            # (a compiler that does not return is C03's parser part)
        n += 1
        run = r["runs"][0]
        src = c["main"]
        if p["r"] == "ok":
            if not run["ok"]:
                bad += 1
                if bad <= 6:
                    rep.violation("%s: the parser twin accepts %r but compilation failed: %r" % (what, src[:300], run.get("messages", [])[:2]),
                                  {"source": src, "spec": p, "impl": run})
            continue
        nerr += 1
        if run["ok"]:
            bad += 1
            if bad <= 6:
                rep.violation("%s: compilation of %r returned a function; the parser twin predicts the error [line %d] Error%s: %s"
                              % (what, src[:300], p["line"], p["where"], p["msg"]), {"source": src, "spec": p})
            continue
        want = "[module \"main\", line %d] Error%s: %s" % (p["line"], p["where"], p["msg"])
        got = run["messages"][0] if run.get("messages") else ""
        if run.get("kind") != "CompileError" or got != want:
            bad += 1
            if bad <= 6:
                rep.violation("%s: first compile error of %r is %r; the parser twin predicts %r" % (what, src[:300], got, want),
                              {"source": src, "spec": p, "impl": run})
    log("[parsertwin] %s: %d sources, %d compared (%d with a predicted error), %d outside the twin's limits, %d not representable"
        % (what, len(sources), n, nerr, oom, skipped))
    rep.add("sources_compared_with_the_parser_twin", n)
    rep.add("first_errors_predicted_by_the_parser_twin", nerr)
    return n, res.distinct


def check_generated(rep, binary, n, what, tag="pgen"):
    """MC_ParserGen: TLC enumerates every sequence of up to n tokens over the whole vocabulary and the parser twin's prediction for it; each
    sequence is rendered one token per line, compiled, and compared (the scanner must also hand the parser exactly those token kinds)."""
    import re as _re
    text = open(os.path.join(vlib.SPEC, "MC_ParserGen.tla")).read()
    vocab = _re.findall(r'T\("(\w+)", "((?:[^"\\]|\\.)*)"\)', text)
    cfgdir = os.path.join(vlib.WORK, "cfg")
    os.makedirs(cfgdir, exist_ok=True)
    cfg = os.path.join(cfgdir, "MC_ParserGen_%d.cfg" % n)
    with open(cfg, "w") as f:
        f.write("SPECIFICATION Spec\nCONSTANT N = %d\nINVARIANT EmitGen\nCHECK_DEADLOCK FALSE\n" % n)
    preds = []
    res = run_tlc("MC_ParserGen", cfg, workers=12, timeout=6000, keep_lines=False, tag=tag, jvm=["-Xss1g"],
                  on_line=lambda t, o: preds.append(o) if t == "PGEN" else None)
    if res.violation:
        rep.violation("Parser.tla is not total on the sequences of up to %d tokens: TLC reports\n%s" % (n, res.violation[:1500]), {"tlc": res.violation})
        return 0, 0

    def render(seq):
        return "".join(("@" if vocab[i - 1][0] == "Error" else vocab[i - 1][1]) + "\n" for i in seq)
    cases = [{"id": k, "main": render(p["seq"]), "compile_only": True, "stack_mb": 64} for k, p in enumerate(preds)]
    nn = bad = nerr = 0
    for c, p, r in zip(cases, preds, Pool(binary, "run", timeout=15).map(cases)):
        if "runs" not in r:
            continue
        nn += 1
        run = r["runs"][0]
        o = p["out"]
        src = c["main"]
        if o["r"] == "ok":
            ok = run["ok"]
            want = "accepted"
        else:
            nerr += 1
            want = "[module \"main\", line %d] Error%s: %s" % (o["line"], o["where"], o["msg"])
            ok = (not run["ok"]) and run.get("kind") == "CompileError" and run.get("messages") and run["messages"][0] == want
        if not ok:
            bad += 1
            if bad <= 6:
                rep.violation("%s: %r: the parser twin predicts %r, the compiler gives %r" % (what, src, want, (run.get("messages") or ["accepted"])[0] if not run["ok"] else "accepted"),
                              {"source": src, "spec": o, "impl": run})
    log("[parsertwin] %s: every sequence of up to %d tokens over %d vocabulary entries: %d compared (%d with a predicted error), TLC %d states"
        % (what, n, len(vocab), nn, nerr, res.distinct))
    rep.add("sources_compared_with_the_parser_twin", nn)
    rep.add("first_errors_predicted_by_the_parser_twin", nerr)
    rep.coverage["token_sequences_enumerated_by_TLC_up_to_length"] = n
    return nn, res.distinct


def context_sources(max_depth=3):
    """the context rules of the compiler (return / break / continue placement, self / Self / super availability, reading a variable in its own
    initialiser) under every chain of enclosing constructs up to max_depth: functions, lambdas, loops, methods, static methods and constructors of
    classes with and without a superclass - declared at top level or INSIDE one another (the rules look at the innermost class / function only)."""
    import itertools
    wraps = {
        "fn": ("fn f%d() {\n", "}\n"),
        "lambda": ("var l%d = || {\n", "};\n"),
        "while": ("while true {\n", "break;\n}\n"),
        "for": ("for i%d in 0..1 {\n", "}\n"),
        "block": ("{\n", "}\n"),
        "method-derived": ("#[derive(Base)]\nclass D%d {\nfn m(self) {\n", "}\n}\n"),
        "method-plain": ("class N%d {\nfn m(self) {\n", "}\n}\n"),
        "static-derived": ("#[derive(Base)]\nclass S%d {\n#[static]\nfn s() {\n", "}\n}\n"),
        "static-plain": ("class T%d {\n#[static]\nfn s() {\n", "}\n}\n"),
        "ctor-derived": ("#[derive(Base)]\nclass C%d {\n#[constructor]\nfn new(self) {\n", "}\n}\n"),
    }
    uses = ["return 1;\n", "return;\n", "break;\n", "continue;\n", "print(self);\n", "print(Self);\n", "super.m();\n", "var g = super.m;\n",
            "var x = x;\n", "var ok = 1;\n"]
    out = []
    names = sorted(wraps)
    for d in range(0, max_depth + 1):
        for chain in itertools.product(names, repeat=d):
            # a class may only be declared where a statement may stand: always true for these wrappers
            for use in uses:
                src = "class Base {\nfn m(self) {\nreturn 1;\n}\n}\n"
                for k, w in enumerate(chain):
                    pre = wraps[w][0]
                    src += pre % k if "%d" in pre else pre
                src += use
                for k, w in reversed(list(enumerate(chain))):
                    src += wraps[w][1]
                src += "print(1);\n"
                out.append(src)
    return out
