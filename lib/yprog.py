"""Token programs: builder (with the compiler's static name resolution), pretty-printer to yarel
source (one token per line, minimal parentheses from the precedence table), value rendering."""
import json

# ---- values ------------------------------------------------------------------------------------
NIL = {"k": "nil", "v": 0}


def num(n):
    return {"k": "num", "v": n}


def st(s):
    return {"k": "str", "v": s}


def boo(b):
    return {"k": "bool", "v": bool(b)}


def lit(v):
    if v is None:
        v = NIL
    elif isinstance(v, bool):
        v = boo(v)
    elif isinstance(v, int):
        v = num(v)
    elif isinstance(v, str):
        v = st(v)
    return {"k": "lit", "v": v}


# ---- precedence (compiler.rs RULES) ---------------------------------------------------------------
PREC = {"assign": 1, "or": 2, "and": 3, "==": 4, "!=": 4, "<": 5, ">": 5, "<=": 5, ">=": 5, "|": 6, "^": 7, "&": 8,
        "<<": 9, ">>": 9, "+": 10, "-": 10, "*": 11, "/": 11, "%": 11, "range": 12, "unary": 13, "call": 14, "primary": 15}


def esc(s):
    out = []
    for ch in s:
        if ch == '"':
            out.append('\\"')
        elif ch == "\\":
            out.append("\\\\")
        elif ch == "\n":
            out.append("\\n")
        elif ch == "\t":
            out.append("\\t")
        elif ch == "$":
            out.append("\\$")
        else:
            out.append(ch)
    return "".join(out)


def lit_src(v):
    k = v["k"]
    if k == "nil":
        return "nil", PREC["primary"]
    if k == "bool":
        return ("true" if v["v"] else "false"), PREC["primary"]
    if k == "num":
        n = v["v"]
        if n < 0:
            return "-%d" % -n, PREC["unary"]
        return str(n), PREC["primary"]
    if k == "str":
        return '"%s"' % esc(v["v"]), PREC["primary"]
    raise ValueError(v)


def expr_src(e):
    """-> (text, precedence level of the outermost operator)"""
    k = e["k"]

    def sub(x, minprec):
        t, p = expr_src(x)
        return "(%s)" % t if p < minprec else t

    if k == "lit":
        return lit_src(e["v"])
    if k == "var":
        return e["x"], PREC["primary"]
    if k == "bin":
        p = PREC[e["op"]]
        return "%s %s %s" % (sub(e["l"], p), e["op"], sub(e["r"], p + 1)), p
    if k == "un":
        return "%s%s" % (e["op"], sub(e["e"], PREC["unary"])), PREC["unary"]
    # `&&` and `||` parse their RIGHT operand at their own level (parse_precedence(And) / (Or)): a chain groups to the right, so a
    # left operand that is itself an && (an ||) needs parentheses to stay the left operand
    if k == "and":
        return "%s && %s" % (sub(e["l"], PREC["and"] + 1), sub(e["r"], PREC["and"])), PREC["and"]
    if k == "or":
        return "%s || %s" % (sub(e["l"], PREC["or"] + 1), sub(e["r"], PREC["or"])), PREC["or"]
    if k == "assign":
        return "%s = %s" % (e["x"], sub(e["e"], PREC["assign"])), PREC["assign"]
    if k == "cassign":
        return "%s %s= %s" % (e["x"], e["op"], sub(e["e"], PREC["|"])), PREC["assign"]
    if k == "call":
        return "%s(%s)" % (sub(e["f"], PREC["call"]), ", ".join(sub(a, PREC["assign"]) for a in e["args"])), PREC["call"]
    if k == "inv":
        return "%s.%s(%s)" % (sub(e["o"], PREC["call"]), e["m"], ", ".join(sub(a, PREC["assign"]) for a in e["args"])), PREC["call"]
    if k == "get":
        return "%s.%s" % (sub(e["o"], PREC["call"]), e["m"]), PREC["call"]
    if k == "setf":
        return "%s.%s = %s" % (sub(e["o"], PREC["call"]), e["m"], sub(e["e"], PREC["assign"])), PREC["assign"]
    if k == "csetf":
        return "%s.%s %s= %s" % (sub(e["o"], PREC["call"]), e["m"], e["op"], sub(e["e"], PREC["|"])), PREC["assign"]
    if k == "lam":
        ps = ", ".join(p["x"] for p in e["ps"])
        head = "|%s|" % ps if e["ps"] else "||"
        return "%s %s" % (head, sub(e["e"], PREC["assign"])), PREC["assign"]
    if k == "vec":
        return "[%s]" % ", ".join(sub(a, PREC["assign"]) for a in e["es"]), PREC["primary"]
    if k == "tup":
        inner = ", ".join(sub(a, PREC["assign"]) for a in e["es"])
        if len(e["es"]) == 1:
            inner += ","
        return "(%s)" % inner, PREC["primary"]
    if k == "map":
        kv = e["kvs"]       # flat: k1, v1, k2, v2, ...
        return "{%s}" % ", ".join("%s: %s" % (sub(kv[i], PREC["assign"]), sub(kv[i + 1], PREC["assign"])) for i in range(0, len(kv), 2)), PREC["primary"]
    if k == "idx":
        return "%s[%s]" % (sub(e["o"], PREC["call"]), sub(e["i"], PREC["assign"])), PREC["call"]
    if k == "setidx":
        return "%s[%s] = %s" % (sub(e["o"], PREC["call"]), sub(e["i"], PREC["assign"]), sub(e["e"], PREC["assign"])), PREC["assign"]
    if k == "range":
        return "%s..%s" % (sub(e["l"], PREC["range"]), sub(e["r"], PREC["unary"])), PREC["range"]
    if k == "interp":
        out = ['"']
        for part in e["parts"]:
            if part["k"] == "lit" and part["v"]["k"] == "str":
                out.append(esc(part["v"]["v"]))
            else:
                out.append("${%s}" % expr_src(part)[0])
        out.append('"')
        return "".join(out), PREC["primary"]
    if k == "Self":
        return "Self", PREC["primary"]
    if k == "superinv":
        return "super.%s(%s)" % (e["m"], ", ".join(sub(a, PREC["assign"]) for a in e["args"])), PREC["call"]
    if k == "superget":
        return "super.%s" % e["m"], PREC["call"]
    raise ValueError(k)


def src_of(e):
    return expr_src(e)[0]


def token_src(t):
    k = t["t"]
    if k == "print":
        return "print(%s);" % src_of(t["e"])
    if k == "expr":
        return "%s;" % src_of(t["e"])
    if k == "var":
        return "var %s = %s;" % (t["x"], src_of(t["e"]))
    if k == "if":
        return "if %s {" % src_of(t["e"])
    if k == "else":
        return "} else {"
    if k == "end":
        return "}"
    if k == "while":
        return "while %s {" % src_of(t["e"])
    if k == "for":
        return "for %s in %s {" % (t["x"], src_of(t["e"]))
    if k == "block":
        return "{"
    if k == "break":
        return "break;"
    if k == "continue":
        return "continue;"
    if k == "return":
        if t["e"]["k"] == "lit" and t["e"]["v"]["k"] == "nil":
            return "return;"
        return "return %s;" % src_of(t["e"])
    if k == "throw":
        return "throw %s;" % src_of(t["e"])
    if k == "try":
        return "try {"
    if k == "catch":
        return "} catch %s {" % t["x"]
    if k == "finally":
        return "} finally {"
    if k == "fn":
        return "fn %s(%s) {" % (t["x"], ", ".join(p["x"] for p in t["ps"]))
    if k == "import":
        return "import \"%s\" as %s;" % (t["p"], t["x"])
    if k == "class":
        attrs = []
        if t["sup"]["k"] == "var":
            attrs.append("derive(%s)" % t["sup"]["x"])
        if t["ctor"]:
            attrs.append("constructor(%s)" % t["ctor"])
        return ("#[%s] " % ", ".join(attrs) if attrs else "") + "class %s {" % t["x"]
    if k == "method":
        ps = [p["x"] for p in t["ps"]]
        if t["kind"] == "static":
            return "#[static] fn %s(%s) {" % (t["x"], ", ".join(ps))
        head = "#[constructor] " if t["kind"] == "ctor" else ""
        return head + "fn %s(%s) {" % (t["x"], ", ".join(["self"] + ps))
    raise ValueError(k)


def program_src(tokens):
    return "\n".join(token_src(t) for t in tokens) + "\n"


# ---- builder with static resolution ------------------------------------------------------------------
class Builder:
    """Mirrors the compiler's scoping: depth 0 of the script is global; every function has its own
    list of scopes; a name resolves to the innermost declaration that textually precedes the use,
    in this function or an enclosing one, else to the module global (d = 0)."""

    def __init__(self, first_decl=1):
        self.toks = []
        self.ln = None              # explicit source line for the tokens that follow (prelude only)
        self.next_decl = first_decl
        self.funcs = [{"scopes": [[]], "script": True}]   # stack of function contexts
        self.opens = []

    # -- names
    def declare(self, name):
        f = self.funcs[-1]
        if f["script"] and len(f["scopes"]) == 1:
            return 0
        d = self.next_decl
        self.next_decl += 1
        f["scopes"][-1].append((name, d))
        return d

    def resolve(self, name):
        for f in reversed(self.funcs):
            for sc in reversed(f["scopes"]):
                for n, d in reversed(sc):
                    if n == name:
                        return d
        return 0

    def v(self, name):
        return {"k": "var", "x": name, "d": self.resolve(name)}

    def assign(self, name, e):
        return {"k": "assign", "x": name, "d": self.resolve(name), "e": e}

    def cassign(self, name, op, e):
        return {"k": "cassign", "x": name, "d": self.resolve(name), "op": op, "e": e}

    def lam(self, params, body_fn, name=None):
        """body_fn is called after the parameters are in scope and returns the body expression.
        Lambdas are named lambda-N, N counting the lambdas compiled so far in the enclosing function."""
        enclosing = self.funcs[-1]
        n = enclosing.get("lamc", 0)
        enclosing["lamc"] = n + 1
        name = "lambda-%d" % n
        self.funcs.append({"scopes": [[]], "script": False})
        ps = [{"x": p, "d": self.declare(p)} for p in params]
        body = body_fn()
        self.funcs.pop()
        return {"k": "lam", "ps": ps, "e": body, "name": name}

    # -- statements
    def emit(self, **kw):
        if self.ln is not None:
            kw["ln"] = self.ln
        self.toks.append(kw)
        return self

    def at(self, line):
        self.ln = line
        return self

    def print(self, e):
        return self.emit(t="print", e=e)

    def expr(self, e):
        return self.emit(t="expr", e=e)

    def var(self, name, e):
        # the initialiser is resolved before the declaration is visible
        tok = {"t": "var", "x": name, "e": e, "d": None}
        tok["d"] = self.declare(name)
        if self.ln is not None:
            tok["ln"] = self.ln
        self.toks.append(tok)
        return self

    def push_scope(self):
        self.funcs[-1]["scopes"].append([])

    def pop_scope(self):
        self.funcs[-1]["scopes"].pop()

    def if_(self, e):
        self.emit(t="if", e=e)
        self.push_scope()
        self.opens.append("if")
        return self

    def else_(self):
        self.pop_scope()
        self.emit(t="else")
        self.push_scope()
        return self

    def while_(self, e):
        self.emit(t="while", e=e)
        self.push_scope()
        self.opens.append("while")
        return self

    def for_(self, name, e):
        self.push_scope()                 # the loop's own scope: loop variable (+ hidden iterator)
        d = self.declare(name)
        self.emit(t="for", x=name, d=d, e=e)
        self.push_scope()                 # the body
        self.opens.append("for")
        return self

    def block(self):
        self.emit(t="block")
        self.push_scope()
        self.opens.append("block")
        return self

    def try_(self):
        self.emit(t="try")
        self.push_scope()
        self.opens.append("try")
        return self

    def catch(self, name):
        self.pop_scope()
        self.push_scope()
        d = self.declare(name)
        self.emit(t="catch", x=name, d=d)
        return self

    def finally_(self):
        self.pop_scope()
        self.emit(t="finally")
        self.push_scope()
        return self

    def fn(self, name, params):
        d = self.declare(name)
        self.funcs.append({"scopes": [[]], "script": False})
        ps = [{"x": p, "d": self.declare(p)} for p in params]
        self.emit(t="fn", x=name, d=d, ps=ps)
        self.opens.append("fn")
        return self

    def class_(self, name, sup=None, ctor=""):
        d = self.declare(name)
        supnode = self.v(sup) if sup else lit(None)
        superd = 0
        if sup:
            self.push_scope()
            superd = self.declare("super")
        self.emit(t="class", x=name, d=d, sup=supnode, superd=superd, ctor=ctor)
        self.opens.append("class+sup" if sup else "class")
        return self

    def method(self, name, params, kind="method"):
        self.funcs.append({"scopes": [[]], "script": False})
        sd = self.declare("Self" if kind == "static" else "self")
        ps = [{"x": p, "d": self.declare(p)} for p in params]
        self.emit(t="method", x=name, ps=ps, kind=kind, sd=sd)
        self.opens.append("fn")
        return self

    def Self(self):
        return {"k": "Self", "d": self.resolve("Self")}

    def selfname(self):
        # what `super` pushes as receiver: local 0 of the innermost enclosing method (`self`, or `Self` in a static method);
        # functions and lambdas nested in the method capture it
        for f in reversed(self.funcs):
            sc = f["scopes"][0]
            if sc and sc[0][0] in ("self", "Self"):
                return sc[0][0]
        return ""

    def superinv(self, m, *args):
        n = self.selfname()
        return {"k": "superinv", "m": m, "args": list(args), "d": self.resolve("super"), "sd": self.resolve(n) if n else 0, "sx": n}

    def superget(self, m):
        n = self.selfname()
        return {"k": "superget", "m": m, "d": self.resolve("super"), "sd": self.resolve(n) if n else 0, "sx": n}

    def end(self):
        kind = self.opens.pop()
        if kind == "class":
            pass
        elif kind == "class+sup":
            self.pop_scope()
        elif kind == "fn":
            self.funcs.pop()
        else:
            self.pop_scope()
            if kind == "for":
                self.pop_scope()
        self.emit(t="end")
        return self

    def import_(self, path, name):
        d = self.declare(name)
        return self.emit(t="import", p=path, x=name, d=d)

    def break_(self):
        return self.emit(t="break")

    def continue_(self):
        return self.emit(t="continue")

    def ret(self, e=None):
        return self.emit(t="return", e=e if e is not None else lit(None))

    def throw(self, e):
        return self.emit(t="throw", e=e)


def bin_(op, l, r):
    return {"k": "bin", "op": op, "l": l, "r": r}


def un(op, e):
    return {"k": "un", "op": op, "e": e}


def call(f, *args):
    return {"k": "call", "f": f, "args": list(args)}


def vec(*es):
    return {"k": "vec", "es": list(es)}


def tup(*es):
    return {"k": "tup", "es": list(es)}


def idx(o, i):
    return {"k": "idx", "o": o, "i": i}


def and_(l, r):
    return {"k": "and", "l": l, "r": r}


def or_(l, r):
    return {"k": "or", "l": l, "r": r}
