"""core.yl's iterator classes as tokens (with their core.yl line numbers), for Machine.tla's prelude."""
import json
import os

import vlib
from yprog import Builder, lit, bin_, call, vec, un, and_


def inv(o, m, *args):
    return {"k": "inv", "o": o, "m": m, "args": list(args)}


def get(o, m):
    return {"k": "get", "o": o, "m": m}


def setf(o, m, e):
    return {"k": "setf", "o": o, "m": m, "e": e}


def build():
    b = Builder(first_decl=10000)
    S = lambda: b.v("self")
    b.at(37).class_("Iter")
    b.at(38).method("iter", []); b.at(39).ret(S()); b.at(40).end()
    b.at(42).method("map", ["f"]); b.at(43).ret(inv(b.v("MapIter"), "new", inv(S(), "iter"), b.v("f"))); b.at(44).end()
    b.at(46).method("collect", []); b.at(47).var("ret", vec()); b.at(48).for_("v", S()); b.at(49).expr(inv(b.v("ret"), "push", b.v("v"))); b.at(50).end()
    b.at(51).ret(b.v("ret")); b.at(52).end()
    b.at(54).method("filter", ["pred"]); b.at(55).ret(inv(b.v("FilterIter"), "new", inv(S(), "iter"), b.v("pred"))); b.at(56).end()
    b.at(58).method("reduce", ["func", "init"]); b.at(59).var("ret", b.v("init")); b.at(60).for_("v", S())
    b.at(61).expr(b.assign("ret", call(b.v("func"), b.v("ret"), b.v("v")))); b.at(62).end(); b.at(63).ret(b.v("ret")); b.at(64).end()
    b.at(65).end()
    for cname, first, field2 in (("MapIter", 68, "func"), ("FilterIter", 89, "predicate")):
        b.at(first).class_(cname, sup="Iter")
        b.at(first + 2).method("new", ["iterable", field2], "ctor")
        b.at(first + 3).expr(setf(S(), "iterable", b.v("iterable")))
        b.at(first + 4).expr(setf(S(), field2, b.v(field2)))
        b.at(first + 5).end()
        b.at(first + 7).method("iter", []); b.at(first + 8).ret(S()); b.at(first + 9).end()
        b.at(first + 11).method("next", [])
        b.at(first + 12).var("next", inv(get(S(), "iterable"), "next"))
        if cname == "MapIter":
            b.at(81).if_(inv(b.v("next"), "derives", b.v("StopIter"))); b.at(82).ret(b.v("next")); b.at(83).end()
            b.at(84).ret(inv(S(), "func", b.v("next"))); b.at(85).end()
            b.at(86).end()
        else:
            b.at(102).while_(and_(un("!", inv(b.v("next"), "derives", b.v("StopIter"))), un("!", inv(S(), "predicate", b.v("next")))))
            b.at(103).expr(b.assign("next", inv(get(S(), "iterable"), "next"))); b.at(104).end()
            b.at(105).ret(b.v("next")); b.at(106).end()
            b.at(107).end()
    return b.toks


def path():
    os.makedirs(vlib.WORK, exist_ok=True)
    p = os.path.join(vlib.WORK, "prelude.ndjson")
    data = json.dumps({"id": "prelude", "prog": build()})
    if not os.path.exists(p) or open(p).read().strip() != data:
        with open(p, "w") as f:
            f.write(data + "\n")
    return p
