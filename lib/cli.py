"""Drive the real command-line program (yarel-cli/src/main.rs): script files and the REPL on stdin.
What it must print, and the exit status, are derived from the reference machine's result for the same program:
stdout = the printed lines, stderr = the error's messages one per line, exit 0 / 65 (compile error) / 70 (any other error)."""
import os
import re
import shutil
import subprocess
import tempfile
from concurrent.futures import ThreadPoolExecutor

import vlib
import yprog


def build_cli(profile="dev"):
    """yarel-cli built from the repository's current working tree, hooks OFF (this is the shipped program)"""
    target = os.path.join(vlib.WORK, "cli-target")
    cmd = ["cargo", "build", "--offline", "--quiet", "-p", "yarel-cli", "--target-dir", target]
    if profile == "release":
        cmd.append("--release")
    env = dict(os.environ, CARGO_NET_OFFLINE="true")
    env.pop("RUSTFLAGS", None)
    p = subprocess.run(cmd, cwd=vlib.REPO, env=env, capture_output=True, text=True)
    if p.returncode != 0:
        raise vlib.ToolError("yarel-cli build failed (%s):\n%s" % (profile, p.stderr[-3000:]))
    return os.path.join(target, "release" if profile == "release" else "debug", "yarel-cli")


def _run(binary, args, cwd, stdin=None, timeout=60):
    try:
        p = subprocess.run([binary] + args, cwd=cwd, input=stdin, capture_output=True, text=True, timeout=timeout)
        return p.returncode, p.stdout, p.stderr
    except subprocess.TimeoutExpired:
        return -999, "", "TIMEOUT"


def norm(s):
    return vlib.norm_addr(s)


def expected_file(model):
    """model: RUN record of Machine.tla for a one-snippet program -> (exit code, stdout, stderr)"""
    out = "".join(l + "\n" for l in model["out"])
    res = model["result"]
    if res["ok"]:
        return 0, out, ""
    msgs = []
    for x in res["messages"]:
        msgs += x.split("\n") if res["kind"] != "CompileError" else [x]
    return (65 if res["kind"] == "CompileError" else 70), out, "".join(m + "\n" for m in msgs)


def run_files(rep, binary, bname, runs, what, modules_of=None):
    """runs: model RUN records with r['prog'] (tokens); each program is written to a file and run by the CLI"""
    n = 0
    root = tempfile.mkdtemp(prefix="cli", dir=vlib.WORK)

    def one(i_r):
        i, r = i_r
        d = os.path.join(root, str(i))
        os.makedirs(d)
        src = yprog.program_src(r["prog"])
        with open(os.path.join(d, "main.yl"), "w") as f:
            f.write(src)
        for path, msrc in (modules_of(r) if modules_of else {}).items():
            os.makedirs(os.path.dirname(os.path.join(d, path + ".yl")) or d, exist_ok=True)
            with open(os.path.join(d, path + ".yl"), "w") as f:
                f.write(msrc)
        return src, _run(binary, ["main.yl"], d)

    try:
        with ThreadPoolExecutor(max_workers=8) as ex:
            results = list(ex.map(one, enumerate(runs)))
        for r, (src, (rc, so, se)) in zip(runs, results):
            n += 1
            want = expected_file(r)
            got = (rc, norm(so), norm(se))
            if got != (want[0], norm(want[1]), norm(want[2])):
                rep.violation("%s: the command-line program (%s build) exits %r with stdout %r stderr %r; the specification gives exit %r stdout %r stderr %r"
                              % (what, bname, rc, so[-300:], se[-500:], want[0], want[1][-300:], want[2][-500:]), {"source": src, "expected": want, "got": [rc, so, se]})
    finally:
        shutil.rmtree(root, ignore_errors=True)
    return n


LINE = re.compile(r"line \d+")


def run_repl(rep, binary, bname, seqs, what):
    """seqs: [(model RUN record with 'runs' per snippet, body dict with snips/mods)]: one REPL process per sequence,
    one snippet per input line (statements joined by spaces, so every line number is 1 - line numbers are masked)"""
    n = 0
    root = tempfile.mkdtemp(prefix="repl", dir=vlib.WORK)

    def one(i_x):
        i, (model, body) = i_x
        d = os.path.join(root, str(i))
        os.makedirs(d)
        for md in body.get("mods", []):
            with open(os.path.join(d, md["path"] + ".yl"), "w") as f:
                f.write(md["src"] if md.get("bad") else yprog.program_src(md["prog"]))
        lines = []
        for sn in body["snips"]:
            src = sn["src"] if sn.get("bad") else yprog.program_src(sn["prog"])
            lines.append(" ".join(src.strip().split("\n")))
        return lines, _run(binary, [], d, stdin="".join(l + "\n" for l in lines))

    try:
        with ThreadPoolExecutor(max_workers=8) as ex:
            results = list(ex.map(one, enumerate(seqs)))
        for (model, body), (lines, (rc, so, se)) in zip(seqs, results):
            n += 1
            mruns = model.get("runs") or [model]
            wout, werr = "", ""
            for mr in mruns:
                wout += "> " + "".join(l + "\n" for l in mr["out"])
                res = mr["result"]
                if not res["ok"]:
                    for x in res["messages"]:
                        for y in (x.split("\n") if res["kind"] != "CompileError" else [x]):
                            werr += y + "\n"
            wout += "> \n"
            m = lambda s: LINE.sub("line N", norm(s))
            if (rc, m(so), m(se)) != (0, m(wout), m(werr)):
                rep.violation("%s: the REPL (%s build) exits %r with stdout %r stderr %r; the specification gives stdout %r stderr %r"
                              % (what, bname, rc, so[-400:], se[-500:], wout[-400:], werr[-500:]), {"input": lines, "expected": [wout, werr], "got": [rc, so, se]})
    finally:
        shutil.rmtree(root, ignore_errors=True)
    return n
