"""Shared machinery for the /verif checks: TLC driver, harness pool, evidence, findings."""
import fcntl
import json
import os
import re
import shutil
import subprocess
import sys
import threading
import time

VERIF = os.path.dirname(os.path.dirname(os.path.abspath(__file__)))
SPEC = os.path.join(VERIF, "spec")
WORK = os.path.join(VERIF, "work")
HARNESS = os.path.join(VERIF, "harness")
EVIDENCE = os.path.join(VERIF, "evidence")
REPO = os.environ.get("VERIF_REPO", "/repo")   # VERIF_REPO: only tools/seed_screen.py (a private copy of /verif bound to a scratch worktree)
NCPU = os.cpu_count() or 4


class ToolError(Exception):
    pass


def log(*a):
    print(*a, file=sys.stderr, flush=True)


# --------------------------------------------------------------------------- harness build

def build_harness(profile="dev", features=()):
    """Build vh against /repo's current working tree (hooks on). Returns the binary path."""
    os.makedirs(WORK, exist_ok=True)
    lock = os.path.join(HARNESS, "Cargo.lock")
    if not os.path.exists(lock):
        shutil.copy(os.path.join(REPO, "Cargo.lock"), lock)
    cmd = ["cargo", "build", "--offline", "--quiet"]
    tdir = "debug"
    if profile == "release":
        cmd.append("--release")
        tdir = "release"
    target = os.path.join(HARNESS, "target")
    if features:
        # feature sets get their own target dir so that switching does not thrash
        tag = "-".join(sorted(features))
        target = os.path.join(HARNESS, "target", "feat-" + tag)
        cmd += ["--target-dir", target, "--features", ",".join("yarel/" + f for f in features)]
    env = dict(os.environ)
    env["CARGO_NET_OFFLINE"] = "true"
    with open(os.path.join(WORK, "build.lock"), "w") as lf:
        fcntl.flock(lf, fcntl.LOCK_EX)
        t0 = time.time()
        p = subprocess.run(cmd, cwd=HARNESS, env=env, capture_output=True, text=True)
        if p.returncode != 0:
            raise ToolError("harness build failed (%s):\n%s" % (profile, p.stderr[-4000:]))
        log("[build] vh %s %s in %.1fs" % (profile, ",".join(features), time.time() - t0))
    return os.path.join(target, tdir, "vh")


# --------------------------------------------------------------------------- harness pool

class Pool:
    """Feed JSON lines to N `vh <cmd>` children; one reply per line.  A child that dies or hangs
    is data: the in-flight case gets {"abort": ...} / {"timeout": true} and a new child starts."""

    def __init__(self, binary, cmd, workers=None, timeout=20.0, max_failures=60):
        self.binary, self.cmd = binary, cmd
        self.workers = workers or max(2, NCPU - 2)
        self.timeout = timeout
        self.max_failures = max_failures   # after this many hangs/crashes the remaining cases are skipped
        self.failures = 0

    def _worker(self, items, results, lock, idx):
        proc = None

        def start():
            return subprocess.Popen([self.binary, self.cmd], stdin=subprocess.PIPE, stdout=subprocess.PIPE,
                                    stderr=subprocess.DEVNULL, text=True, bufsize=1)

        while True:
            with lock:
                if idx[0] >= len(items):
                    break
                i = idx[0]
                idx[0] += 1
                if self.failures >= self.max_failures:
                    results[i] = {"id": items[i].get("id"), "skipped": "too many hangs or crashes before this case"}
                    continue
            if proc is None or proc.poll() is not None:
                proc = start()
            line = json.dumps(items[i])
            reply = {}

            def read():
                try:
                    reply["line"] = proc.stdout.readline()
                except Exception as e:  # pragma: no cover
                    reply["line"] = ""

            try:
                proc.stdin.write(line + "\n")
                proc.stdin.flush()
            except BrokenPipeError:
                pass
            t = threading.Thread(target=read, daemon=True)
            t.start()
            t.join(self.timeout)
            if t.is_alive():
                proc.kill()
                proc.wait()
                t.join(1)
                results[i] = {"id": items[i].get("id"), "timeout": True}
                proc = None
                with lock:
                    self.failures += 1
                continue
            out = reply.get("line", "")
            if not out:
                rc = proc.wait()
                results[i] = {"id": items[i].get("id"), "abort": rc}
                proc = None
                with lock:
                    self.failures += 1
                continue
            try:
                results[i] = json.loads(out)
            except Exception:
                results[i] = {"id": items[i].get("id"), "harness_error": "unparsable reply", "raw": out[:500]}
        if proc is not None and proc.poll() is None:
            try:
                proc.stdin.close()
            except Exception:
                pass
            try:
                proc.wait(5)
            except Exception:
                proc.kill()

    def map(self, items):
        results = [None] * len(items)
        lock = threading.Lock()
        idx = [0]
        n = min(self.workers, max(1, len(items)))
        ts = [threading.Thread(target=self._worker, args=(items, results, lock, idx)) for _ in range(n)]
        for t in ts:
            t.start()
        for t in ts:
            t.join()
        return results


# --------------------------------------------------------------------------- TLC

class TlcResult:
    def __init__(self):
        self.generated = 0
        self.distinct = 0
        self.depth = 0
        self.lines = []      # parsed payloads of PrintT(<<"TAG", json>>) lines: (tag, obj)
        self.violation = None  # text of an invariant violation / error reported by TLC
        self.stdout = ""
        self.wall = 0.0
        self.coverage = {}
        self.rc = 0


_PRINT_RE = re.compile(r'^<<"([A-Z_]+)", (".*")>>$')


def parse_print_line(line):
    m = _PRINT_RE.match(line.strip())
    if not m:
        return None
    try:
        inner = json.loads(m.group(2))
        return m.group(1), json.loads(inner)
    except Exception:
        return None


def run_tlc(module, cfg, workers=None, simulate=None, depth=None, seed=None, timeout=600, env_extra=None,
            coverage=False, deadlock=False, tag=None, jvm=None, xmx="8g", keep_lines=True, on_line=None,
            extra=()):
    """Run TLC on spec/<module>.tla with spec/<cfg>.  PrintT(<<"TAG", ToJson(x)>>) lines are parsed."""
    os.makedirs(WORK, exist_ok=True)
    meta = os.path.join(WORK, "tlc-%s-%d-%d" % (tag or module, os.getpid(), int(time.time() * 1000) % 100000))
    cmd = ["java", "-XX:+UseParallelGC", "-Xmx" + xmx, "-Xss512m"]
    if jvm:
        cmd += list(jvm)
    cmd += ["-cp", "/opt/veriftools/tla/tla2tools.jar:/opt/veriftools/tla/CommunityModules-deps.jar", "tlc2.TLC",
            "-metadir", meta, "-cleanup", "-noGenerateSpecTE", "-config", cfg]
    if not deadlock:
        cmd += ["-deadlock"]   # -deadlock DISABLES deadlock checking
    if simulate:
        cmd += ["-simulate", "num=%d" % simulate]
        if depth:
            cmd += ["-depth", str(depth)]
        cmd += ["-workers", str(workers or 1)]
    else:
        cmd += ["-workers", str(workers or "auto")]
    if seed is not None:
        cmd += ["-seed", str(seed)]
    if coverage:
        cmd += ["-coverage", "1"]
    cmd += list(extra)
    cmd += [module + ".tla"]
    env = dict(os.environ)
    if module in ("MC_Gen", "MC_MachineFile", "MC_Snippets") and "PRELUDE" not in (env_extra or {}):
        import prelude
        env["PRELUDE"] = prelude.path()
    if env_extra:
        env.update({k: str(v) for k, v in env_extra.items()})
    res = TlcResult()
    t0 = time.time()
    p = subprocess.Popen(cmd, cwd=SPEC, env=env, stdout=subprocess.PIPE, stderr=subprocess.STDOUT, text=True,
                         bufsize=1 << 20)
    timer = threading.Timer(timeout, p.kill)
    timer.start()
    err_lines = []
    in_error = False
    tail = []
    try:
        for line in p.stdout:
            if line.startswith("<<\""):
                pl = parse_print_line(line)
                if pl is not None:
                    if on_line:
                        on_line(pl[0], pl[1])
                    if keep_lines:
                        res.lines.append(pl)
                    continue
            tail.append(line)
            if len(tail) > 400:
                tail = tail[-300:]
            m = re.search(r"(\d+) states generated, (\d+) distinct states found", line)
            if m:
                res.generated, res.distinct = int(m.group(1)), int(m.group(2))
            m = re.search(r"The number of states generated: (\d+)", line)
            if m:
                res.generated = int(m.group(1))
                res.distinct = max(res.distinct, int(m.group(1)))
            m = re.search(r"depth of the complete state graph search is (\d+)", line)
            if m:
                res.depth = int(m.group(1))
            if line.startswith("Error:") or "is violated" in line or "TLC threw" in line or "Exception" in line:
                in_error = True
            if in_error and len(err_lines) < 200:
                err_lines.append(line.rstrip())
            m = re.match(r"<(\w+) line \d+, col \d+ to line \d+, col \d+ of module (\w+)>: (\d+):(\d+)", line)
            if m:
                res.coverage[m.group(1)] = (int(m.group(3)), int(m.group(4)))
    finally:
        timer.cancel()
    res.rc = p.wait()
    res.wall = time.time() - t0
    res.stdout = "".join(tail)
    shutil.rmtree(meta, ignore_errors=True)
    if err_lines:
        res.violation = "\n".join(err_lines)
    if res.rc not in (0, 12, 13) and not err_lines:
        # 12 = safety violation, 13 = liveness; anything else without an error text is a tool failure
        if res.rc == -9:
            raise ToolError("TLC timed out after %ds on %s" % (timeout, module))
        raise ToolError("TLC exit %d on %s:\n%s" % (res.rc, module, res.stdout[-3000:]))
    return res


# --------------------------------------------------------------------------- findings

def load_findings():
    path = os.path.join(VERIF, "known_findings.json")
    if not os.path.exists(path):
        return {"findings": [], "fixed": []}
    with open(path) as f:
        return json.load(f)


# --------------------------------------------------------------------------- evidence / reporting

class Report:
    def __init__(self, prop, tier, seed, level):
        self.prop, self.tier, self.seed, self.level = prop, tier, seed, level
        self.t0 = time.time()
        self.violations = []
        self.known = []
        self.coverage = {"samples": []}
        self.assumptions = []
        self._nrep = 0

    def violation(self, what, payload):
        os.makedirs(os.path.join(WORK, "replays"), exist_ok=True)
        if len(self.violations) >= 25:       # enough replay files; keep counting
            self.violations.append((what, self.violations[-1][1]))
            return
        self._nrep += 1
        path = os.path.join(WORK, "replays", "%s-%s-%d-%d.json" % (self.prop, self.tier, os.getpid(), self._nrep))
        with open(path, "w") as f:
            json.dump({"property": self.prop, "what": what, "case": payload}, f, indent=1, default=str)
        self.violations.append((what, path))
        if len(self.violations) <= 25:
            print("VIOLATION property=%s replay=%s" % (self.prop, path), flush=True)
            log("  -> " + what[:600])

    def known_finding(self, key, what):
        if key not in [k for k, _ in self.known]:
            self.known.append((key, what))
            print("KNOWN-FINDING: property=%s %s" % (self.prop, what), flush=True)

    def sample(self, s, limit=6):
        if len(self.coverage["samples"]) < limit:
            self.coverage["samples"].append(s)

    def add(self, key, n):
        self.coverage[key] = self.coverage.get(key, 0) + n

    def finish(self):
        os.makedirs(EVIDENCE, exist_ok=True)
        ev = {"property_id": self.prop, "tier": self.tier, "seed": self.seed, "level": self.level,
              "coverage": self.coverage, "assumptions": self.assumptions,
              "wall_s": round(time.time() - self.t0, 2), "violations": len(self.violations),
              "known_findings_hit": [w for _, w in self.known]}
        with open(os.path.join(EVIDENCE, self.prop + ".json"), "w") as f:
            json.dump(ev, f, indent=1, default=str)
        return 1 if self.violations else 0


def norm_addr(s):
    return re.sub(r"0x[0-9a-fA-F]+", "[MEMADDR]", s)


# --------------------------------------------------------------------------- repository corpus

def corpus():
    """The repository's own test scripts: [(name, source, expected_lines)], and the module map the
    test harness of the repository serves (every script importable by its relative path)."""
    root = os.path.join(REPO, "yarel", "tests", "scripts")
    items, modules = [], {}
    for d, _, files in sorted(os.walk(root)):
        for f in sorted(files):
            if not f.endswith(".yl"):
                continue
            p = os.path.join(d, f)
            src = open(p, encoding="utf-8").read()
            name = os.path.relpath(p, root)[:-3]
            exp, cont = [], True
            for l in src.split("\n"):
                l = l.rstrip("\r")
                if cont and l.startswith("// "):
                    exp.append(l[3:])
                else:
                    cont = False
            if exp:
                exp.pop()
            items.append((name, src, exp))
            modules[name] = src
    modules[""] = ""
    return items, modules


def match_expected(expected, actual):
    """tests/test.rs::match_output with its [MEMADDR] wildcard."""
    if len(expected) != len(actual):
        return False
    for e, a in zip(expected, actual):
        if e == a:
            continue
        pat = re.escape(e).replace(re.escape("[MEMADDR]"), r"0x[0-9a-fA-F]+")
        if not re.match("^" + pat, a):
            return False
    return True


def run_output_lines(run):
    """Printed lines followed by error messages, the way tests/test.rs assembles them."""
    out = []
    for s in run.get("out", []):
        out += s.splitlines()
    if not run.get("ok", True):
        out += run.get("messages", [])
    return out
