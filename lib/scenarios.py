"""Scenario families: small product spaces of token programs (built with the same static resolution as
the compiler) that pin down interactions random generation reaches only rarely.  The expected behaviour
of every scenario comes from the reference machine (Machine.tla, via MC_MachineFile), never from here."""
import itertools

from yprog import Builder, lit, bin_, call, vec, idx, tup, un


def inv(o, m, *args):
    return {"k": "inv", "o": o, "m": m, "args": list(args)}


def rng(a, b):
    return {"k": "range", "l": lit(a), "r": lit(b)}


# ---------------------------------------------------------------------------------------------------
# C06: a variable is captured inside some scope, the scope is left by some path, the closure is used later
def capture_scenarios():
    out = []
    wrappers = ["block", "if", "fn", "while", "for", "try", "catch", "finally", "tryfn", "tryfinfn"]
    exits = ["fall", "break", "continue", "return", "throw", "error"]
    for wrapper, npad, kind, exit_, outer_local, write_after, postpad in itertools.product(
            wrappers, (0, 1, 2), ("read", "write", "two", "reverse"), exits, (False, True), (False, True), (0, 2)):
        if postpad and (npad == 1 or outer_local or exit_ in ("throw", "error")):
            continue
        if exit_ in ("break", "continue") and wrapper not in ("while", "for"):
            continue
        if exit_ == "return" and wrapper not in ("fn", "tryfn", "tryfinfn"):
            continue
        if exit_ in ("throw", "error") and wrapper in ("catch", "finally"):
            continue          # exceptions leaving catch / finally blocks are recorded findings (C08)
        if wrapper == "tryfn" and exit_ not in ("throw", "error", "fall"):
            continue
        b = Builder()
        if outer_local:
            b.block()
        b.var("g", lit(None))
        b.var("h", lit(None))
        guard = exit_ in ("throw", "error") and wrapper not in ("try", "tryfn")
        if wrapper == "tryfinfn" and exit_ == "error":
            continue
        if guard:
            b.try_()
        # open the wrapper
        if wrapper == "block":
            b.block()
        elif wrapper == "if":
            b.if_(lit(True))
        elif wrapper in ("fn", "tryfn", "tryfinfn"):
            b.fn("f", [])
            if wrapper in ("tryfn", "tryfinfn"):
                b.try_()
        elif wrapper == "while":
            b.var("n", lit(0))
            b.while_(bin_("<", b.v("n"), lit(2)))
            b.expr(b.assign("n", bin_("+", b.v("n"), lit(1))))
        elif wrapper == "for":
            b.for_("n", rng(0, 2))
        elif wrapper == "try":
            b.try_()
        elif wrapper == "catch":
            b.try_()
            b.throw(lit("t"))
            b.catch("e")
        elif wrapper == "finally":
            b.try_()
            b.print(lit("body"))
            b.finally_()
        for i in range(npad):
            b.var("p%d" % i, lit(100 + i))
        b.var("v", lit(1))
        if kind == "reverse":
            # two variables captured in the order opposite to their declaration; both closures are used later
            b.var("w", lit("w0"))
            b.expr(b.assign("h", b.lam([], lambda: b.v("w"))))
            b.expr(b.assign("g", b.lam([], lambda: b.v("v"))))
            b.expr(b.assign("v", lit("v1")))
        elif kind == "read":
            b.expr(b.assign("g", b.lam([], lambda: b.v("v"))))
        elif kind == "write":
            b.expr(b.assign("g", b.lam([], lambda: b.assign("v", bin_("+", b.v("v"), lit(10))))))
        else:
            b.expr(b.assign("g", b.lam([], lambda: b.v("v"))))
            b.expr(b.assign("h", b.lam(["x"], lambda: b.assign("v", b.v("x")), name="lambda-1")))
        if write_after:
            b.expr(b.assign("v", lit(2)))
        for i in range(postpad):
            # locals that are NOT captured, declared after the captured one: every scope exit must still close `v`
            b.var("z%d" % i, lit(200 + i))
        if exit_ == "break":
            b.break_()
        elif exit_ == "continue":
            b.continue_()
        elif exit_ == "return":
            b.ret(lit("r"))
        elif exit_ == "throw":
            b.throw(lit("x"))
        elif exit_ == "error":
            b.print(bin_("-", lit("s"), lit(1)))
        # close the wrapper
        if wrapper in ("block", "if", "while", "for", "catch", "finally"):
            b.end()
        elif wrapper == "try":
            b.catch("e")
            b.print(b.v("e"))
            b.end()
        elif wrapper == "fn":
            b.end()
            b.print(call(b.v("f")))
        elif wrapper == "tryfn":
            b.catch("e")
            b.print(lit("caught in f"))
            b.end()
            b.end()
            b.print(call(b.v("f")))
        elif wrapper == "tryfinfn":
            # the try body is left (by fall-through, return or throw) towards a finally block that declares locals of its own
            b.finally_()
            b.var("y", lit("fin local"))
            b.print(b.v("y"))
            b.end()
            b.end()
            b.print(call(b.v("f")))
        if guard:
            b.catch("e2")
            b.print(lit("caught"))
            b.end()
        # use the closures after the scope is gone; other locals reuse the stack meanwhile
        b.var("q0", lit("reuse0"))
        b.var("q1", lit("reuse1"))
        b.print(call(b.v("g")))
        if kind == "reverse":
            b.print(call(b.v("h")))
        if kind == "two":
            b.expr(call(b.v("h"), lit(7)))
            b.print(call(b.v("g")))
        b.print(call(b.v("g")))
        if outer_local:
            b.end()
        out.append(("cap:%s:%d:%s:%s:%s:%s:%d" % (wrapper, npad, kind, exit_, int(outer_local), int(write_after), postpad), b.toks))
    return out


def capture_order_scenarios():
    """three variables of one scope captured in every ORDER (the VM keeps the open captured variables of a fiber
    in a list sorted by stack position), with a second closure over the first-captured one (sharing), one of the
    closures optionally dropped before the scope ends, and the scope left in different ways."""
    out = []
    wrappers = ["block", "fn", "while-break", "for-continue", "fiber"]
    combos = [(w, o, d, p, None) for w, o, d, p in itertools.product(wrappers, itertools.permutations("abc"), (None, 0, 1, 2), (0, 1))]
    # the second closure over an already captured variable is created LATE - after the other variables have been captured, so that the
    # variable captured again is at any position of the VM's list (head, middle, tail), not only its head
    combos += [(w, o, d, 0, late) for w, o, d, late in itertools.product(wrappers, itertools.permutations("abc"), (None, 1), (0, 1, 2))]
    for wrapper, order, drop, pads, late in combos:
        b = Builder()
        for nme in ("ga", "gb", "gc", "sa", "sb", "sc"):
            b.var(nme, lit(None))
        if wrapper == "block":
            b.block()
        elif wrapper in ("fn", "fiber"):
            b.fn("f", [])
        elif wrapper == "while-break":
            b.var("n", lit(0))
            b.while_(bin_("<", b.v("n"), lit(3)))
            b.expr(b.assign("n", bin_("+", b.v("n"), lit(1))))
        elif wrapper == "for-continue":
            b.for_("n", rng(0, 2))
        b.var("a", lit("a0"))
        if pads:
            b.var("pad0", lit("p0"))
        b.var("b", lit("b0"))
        b.var("c", lit("c0"))
        for k, x in enumerate(order):
            if drop == k:
                # this closure lives in an inner block only: after the block nothing but the VM's own list knows the captured variable
                b.block()
                b.var("tmp", b.lam([], lambda: b.v(x)))
                b.print(call(b.v("tmp")))
                b.end()
            else:
                b.expr(b.assign("g" + x, b.lam([], lambda: b.v(x))))
            if k == 0 and late is None:
                b.expr(b.assign("s" + x, b.lam(["nv"], lambda: b.assign(x, b.v("nv")))))
        if late is not None:
            lx = order[late]
            b.expr(b.assign("s" + lx, b.lam(["nv"], lambda: b.assign(lx, b.v("nv")))))
            b.expr(call(b.v("s" + lx), lit("early")))
            b.print(b.v(lx))
        # allocate while everything is open, then change the variables directly
        b.var("junk", vec(tup(lit(1), vec(lit(2))), lit("j")))
        b.expr(b.assign("b", lit("b1")))
        if wrapper == "while-break":
            b.break_()
        elif wrapper == "for-continue":
            b.continue_()
        if wrapper in ("block", "fn", "fiber", "while-break", "for-continue"):
            b.end()
        if wrapper == "fn":
            b.expr(call(b.v("f")))
        elif wrapper == "fiber":
            b.expr(inv(inv(b.v("Fiber"), "new", b.v("f")), "call"))
        b.var("q0", lit("reuse0"))
        b.var("q1", vec(lit("reuse1")))
        b.var("q2", lit("reuse2"))
        for x in "abc":
            if drop is not None and order[drop] == x:
                continue
            b.print(call(b.v("g" + x)))
        first = order[0] if late is None else order[late]
        b.expr(call(b.v("s" + first), lit("set")))
        if not (drop is not None and order[drop] == first):
            b.print(call(b.v("g" + first)))
        out.append(("order:%s:%s:%s:%d%s" % (wrapper, "".join(order), drop, pads, "" if late is None else ":late%d" % late), b.toks))
    return out


def capture_across_switch_scenarios():
    """a variable stays ONE variable for its scope and every closure over it across fiber switches: the scope that declared it is suspended
    (it yields, or a function it called yields, or it calls another fiber) while closures over it exist; afterwards writes made directly
    and writes made through a closure must both be seen by direct reads and by reads through every closure - in the suspended fiber, in
    the fiber that resumed it, and after the scope has ended."""
    out = []
    homes = ["fiber-body", "fiber-block", "fiber-callee", "main-block", "main-fn"]
    switches = ["yield", "yield-in-callee", "call-other-fiber", "yield-twice"]
    for home, switch, first_write, escape in itertools.product(homes, switches, ("direct", "closure"), (False, True)):
        if home.startswith("main") and switch != "call-other-fiber":
            continue
        b = Builder()
        F = lambda: b.v("Fiber")
        b.var("kept", lit(None))
        b.var("log", vec())
        b.fn("pause", ["tag"]); b.ret(inv(F(), "yield", b.v("tag"))); b.end()
        b.fn("other_body", []); b.expr(inv(b.v("log"), "push", lit("other fiber ran"))); b.expr(inv(F(), "yield", lit("other yields"))); b.ret(lit("other done")); b.end()

        def do_switch(tag):
            if switch in ("yield", "yield-twice"):
                b.expr(inv(b.v("log"), "push", tup(lit("resumed with"), inv(F(), "yield", lit(tag)))))
                if switch == "yield-twice":
                    b.expr(inv(b.v("log"), "push", tup(lit("resumed again with"), inv(F(), "yield", lit(tag + "'")))))
            elif switch == "yield-in-callee":
                b.expr(inv(b.v("log"), "push", tup(lit("callee resumed with"), call(b.v("pause"), lit(tag)))))
            else:
                b.var("of_" + tag, inv(F(), "new", b.v("other_body")))
                b.expr(inv(b.v("log"), "push", inv(b.v("of_" + tag), "call")))
                b.expr(inv(b.v("log"), "push", inv(b.v("of_" + tag), "call")))

        def scope_body():
            b.var("below", lit("below"))
            b.var("x", lit(10))
            b.var("get", b.lam([], lambda: b.v("x")))
            b.var("set", b.lam(["v"], lambda: b.assign("x", b.v("v"))))
            b.var("above", lit("above"))
            if escape:
                b.expr(b.assign("kept", b.v("get")))
            do_switch("s1")
            if first_write == "direct":
                b.expr(b.assign("x", bin_("+", b.v("x"), lit(1))))
                b.print(tup(lit("after direct write"), b.v("x"), call(b.v("get"))))
                b.expr(call(b.v("set"), lit(50)))
                b.print(tup(lit("after closure write"), b.v("x"), call(b.v("get"))))
            else:
                b.expr(call(b.v("set"), lit(50)))
                b.print(tup(lit("after closure write"), b.v("x"), call(b.v("get"))))
                b.expr(b.assign("x", bin_("+", b.v("x"), lit(1))))
                b.print(tup(lit("after direct write"), b.v("x"), call(b.v("get"))))
            do_switch("s2")
            b.expr(b.assign("x", bin_("*", b.v("x"), lit(2))))
            b.print(tup(b.v("below"), b.v("x"), call(b.v("get")), b.v("above")))

        if home == "fiber-body":
            b.fn("body", ["arg0"]); scope_body(); b.ret(lit("body done")); b.end()
        elif home == "fiber-block":
            b.fn("body", ["arg0"]); b.var("outer", lit("outer")); b.block(); scope_body(); b.end(); b.print(b.v("outer")); b.ret(lit("body done")); b.end()
        elif home == "fiber-callee":
            b.fn("worker", []); scope_body(); b.ret(lit("worker done")); b.end()
            b.fn("body", ["arg0"]); b.var("mine", lit("body local")); b.print(call(b.v("worker"))); b.print(b.v("mine")); b.ret(lit("body done")); b.end()
        if home.startswith("fiber"):
            b.var("fb", inv(F(), "new", b.v("body")))
            b.var("round", lit(0))
            b.while_(un("!", inv(b.v("fb"), "has_finished")))
            b.expr(b.assign("round", bin_("+", b.v("round"), lit(1))))
            b.print(tup(lit("main got"), inv(b.v("fb"), "call", b.v("round"))))
            b.if_(bin_("!=", b.v("kept"), lit(None))); b.print(tup(lit("main reads"), call(b.v("kept")))); b.end()
            b.if_(bin_(">", b.v("round"), lit(8))); b.break_(); b.end()
            b.end()
        elif home == "main-block":
            b.block(); scope_body(); b.end()
        else:
            b.fn("mainfn", []); scope_body(); b.ret(lit("mainfn done")); b.end()
            b.print(call(b.v("mainfn")))
        b.if_(bin_("!=", b.v("kept"), lit(None))); b.print(tup(lit("afterwards"), call(b.v("kept")))); b.end()
        b.print(b.v("log"))
        out.append(("capsw:%s:%s:%s:%d" % (home, switch, first_write, int(escape)), b.toks))
    return out


def closure_retention_scenarios():
    """what a long-lived closure keeps alive (C16 / C01): three variables of one scope hold heap values and are captured in every
    order; any subset of the closures outlives the scope (stored in globals), the others are locals of the scope.  When the scope
    has ended, exactly the kept closures, the variables they captured and those variables' values are reachable - a captured
    variable that was closed must not keep the variables that were open next to it (the VM links the open ones in a list)."""
    out = []
    wrappers = ["block", "fn", "fn-return", "while-break", "fiber", "try-throw"]
    for wrapper, order, keep in itertools.product(wrappers, itertools.permutations("abc"), range(8)):
        b = Builder()
        for nme in ("ga", "gb", "gc"):
            b.var(nme, lit(None))
        if wrapper == "block":
            b.block()
        elif wrapper in ("fn", "fn-return", "fiber"):
            b.fn("f", [])
        elif wrapper == "while-break":
            b.var("n", lit(0))
            b.while_(bin_("<", b.v("n"), lit(3)))
            b.expr(b.assign("n", bin_("+", b.v("n"), lit(1))))
        elif wrapper == "try-throw":
            b.try_()
        b.var("a", vec(lit("a0")))
        b.var("b", tup(lit("b0"), vec(lit(1))))
        b.var("c", vec(lit("c0"), lit("c1")))
        for k, x in enumerate(order):
            if keep & (1 << "abc".index(x)):
                b.expr(b.assign("g" + x, b.lam([], lambda: b.v(x))))
            else:
                b.var("l" + x, b.lam([], lambda: b.v(x)))
                b.print(call(b.v("l" + x)))
        if wrapper == "while-break":
            b.break_()
        elif wrapper == "fn-return":
            b.ret(lit(1))
        elif wrapper == "try-throw":
            b.throw(lit("out"))
            b.catch("e")
            b.print(b.v("e"))
        b.end()
        if wrapper in ("fn", "fn-return"):
            b.expr(call(b.v("f")))
        elif wrapper == "fiber":
            b.expr(inv(inv(b.v("Fiber"), "new", b.v("f")), "call"))
        for x in "abc":
            if keep & (1 << "abc".index(x)):
                b.print(call(b.v("g" + x)))
        out.append(("retain:%s:%s:%d" % (wrapper, "".join(order), keep), b.toks))
    return out


# ---------------------------------------------------------------------------------------------------
# C08: where the exception is raised x which handlers are active x what the handler bodies do
def exception_scenarios():
    out = []
    sites = ["direct", "callee", "callee2", "builtin", "callee-builtin", "none"]
    shapes = ["catch", "finally", "catch-finally", "nested-inner-catch", "nested-inner-finally", "nested-rethrow",
              "loop-try", "sequential", "handler-in-callee"]
    for site, shape, locals_ in itertools.product(sites, shapes, (False, True)):
        b = Builder()
        b.fn("g2", [])
        b.throw(lit("from g2"))
        b.end()
        b.fn("g1", [])
        b.var("z", lit("g1 local"))
        b.expr(call(b.v("g2")))
        b.print(b.v("z"))
        b.end()
        b.fn("gb", [])
        b.ret(bin_("*", lit(None), lit(2)))
        b.end()

        def raise_():
            if site == "direct":
                b.throw(lit("direct"))
            elif site == "callee":
                b.expr(call(b.v("g2")))
            elif site == "callee2":
                b.expr(call(b.v("g1")))
            elif site == "builtin":
                b.print(idx(vec(lit(1)), lit(5)))
            elif site == "callee-builtin":
                b.expr(call(b.v("gb")))
            else:
                b.print(lit("no throw"))

        b.fn("main", [])
        if locals_:
            b.var("before", lit("L0"))
        if shape == "catch":
            b.try_(); raise_(); b.print(lit("after raise")); b.catch("e"); b.print(b.v("e")); b.end()
        elif shape == "finally":
            b.try_(); raise_(); b.finally_()
            if locals_:
                b.var("inner", lit("L1")); b.print(b.v("inner"))
            b.print(lit("fin")); b.end()
        elif shape == "catch-finally":
            b.try_(); raise_(); b.catch("e"); b.print(b.v("e"))
            if locals_:
                b.var("inner", lit("L1")); b.print(b.v("inner"))
            b.finally_(); b.print(lit("fin")); b.end()
        elif shape == "nested-inner-catch":
            b.try_(); b.try_(); raise_(); b.catch("e"); b.print(lit("inner")); b.end(); b.throw(lit("second")); b.catch("e2"); b.print(b.v("e2")); b.end()
        elif shape == "nested-inner-finally":
            b.try_(); b.try_(); raise_(); b.finally_(); b.print(lit("inner fin")); b.end(); b.print(lit("between")); b.catch("e2"); b.print(b.v("e2")); b.end()
        elif shape == "nested-rethrow":
            b.try_(); b.try_(); raise_(); b.finally_(); b.print(lit("f1")); b.end(); b.finally_(); b.print(lit("f2")); b.end()
        elif shape == "loop-try":
            b.for_("i", rng(0, 2)); b.try_(); b.if_(bin_("==", b.v("i"), lit(1))); raise_(); b.end(); b.print(b.v("i")); b.catch("e"); b.print(lit("caught")); b.end(); b.end()
        elif shape == "sequential":
            b.try_(); raise_(); b.catch("e"); b.print(lit("first")); b.end(); b.try_(); b.print(lit("second body")); b.finally_(); b.print(lit("second fin")); b.end(); raise_()
        elif shape == "handler-in-callee":
            b.fn("h", []); b.try_(); raise_(); b.catch("e"); b.print(lit("h caught")); b.end(); b.ret(lit("h done")); b.end()
            b.try_(); b.print(call(b.v("h"))); raise_(); b.catch("e"); b.print(lit("main caught")); b.end()
        if locals_:
            b.print(b.v("before"))
        b.print(lit("end of main"))
        b.end()
        b.expr(call(b.v("main")))
        b.print(lit("done"))
        out.append(("exc:%s:%s:%d" % (site, shape, int(locals_)), b.toks))
    return out


# ---------------------------------------------------------------------------------------------------
# C08: "... delivered to the innermost enclosing handler, with the handling function's variables intact": a closure that
# captured a variable above the handler's stack height (a local of the try body, or of a callee one or two frames up) has
# escaped before the exception; the handler then declares locals of its own (which reuse those stack slots) and the
# closure is called from the catch block, from the finally block and after the try statement
def handler_intact_scenarios():
    out = []
    sites = ["body", "callee", "callee2", "callee-builtin", "body-builtin", "mid-captures", "mid-captures-builtin"]
    shapes = ["catch", "catch-finally", "finally-outer-catch"]
    for site, shape, kind, npre, nworker in itertools.product(sites, shapes, ("read", "write"), (0, 1, 2), (0, 2)):
        if nworker and site.startswith("body") and npre == 1:
            continue
        b = Builder()
        b.var("saved", lit(None))

        def capture():
            for i in range(nworker):
                b.var("wp%d" % i, lit(300 + i))
            b.var("count", lit(100))
            if kind == "read":
                b.expr(b.assign("saved", b.lam([], lambda: b.v("count"))))
                b.expr(b.assign("count", lit(150)))
            else:
                b.expr(b.assign("saved", b.lam([], lambda: b.assign("count", bin_("+", b.v("count"), lit(1))))))

        def fail(builtin):
            if builtin:
                b.print(idx(vec(lit(1)), lit(5)))
            else:
                b.throw(lit("failed"))

        b.fn("worker", [])
        if not site.startswith("mid-captures"):
            capture()
        else:
            b.var("wlocal", lit("w0"))
        fail(site in ("callee-builtin", "mid-captures-builtin"))
        b.end()
        b.fn("middle", [])
        b.var("m", lit("m0"))
        if site.startswith("mid-captures"):
            # the capturing function is an INTERMEDIATE frame: it has let the closure escape and is itself unwound by an exception
            # raised in its callee
            capture()
        b.expr(call(b.v("worker")))
        b.print(b.v("m"))
        b.end()
        b.fn("handle", [])
        for i in range(npre):
            b.var("before%d" % i, lit("B%d" % i))
        if npre:
            # a variable of the HANDLING function declared before the try statement and captured by closures: unwinding to the handler
            # leaves it alone - afterwards the function and the closures still share it
            b.var("peek", b.lam([], lambda: b.v("before0")))
            b.var("poke", b.lam(["v"], lambda: b.assign("before0", b.v("v"))))
        if shape == "finally-outer-catch":
            b.try_()
        b.try_()
        if site in ("body", "body-builtin"):
            capture()
            fail(site == "body-builtin")
        elif site in ("callee2", "mid-captures", "mid-captures-builtin"):
            b.expr(call(b.v("middle")))
        else:
            b.expr(call(b.v("worker")))
        b.print(lit("not reached"))

        def handler_body(tag):
            b.var("label", lit("retry-" + tag))
            b.var("attempts", lit(1))
            b.print(call(b.v("saved")))
            b.print(call(b.v("saved")))
            b.print(b.v("attempts"))
            b.print(b.v("label"))
            for i in range(npre):
                b.print(b.v("before%d" % i))
            if npre:
                b.expr(call(b.v("poke"), lit("poked in " + tag)))
                b.print(tup(b.v("before0"), call(b.v("peek"))))
                b.expr(b.assign("before0", lit("set directly in " + tag)))
                b.print(tup(b.v("before0"), call(b.v("peek"))))

        if shape == "catch":
            b.catch("err"); handler_body("c"); b.print(bin_("==", b.v("err"), lit("failed"))); b.end()
        elif shape == "catch-finally":
            b.catch("err"); handler_body("c"); b.print(bin_("==", b.v("err"), lit("failed"))); b.finally_(); handler_body("f"); b.end()
        else:
            b.finally_(); handler_body("f"); b.end()
            b.catch("outer"); handler_body("o"); b.end()
        b.var("after", lit("A0"))
        b.print(call(b.v("saved")))
        b.print(b.v("after"))
        for i in range(npre):
            b.print(b.v("before%d" % i))
        if npre:
            b.expr(call(b.v("poke"), lit("poked after the try")))
            b.print(tup(b.v("before0"), call(b.v("peek"))))
        b.end()
        b.expr(call(b.v("handle")))
        b.print(call(b.v("saved")))
        out.append(("hint:%s:%s:%s:%d:%d" % (site, shape, kind, npre, nworker), b.toks))
    return out


# ---------------------------------------------------------------------------------------------------
# C08: ANY value can be thrown - nil, false, 0, the empty string, containers, classes, closures, instances - and is delivered and
# re-raised after finally blocks exactly like a string ("nothing pending" must not be confused with a falsy / nil exception)
def thrown_value_scenarios():
    out = []
    values = ["nil", "false", "zero", "empty-string", "vec", "empty-tuple", "map", "range", "class", "closure", "error-instance", "error-subclass-instance",
              "user-instance", "number"]
    shapes = ["catch", "finally-then-outer-catch", "two-finally-then-catch", "catch-finally", "callee-finally", "uncaught-through-finally", "uncaught",
              "finally-in-loop", "rethrow-same"]
    for val, shape in itertools.product(values, shapes):
        b = Builder()
        b.class_("Mine", ctor="new"); b.end()
        b.class_("MyErr", sup="ValueError", ctor="new"); b.end()
        b.fn("helper", []); b.ret(lit(1)); b.end()

        def thrown():
            return {"nil": lit(None), "false": lit(False), "zero": lit(0), "empty-string": lit(""), "vec": vec(lit(1)), "empty-tuple": tup(),
                    "map": mapnode((lit("k"), lit(1))), "range": rng(0, 2), "class": b.v("Mine"), "closure": b.v("helper"),
                    "error-instance": inv(b.v("Error"), "new", lit("ve")), "error-subclass-instance": inv(b.v("MyErr"), "new"), "user-instance": inv(b.v("Mine"), "new"), "number": lit(7)}[val]

        def fin(text):
            # the finally block allocates while the exception is waiting to be re-raised (it must survive any collection here)
            b.var("junk", vec(tup(lit(text), lit(1)), vec(lit(2))))
            b.print(tup(lit(text), idx(b.v("junk"), lit(1))))

        def show(name):
            b.print(tup(lit("caught"), call(b.v("type"), b.v(name)), bin_("==", b.v(name), lit(None)), bin_("==", b.v(name), lit(False))))
            if val not in ("user-instance", "error-instance", "error-subclass-instance", "closure"):
                b.print(b.v(name))

        b.fn("main", [])
        b.var("before", lit("B"))
        if shape == "catch":
            b.try_(); b.throw(thrown()); b.catch("e"); show("e"); b.end()
        elif shape == "finally-then-outer-catch":
            b.try_(); b.try_(); b.throw(thrown()); b.finally_(); fin("fin"); b.end(); b.print(lit("skipped")); b.catch("e"); show("e"); b.end()
        elif shape == "two-finally-then-catch":
            b.try_(); b.try_(); b.try_(); b.throw(thrown()); b.finally_(); fin("f1"); b.end(); b.print(lit("skipped1")); b.finally_(); fin("f2"); b.end()
            b.print(lit("skipped2")); b.catch("e"); show("e"); b.end()
        elif shape == "catch-finally":
            b.try_(); b.throw(thrown()); b.catch("e"); show("e"); b.finally_(); fin("fin"); b.end()
        elif shape == "callee-finally":
            b.fn("inner", []); b.try_(); b.throw(thrown()); b.finally_(); fin("inner fin"); b.end(); b.print(lit("inner skipped")); b.ret(lit("normal")); b.end()
            b.try_(); b.print(call(b.v("inner"))); b.print(lit("skipped")); b.catch("e"); show("e"); b.end()
        elif shape == "uncaught-through-finally":
            b.try_(); b.throw(thrown()); b.finally_(); fin("fin"); b.end(); b.print(lit("skipped"))
        elif shape == "uncaught":
            b.throw(thrown())
        elif shape == "finally-in-loop":
            b.try_()
            b.for_("i", rng(0, 3)); b.try_(); b.if_(bin_("==", b.v("i"), lit(1))); b.throw(thrown()); b.end(); b.print(b.v("i")); b.finally_(); fin("loop fin"); b.print(tup(lit("fin"), b.v("i"))); b.end(); b.end()
            b.catch("e"); show("e"); b.end()
        else:
            b.try_(); b.try_(); b.throw(thrown()); b.catch("e"); show("e"); b.throw(b.v("e")); b.end(); b.print(lit("skipped")); b.catch("e2"); show("e2"); b.end()
        b.print(b.v("before"))
        b.end()
        b.expr(call(b.v("main")))
        b.print(lit("done"))
        out.append(("thrown:%s:%s" % (val, shape), b.toks))
    return out


def exit_path_scenarios():
    """every way of LEAVING a try body / catch block / finally block x what the try statement has x what ran
    in the body before (nothing, a completed inner try statement, an inner try that caught) x the wrapper the
    completion travels through; afterwards the handler stack is probed by an uncaught-looking throw that only
    the probe's own catch may receive."""
    out = []
    outers = ["catch", "finally", "catch-finally"]
    befores = ["none", "inner-catch-noraise", "inner-catch-raise", "inner-finally", "inner-catch-finally-raise", "sequential-before"]
    exits = ["fall", "return", "throw", "break", "continue", "callee-throw"]
    places = ["body", "catch", "finally"]
    for outer, before, exit_, place in itertools.product(outers, befores, exits, places):
        if place == "catch" and outer == "finally":
            continue
        if place == "finally" and outer == "catch":
            continue
        if place != "body" and before not in ("none", "inner-catch-raise"):
            continue
        b = Builder()
        b.fn("thrower", [])
        b.throw(lit("from callee"))
        b.end()
        b.fn("main", ["n"])
        b.var("acc", lit("L0"))
        b.for_("i", rng(0, 3))
        b.var("loc", lit("loop local"))

        def inner():
            if before == "inner-catch-noraise":
                b.try_(); b.print(lit("inner body")); b.catch("ie"); b.print(lit("inner caught")); b.end()
            elif before == "inner-catch-raise":
                b.try_(); b.throw(lit("inner exc")); b.catch("ie"); b.print(b.v("ie")); b.end()
            elif before == "inner-finally":
                b.try_(); b.print(lit("inner body")); b.finally_(); b.print(lit("inner fin")); b.end()
            elif before == "inner-catch-finally-raise":
                b.try_(); b.throw(lit("inner exc")); b.catch("ie"); b.print(b.v("ie")); b.finally_(); b.print(lit("inner fin")); b.end()

        def leave():
            if exit_ == "return":
                b.if_(bin_("==", b.v("i"), lit(1))); b.ret(lit("returned")); b.end()
            elif exit_ == "throw":
                b.if_(bin_("==", b.v("i"), lit(1))); b.throw(lit("thrown")); b.end()
            elif exit_ == "callee-throw":
                b.if_(bin_("==", b.v("i"), lit(1))); b.expr(call(b.v("thrower"))); b.end()
            elif exit_ == "break":
                b.if_(bin_("==", b.v("i"), lit(1))); b.break_(); b.end()
            elif exit_ == "continue":
                b.if_(bin_("==", b.v("i"), lit(1))); b.continue_(); b.end()
            b.print(tup(lit("stayed"), b.v("i")))

        if before == "sequential-before":
            b.try_(); b.print(lit("earlier body")); b.catch("pe"); b.print(lit("earlier caught")); b.end()
        b.try_()
        b.var("inbody", lit("body local"))
        if place == "body":
            inner()
            leave()
        else:
            # reach the catch / finally block with an exception (catch) or normally and exceptionally (finally)
            if place == "catch" or before == "inner-catch-raise":
                b.if_(bin_("<", b.v("i"), lit(2))); b.throw(lit("to handler")); b.end()
            b.print(b.v("inbody"))
        if outer in ("catch", "catch-finally"):
            b.catch("e")
            b.print(tup(lit("caught"), b.v("e")))
            if place == "catch":
                leave()
        if outer in ("finally", "catch-finally"):
            b.finally_()
            b.print(lit("fin"))
            if place == "finally":
                leave()
        b.end()
        b.print(tup(b.v("loc"), b.v("acc"), b.v("i")))
        b.end()        # for
        b.ret(lit("end of main"))
        b.end()        # fn
        # the call is itself protected: what escapes main must arrive here and nowhere else
        b.try_()
        b.print(call(b.v("main"), lit(0)))
        b.catch("oe")
        b.print(tup(lit("outer caught"), b.v("oe")))
        b.end()
        # probe: any handler left behind by main would receive this instead of the probe's catch
        b.try_()
        b.throw(lit("probe"))
        b.catch("pe2")
        b.print(tup(lit("probe caught"), b.v("pe2")))
        b.end()
        b.try_()
        b.print(lit("probe body"))
        b.finally_()
        b.print(lit("probe fin"))
        b.end()
        b.print(lit("done"))
        out.append(("exit:%s:%s:%s:%s" % (outer, before, exit_, place), b.toks))
    return out


def fiber_reentry_scenarios():
    """a chain of fibers each waiting for the next one (depth 2..4); the innermost tries to call a fiber anywhere up the chain - itself,
    its direct caller, any earlier one - or a finished / a suspended outsider: every fiber that is waiting for a callee (or running)
    refuses with the same error, nothing is re-entered, and the whole chain then completes in order."""
    out = []
    for depth in (2, 3, 4):
        for target in list(range(depth)) + ["finished", "suspended"]:
            for guarded in (True, False):
                b = Builder()
                F = lambda: b.v("Fiber")
                b.var("log", vec())
                b.var("fibers", vec())
                b.fn("spare_body", ["a"]); b.expr(inv(F(), "yield", tup(lit("spare yields"), b.v("a")))); b.ret(lit("spare done")); b.end()
                b.var("finished", inv(F(), "new", b.v("spare_body")))
                b.expr(inv(b.v("finished"), "call", lit(1))); b.expr(inv(b.v("finished"), "call", lit(2)))
                b.var("suspended", inv(F(), "new", b.v("spare_body")))
                b.expr(inv(b.v("suspended"), "call", lit(3)))
                for lvl in range(depth - 1, -1, -1):
                    b.fn("level%d" % lvl, ["arg"])
                    b.var("mine", lit("local of level %d" % lvl))
                    b.expr(inv(b.v("log"), "push", tup(lit("enter"), lit(lvl), b.v("arg"))))
                    if lvl == depth - 1:
                        tgt = idx(b.v("fibers"), lit(target)) if isinstance(target, int) else b.v(target)
                        if guarded:
                            b.try_(); b.expr(inv(b.v("log"), "push", tup(lit("inner call gave"), inv(tgt, "call", lit("re-entry"))))); b.catch("e")
                            b.expr(inv(b.v("log"), "push", tup(lit("refused"), call(b.v("type"), b.v("e")), get(b.v("e"), "context")))); b.end()
                        else:
                            b.expr(inv(b.v("log"), "push", tup(lit("inner call gave"), inv(tgt, "call", lit("re-entry")))))
                    else:
                        b.expr(inv(b.v("log"), "push", tup(lit("callee of"), lit(lvl), lit("gave"), inv(idx(b.v("fibers"), lit(lvl + 1)), "call", tup(lit("from"), lit(lvl))))))
                    b.expr(inv(b.v("log"), "push", tup(lit("leave"), lit(lvl), b.v("mine"))))
                    b.ret(tup(lit("result of"), lit(lvl)))
                    b.end()
                for lvl in range(depth):
                    b.expr(inv(b.v("fibers"), "push", inv(F(), "new", b.v("level%d" % lvl))))
                b.try_()
                b.print(inv(idx(b.v("fibers"), lit(0)), "call", lit("start")))
                b.catch("top"); b.print(tup(lit("main caught"), call(b.v("type"), b.v("top")), get(b.v("top"), "context"))); b.end()
                b.for_("entry", b.v("log")); b.print(b.v("entry")); b.end()
                b.print(tup(inv(b.v("suspended"), "has_finished"), inv(b.v("finished"), "has_finished")))
                b.print(inv(b.v("suspended"), "call", lit("resume the outsider")))
                out.append(("freentry:%d:%s:%d" % (depth, target, int(guarded)), b.toks))
    return out


def fiber_switch_context_scenarios():
    """a fiber switch performed while the CALLER is in every kind of context the VM keeps per-interpreter or per-fiber state
    for: inside try bodies (handler stacks), catch blocks, finally blocks with nothing / an exception / a return value pending,
    loops with iterators on the stack, argument evaluation; the switch is a first call, a resume or a yield back; afterwards
    the caller's pending completion must continue exactly as if the fiber operation had been an ordinary call."""
    out = []
    contexts = ["plain", "try-body", "catch-block", "finally-normal", "finally-exception", "finally-return", "for-loop", "argument"]
    ops = ["first-call", "resume", "first-call-arg", "call-finishing", "nested-first-call"]
    for ctx, op, where in itertools.product(contexts, ops, ("main", "fiber")):
        b = Builder()
        F = lambda: b.v("Fiber")
        b.fn("work", [])
        b.print(lit("work start"))
        b.var("got", inv(F(), "yield", lit("y1")))
        b.print(tup(lit("work resumed"), b.v("got")))
        b.ret(lit("work done"))
        b.end()
        b.fn("work1", ["p"])
        b.print(tup(lit("work1"), b.v("p")))
        b.ret(tup(lit("ret"), b.v("p")))
        b.end()
        b.fn("quick", [])
        b.ret(lit("quick done"))
        b.end()
        b.fn("outerwork", [])
        b.var("inner", inv(F(), "new", b.v("quick")))
        b.ret(tup(lit("outer saw"), inv(b.v("inner"), "call")))
        b.end()
        b.var("fw", inv(F(), "new", b.v("work")))
        if op == "resume":
            b.print(inv(b.v("fw"), "call"))

        def switch():
            if op == "first-call":
                b.print(inv(b.v("fw"), "call"))
            elif op == "resume":
                b.print(inv(b.v("fw"), "call", lit("r1")))
            elif op == "first-call-arg":
                b.print(inv(inv(F(), "new", b.v("work1")), "call", lit("a1")))
            elif op == "call-finishing":
                b.print(inv(inv(F(), "new", b.v("quick")), "call"))
            else:
                b.print(inv(inv(F(), "new", b.v("outerwork")), "call"))

        b.fn("ctx", [])
        b.var("local", lit("ctx local"))
        if ctx == "plain":
            switch()
        elif ctx == "try-body":
            b.try_(); switch(); b.throw(lit("after switch")); b.catch("e"); b.print(tup(lit("caught"), b.v("e"))); b.end()
        elif ctx == "catch-block":
            b.try_(); b.throw(lit("first")); b.catch("e"); switch(); b.print(tup(lit("still"), b.v("e"))); b.end()
        elif ctx == "finally-normal":
            b.try_(); b.print(lit("body")); b.finally_(); switch(); b.print(lit("fin end")); b.end()
        elif ctx == "finally-exception":
            b.try_(); b.throw(lit("pending exc")); b.finally_(); switch(); b.print(lit("fin end")); b.end()
            b.print(lit("NOT REACHED"))
        elif ctx == "finally-return":
            b.try_(); b.ret(lit("pending return")); b.finally_(); switch(); b.print(lit("fin end")); b.end()
            b.print(lit("NOT REACHED"))
        elif ctx == "for-loop":
            b.for_("i", vec(lit("e1"), lit("e2"))); switch(); b.print(b.v("i")); b.break_(); b.end()
        elif ctx == "argument":
            b.print(tup(lit("before"), inv(inv(F(), "new", b.v("quick")), "call"), lit("after")))
            switch()
        b.print(b.v("local"))
        b.ret(lit("ctx done"))
        b.end()
        b.fn("runner", [])
        b.try_()
        b.print(call(b.v("ctx")))
        b.catch("oe")
        b.print(tup(lit("runner caught"), b.v("oe")))
        b.end()
        b.ret(lit("runner done"))
        b.end()
        if where == "main":
            b.print(call(b.v("runner")))
        else:
            b.print(inv(inv(F(), "new", b.v("runner")), "call"))
        # the handler discipline afterwards: a fresh throw reaches only its own handler
        b.try_(); b.throw(lit("probe")); b.catch("pe"); b.print(tup(lit("probe caught"), b.v("pe"))); b.end()
        b.try_(); b.print(lit("probe body")); b.finally_(); b.print(lit("probe fin")); b.end()
        b.print(lit("done"))
        out.append(("fsw:%s:%s:%s" % (ctx, op, where), b.toks))
    return out


def csetf(o, m, op, e):
    return {"k": "csetf", "o": o, "m": m, "op": op, "e": e}


def expression_form_scenarios():
    """the expression forms the operator profiles do not reach: compound assignment to properties (object evaluated once, read before
    the right-hand side, every operator, missing property, non-instances, module attributes), chained assignments, assignment as a
    value, short-circuit operators with side effects in both operands, nested interpolation, every value kind through String.from /
    interpolation / print, tuples and ranges as values."""
    out = []
    OPS = ["+", "-", "*", "/", "%", "&", "|", "^", "<<", ">>"]
    for k, op in enumerate(OPS):
        for target in ("instance", "fresh-each-time", "module", "missing", "number", "string-field", "nil-field"):
            b = Builder()
            b.class_("Box", ctor="new"); b.method("make", ["v"], "ctor"); b.expr(setf(b.v("self"), "v", b.v("v"))); b.end()
            b.method("show", []); b.ret(tup(lit("box"), get(b.v("self"), "v"))); b.end(); b.end()
            b.var("made", lit(0))
            b.var("shared", inv(b.v("Box"), "make", lit(12)))
            b.fn("mk", []); b.expr(b.assign("made", bin_("+", b.v("made"), lit(1)))); b.print(tup(lit("mk called"), b.v("made"))); b.ret(b.v("shared")); b.end()
            b.fn("rhs", []); b.print(tup(lit("rhs sees"), get(b.v("shared"), "v"))); b.ret(lit(2)); b.end()
            mods = []
            b.try_()
            if target == "instance":
                b.print(csetf(b.v("shared"), "v", op, call(b.v("rhs")))); b.print(inv(b.v("shared"), "show"))
            elif target == "fresh-each-time":
                b.print(csetf(call(b.v("mk")), "v", op, call(b.v("rhs")))); b.print(inv(b.v("shared"), "show")); b.print(b.v("made"))
            elif target == "module":
                lb = Builder(first_decl=5000); lb.var("count", lit(12)); lb.fn("get", []); lb.ret(lb.v("count")); lb.end()
                mods = [{"path": "lib", "prog": lb.toks}]
                b.import_("lib", "lib"); b.print(csetf(b.v("lib"), "count", op, lit(2))); b.print(inv(b.v("lib"), "get")); b.print(get(b.v("lib"), "count"))
            elif target == "missing":
                b.print(csetf(b.v("shared"), "nosuch", op, call(b.v("rhs"))))
            elif target == "number":
                b.print(csetf(lit(5), "v", op, call(b.v("rhs"))))
            elif target == "string-field":
                b.expr(setf(b.v("shared"), "v", lit("s"))); b.print(csetf(b.v("shared"), "v", op, lit("t"))); b.print(inv(b.v("shared"), "show"))
            else:
                b.expr(setf(b.v("shared"), "v", lit(None))); b.print(csetf(b.v("shared"), "v", op, lit(1))); b.print(inv(b.v("shared"), "show"))
            b.catch("e"); b.print(tup(lit("error"), call(b.v("type"), b.v("e")), get(b.v("e"), "context"))); b.print(inv(b.v("shared"), "show")); b.end()
            b.print(lit("done"))
            body = {"snips": [{"prog": b.toks}], "mods": mods} if mods else b.toks
            out.append(("expr:csetf:%s:%s" % (op, target), body))
    # shift counts around the word size (0, 1, 31..33, 62..65, 127, 128, negative) and bit operations on negative operands: one
    # program per case, so that a result outside the machine's exact number domain costs only that case
    for op, a, c in itertools.product(("<<", ">>"), (1, -1, 3, 0, 1048575), (0, 1, 31, 32, 33, 62, 63, 64, 65, 127, 128, -1)):
        b = Builder()
        b.var("x", lit(a))
        b.try_(); b.print(bin_(op, b.v("x"), lit(c))); b.print(b.cassign("x", op, lit(c))); b.print(b.v("x"))
        b.catch("e"); b.print(tup(lit("error"), call(b.v("type"), b.v("e")), get(b.v("e"), "context"))); b.end()
        out.append(("expr:shift:%s:%d:%d" % (op, a, c), b.toks))
    for op, a, c in itertools.product(("&", "|", "^", "%", "/"), (7, -7, 0, -1), (3, -3, 0, -1)):
        b = Builder()
        b.var("x", lit(a))
        b.try_(); b.print(bin_(op, b.v("x"), lit(c))); b.print(b.cassign("x", op, lit(c))); b.print(b.v("x"))
        b.catch("e"); b.print(tup(lit("error"), call(b.v("type"), b.v("e")), get(b.v("e"), "context"))); b.end()
        out.append(("expr:bits:%s:%d:%d" % (op, a, c), b.toks))
    # chained / nested assignments and short-circuit operators with effects on both sides
    for variant in range(12):
        b = Builder()
        b.class_("Box", ctor="new"); b.end()
        b.var("log", vec())
        b.fn("t", ["x"]); b.expr(inv(b.v("log"), "push", tup(lit("t"), b.v("x")))); b.ret(b.v("x")); b.end()
        b.var("a", lit(1)); b.var("c", lit(2)); b.var("o", inv(b.v("Box"), "new")); b.var("v", vec(lit(0), lit(0)))
        if variant == 0:
            b.print(b.assign("a", b.assign("c", lit(3)))); b.print(tup(b.v("a"), b.v("c")))
        elif variant == 1:
            b.print(setf(b.v("o"), "p", setf(b.v("o"), "q", lit(4)))); b.print(tup(get(b.v("o"), "p"), get(b.v("o"), "q")))
        elif variant == 2:
            b.print({"k": "setidx", "o": b.v("v"), "i": lit(0), "e": b.assign("a", lit(5))}); b.print(tup(b.v("v"), b.v("a")))
        elif variant == 3:
            b.print({"k": "and", "l": call(b.v("t"), lit(False)), "r": call(b.v("t"), lit("never"))}); b.print(b.v("log"))
        elif variant == 4:
            b.print({"k": "or", "l": call(b.v("t"), lit(None)), "r": call(b.v("t"), lit("second"))}); b.print(b.v("log"))
        elif variant == 5:
            b.print({"k": "or", "l": {"k": "and", "l": call(b.v("t"), lit(1)), "r": call(b.v("t"), lit(False))}, "r": {"k": "and", "l": call(b.v("t"), lit(0)), "r": call(b.v("t"), lit("last"))}}); b.print(b.v("log"))
        elif variant == 6:
            b.print({"k": "interp", "parts": [lit("a"), {"k": "interp", "parts": [lit("b"), b.v("a"), lit("c")]}, lit("d"), tup(lit(1), vec(lit(2)))]})
        elif variant == 7:
            # (a compound assignment's right-hand side may not itself contain an assignment: the compiler parses it in a restricted mode)
            b.print(b.cassign("a", "+", bin_("*", b.v("c"), lit(5)))); b.print(tup(b.v("a"), b.v("c")))
        elif variant == 8:
            b.print({"k": "and", "l": b.assign("a", lit(0)), "r": b.assign("c", lit(9))}); b.print(tup(b.v("a"), b.v("c")))
        elif variant == 9:
            b.print(bin_("==", tup(lit(1), vec(lit(2), tup())), tup(lit(1), vec(lit(2), tup())))); b.print(bin_("==", {"k": "range", "l": lit(1), "r": lit(3)}, {"k": "range", "l": lit(1), "r": lit(3)}))
        elif variant == 10:
            b.print(un("!", {"k": "or", "l": lit(None), "r": lit(False)})); b.print(un("-", un("-", lit(3)))); b.print(un("~", un("~", lit(7))))
        else:
            b.expr(setf(b.v("o"), "n", lit(1))); b.print(csetf(b.v("o"), "n", "+", bin_("*", get(b.v("o"), "n"), lit(10)))); b.print(get(b.v("o"), "n"))
        out.append(("expr:misc:%d" % variant, b.toks))
    # interpolation: every part is evaluated AND converted to text before the next part is evaluated (left to right, once)
    for variant, where in itertools.product(range(8), ("print", "var", "arg")):
        b = Builder()
        b.var("log", vec())
        b.fn("t", ["x"]); b.expr(inv(b.v("log"), "push", b.v("x"))); b.ret(b.v("x")); b.end()
        b.fn("show", ["s"]); b.print(tup(lit("show"), b.v("s"))); b.ret(b.v("s")); b.end()
        b.var("v", vec(lit(1), lit(2))); b.var("m", mapnode((lit("k"), lit(1)))); b.var("a", lit(1))
        if variant == 0:
            e = {"k": "interp", "parts": [b.v("v"), lit(" then "), {"k": "setidx", "o": b.v("v"), "i": lit(0), "e": lit(9)}, lit(" now "), b.v("v")]}
        elif variant == 1:
            e = {"k": "interp", "parts": [b.v("v"), lit("|"), inv(b.v("v"), "push", lit(3)), lit("|"), b.v("v"), lit("|"), inv(b.v("v"), "pop"), lit("|"), b.v("v")]}
        elif variant == 2:
            e = {"k": "interp", "parts": [b.v("m"), lit("|"), inv(b.v("m"), "insert", lit("k"), lit(2)), lit("|"), b.v("m")]}
        elif variant == 3:
            e = {"k": "interp", "parts": [b.v("a"), lit("|"), b.assign("a", lit(5)), lit("|"), b.v("a")]}
        elif variant == 4:
            e = {"k": "interp", "parts": [call(b.v("t"), lit(1)), call(b.v("t"), lit("two")), lit("-"), call(b.v("t"), vec(lit(3)))]}
        elif variant == 5:
            e = {"k": "interp", "parts": [tup(b.v("v"), lit(0)), lit("|"), inv(b.v("v"), "push", lit(7)), lit("|"), tup(b.v("v"), lit(0))]}
        elif variant == 6:
            e = {"k": "interp", "parts": [b.v("v"), {"k": "interp", "parts": [lit("<"), inv(b.v("v"), "pop"), lit(">")]}, b.v("v")]}
        else:
            e = {"k": "interp", "parts": [b.v("v"), lit("|"), bin_("+", lit("s"), lit(1)), lit("|"), inv(b.v("v"), "push", lit(4))]}
        b.try_()
        if where == "print":
            b.print(e)
        elif where == "var":
            b.var("r", e); b.print(b.v("r"))
        else:
            b.expr(call(b.v("show"), e))
        b.catch("err"); b.print(tup(lit("error"), call(b.v("type"), b.v("err")))); b.end()
        b.print(tup(b.v("v"), b.v("m"), b.v("a"), b.v("log")))
        out.append(("expr:interp:%d:%s" % (variant, where), b.toks))
    return out


def function_ending_scenarios():
    """what a function returns when control reaches its end by every route: the last statement is an if without else, an if / else
    whose branches return or not, a loop, a block, a try statement, a declaration (also one whose last operand byte happens to be
    the Return opcode's value, 57), an expression statement; for functions, methods, lambdas with block bodies and initialisers.
    Every path through the last statement is taken."""
    out = []
    endings = ["if-then-returns", "if-else-then-returns", "if-else-else-returns", "if-else-both-return", "if-else-none-return", "nested-if-else",
               "while-return-inside", "for-return-inside", "block-return-inside", "try-catch-return-in-catch", "try-finally-plain", "var-last",
               "var-vec57", "var-tuple57", "var-call57", "expr-last", "while-false", "throw-last-caught"]
    for ending, wrapper in itertools.product(endings, ("fn", "method", "lambda", "nested-fn")):
        b = Builder()
        b.fn("many", ["a%d" % i for i in range(57)]); b.ret(b.v("a56")); b.end()

        def body():
            c = lambda: bin_("==", b.v("n"), lit(1))
            if ending == "if-then-returns":
                b.if_(c()); b.ret(lit("then")); b.end()
            elif ending == "if-else-then-returns":
                b.if_(c()); b.ret(lit("then")); b.else_(); b.print(lit("else side")); b.end()
            elif ending == "if-else-else-returns":
                b.if_(c()); b.print(lit("then side")); b.else_(); b.print(lit("else side")); b.ret(lit("else")); b.end()
            elif ending == "if-else-both-return":
                b.if_(c()); b.ret(lit("then")); b.else_(); b.ret(lit("else")); b.end()
            elif ending == "if-else-none-return":
                b.if_(c()); b.print(lit("then side")); b.else_(); b.print(lit("else side")); b.end()
            elif ending == "nested-if-else":
                b.if_(c()); b.if_(bin_("==", b.v("n"), lit(1))); b.print(lit("inner then")); b.else_(); b.ret(lit("inner else")); b.end(); b.else_()
                b.if_(bin_("==", b.v("n"), lit(2))); b.ret(lit("second")); b.else_(); b.print(lit("falls")); b.end(); b.end()
            elif ending == "while-return-inside":
                b.var("i", lit(0)); b.while_(bin_("<", b.v("i"), lit(3))); b.expr(b.assign("i", bin_("+", b.v("i"), lit(1)))); b.if_(bin_("==", b.v("i"), b.v("n"))); b.ret(tup(lit("in loop"), b.v("i"))); b.end(); b.end()
            elif ending == "for-return-inside":
                b.for_("i", {"k": "range", "l": lit(0), "r": lit(3)}); b.if_(bin_("==", b.v("i"), b.v("n"))); b.ret(tup(lit("in for"), b.v("i"))); b.end(); b.end()
            elif ending == "block-return-inside":
                b.block(); b.var("inner", lit("blk")); b.if_(c()); b.ret(b.v("inner")); b.end(); b.end()
            elif ending == "try-catch-return-in-catch":
                b.try_(); b.if_(c()); b.throw(lit("t")); b.end(); b.print(lit("no throw")); b.catch("e"); b.ret(tup(lit("from catch"), b.v("e"))); b.end()
            elif ending == "try-finally-plain":
                b.try_(); b.print(lit("body")); b.finally_(); b.print(lit("fin")); b.end()
            elif ending == "var-last":
                b.var("last", lit("unused"))
            elif ending == "var-vec57":
                b.var("last", vec(*[lit(i) for i in range(57)]))
            elif ending == "var-tuple57":
                b.var("last", tup(*[lit(i) for i in range(57)]))
            elif ending == "var-call57":
                b.var("last", call(b.v("many"), *[lit(i) for i in range(57)]))
            elif ending == "expr-last":
                b.expr(bin_("+", b.v("n"), lit(1)))
            elif ending == "while-false":
                b.while_(lit(False)); b.print(lit("never")); b.end()
            elif ending == "throw-last-caught":
                b.if_(c()); b.throw(lit("thrown at the end")); b.end()

        if wrapper == "fn":
            b.fn("f", ["n"]); b.var("pad", lit("p")); body(); b.end()
            callee = lambda a: call(b.v("f"), lit(a))
        elif wrapper == "nested-fn":
            b.fn("outer", ["n"]); b.fn("f", ["n"]); b.var("pad", lit("p")); body(); b.end(); b.ret(call(b.v("f"), b.v("n"))); b.end()
            callee = lambda a: call(b.v("outer"), lit(a))
        elif wrapper == "method":
            b.class_("K", ctor="new"); b.method("f", ["n"]); b.var("pad", lit("p")); body(); b.end(); b.end()
            b.var("k", inv(b.v("K"), "new"))
            callee = lambda a: inv(b.v("k"), "f", lit(a))
        else:
            # a lambda cannot hold statements: it calls the function (its own implicit return follows a call)
            b.fn("f", ["n"]); b.var("pad", lit("p")); body(); b.end()
            b.var("lm", b.lam(["n"], lambda: call(b.v("f"), b.v("n"))))
            callee = lambda a: call(b.v("lm"), lit(a))
        for a in (1, 2, 3):
            b.try_(); b.print(tup(lit("result"), callee(a))); b.catch("e"); b.print(tup(lit("caught"), b.v("e"))); b.end()
        b.print(lit("done"))
        out.append(("ending:%s:%s" % (ending, wrapper), b.toks))
    return out


def cross_module_scenarios():
    """control comes BACK into a module from code of another module in every way the VM has - an exception landing on a
    handler, a fiber yielding / finishing, a function returning, an import completing or failing - and the code that
    continues must be running in its own module again: it reads, writes and defines ITS globals, and closures it creates
    belong to it."""
    out = []
    transfers = ["throw-from-lib-fn", "builtin-error-in-lib-fn", "throw-through-lib-finally", "callback-throws-caught-in-lib",
                 "lib-fiber-yields", "lib-fiber-finishes", "lib-fn-returns", "lib-body-throws", "lib-method-throws", "nested-lib-throw"]
    afters = ["read-global", "write-global", "define-global", "make-closure", "call-own-fn"]
    for transfer, after, place in itertools.product(transfers, afters, ("catch", "finally", "after")):
        if place in ("catch", "finally") and transfer in ("lib-fiber-yields", "lib-fiber-finishes", "lib-fn-returns"):
            continue
        lb = Builder(first_decl=5000)
        lb.var("name", lit("lib"))
        lb.var("count", lit(100))
        lb.fn("boom", []); lb.throw(lit("from lib")); lb.end()
        lb.fn("bad_index", []); lb.ret(idx(vec(lit(1)), lit(9))); lb.end()
        lb.fn("through_finally", []); lb.try_(); lb.expr(call(lb.v("boom"))); lb.finally_(); lb.expr(lb.assign("count", bin_("+", lb.v("count"), lit(1)))); lb.end(); lb.end()
        lb.fn("run_callback", ["cb"]); lb.try_(); lb.expr(call(lb.v("cb"))); lb.catch("le"); lb.expr(lb.assign("count", bin_("+", lb.v("count"), lit(1)))); lb.ret(tup(lit("lib caught"), lb.v("le"), lb.v("name"), lb.v("count"))); lb.end(); lb.ret(lit("callback returned")); lb.end()
        lb.fn("gen", []); lb.expr(inv(lb.v("Fiber"), "yield", tup(lit("yield from"), lb.v("name")))); lb.ret(tup(lit("done in"), lb.v("name"))); lb.end()
        lb.fn("make_fiber", []); lb.ret(inv(lb.v("Fiber"), "new", lb.v("gen"))); lb.end()
        lb.fn("plain", []); lb.ret(tup(lit("plain in"), lb.v("name"))); lb.end()
        lb.class_("Thing", ctor="new"); lb.method("explode", []); lb.throw(tup(lit("method in"), lb.v("name"))); lb.end(); lb.end()
        lb.fn("relay", []); lb.import_("lib2", "l2"); lb.ret(inv(lb.v("l2"), "boom2")); lb.end()
        l2 = Builder(first_decl=7000)
        l2.var("name", lit("lib2"))
        l2.fn("boom2", []); l2.throw(tup(lit("from"), l2.v("name"))); l2.end()
        fb = Builder(first_decl=8000)
        fb.var("name", lit("failing"))
        fb.print(lit("failing body"))
        fb.throw(lit("failing while loading"))
        b = Builder()
        b.var("name", lit("main"))
        b.var("count", lit(0))
        b.fn("own", []); b.ret(tup(lit("own fn in"), b.v("name"))); b.end()
        b.import_("lib", "lib")
        b.var("made", lit(None))

        def go():
            if transfer == "throw-from-lib-fn":
                b.expr(inv(b.v("lib"), "boom"))
            elif transfer == "builtin-error-in-lib-fn":
                b.expr(inv(b.v("lib"), "bad_index"))
            elif transfer == "throw-through-lib-finally":
                b.expr(inv(b.v("lib"), "through_finally"))
            elif transfer == "callback-throws-caught-in-lib":
                b.print(inv(b.v("lib"), "run_callback", b.lam([], lambda: bin_("-", b.v("name"), lit(1)))))
            elif transfer == "lib-fiber-yields":
                b.var("fb", inv(b.v("lib"), "make_fiber")); b.print(inv(b.v("fb"), "call"))
            elif transfer == "lib-fiber-finishes":
                b.var("fb", inv(b.v("lib"), "make_fiber")); b.expr(inv(b.v("fb"), "call")); b.print(inv(b.v("fb"), "call"))
            elif transfer == "lib-fn-returns":
                b.print(inv(b.v("lib"), "plain"))
            elif transfer == "lib-body-throws":
                b.import_("failing", "fl")
            elif transfer == "lib-method-throws":
                b.expr(inv(inv(get(b.v("lib"), "Thing"), "new"), "explode"))
            else:
                b.expr(inv(b.v("lib"), "relay"))

        def then():
            if after == "read-global":
                b.print(tup(lit("now in"), b.v("name"), b.v("count")))
            elif after == "write-global":
                b.expr(b.assign("count", bin_("+", b.v("count"), lit(1)))); b.expr(b.assign("name", lit("main (rewritten)")))
            elif after == "define-global":
                b.expr(b.assign("made", b.lam([], lambda: tup(lit("lambda sees"), b.v("name")))))
            elif after == "make-closure":
                b.expr(b.assign("made", b.lam([], lambda: tup(lit("closure in"), b.v("name"), b.v("count")))))
            else:
                b.print(call(b.v("own")))

        raising = transfer not in ("callback-throws-caught-in-lib", "lib-fiber-yields", "lib-fiber-finishes", "lib-fn-returns")
        if place == "catch":
            b.try_(); go(); b.catch("e"); b.print(tup(lit("caught"), b.v("e"))); then(); b.end()
        elif place == "finally":
            b.try_(); b.try_(); go(); b.finally_(); then(); b.end(); b.catch("e2"); b.print(tup(lit("outer caught"), b.v("e2"))); b.end()
        else:
            if raising:
                b.try_(); go(); b.catch("e"); b.print(lit("caught")); b.end()
            else:
                go()
            then()
        b.print(tup(b.v("name"), b.v("count"), get(b.v("lib"), "name"), get(b.v("lib"), "count")))
        b.if_(bin_("!=", b.v("made"), lit(None))); b.print(call(b.v("made"))); b.end()
        b.print(call(b.v("own")))
        b.print(inv(b.v("lib"), "plain"))
        mods = [{"path": "lib", "prog": lb.toks}, {"path": "lib2", "prog": l2.toks}, {"path": "failing", "prog": fb.toks}]
        out.append(("xmod:%s:%s:%s" % (transfer, after, place), {"snips": [{"prog": b.toks}], "mods": mods}))
    return out


# ---------------------------------------------------------------------------------------------------
# C09: fibers with bodies drawn from a small action set, under a main schedule of calls
def get(o, m):
    return {"k": "get", "o": o, "m": m}


def fiber_scenarios(rng, count, nfib=2, exhaustive_small=True):
    F = lambda b: b.v("Fiber")
    body_actions = ["print", "yield-v", "yield", "use-yield", "call-other", "call-other-v", "helper", "trycatch", "throw", "return",
                    "capture", "capture-w", "yield-in-try", "has-finished-other"]
    main_actions = ["call", "call-v", "call-2", "finished", "call-other-fiber"]

    def build(bodies, params, schedule, guard):
        b = Builder()
        names = ["fa", "fb", "fc"][:len(bodies)]
        for nme in names:
            b.var(nme, lit(None))
        b.fn("helper", ["v"])
        b.var("r", inv(F(b), "yield", b.v("v")))
        b.ret(tup(lit("helper got"), b.v("r")))
        b.end()
        for i, (acts, np) in enumerate(zip(bodies, params)):
            other = names[(i + 1) % len(names)]
            b.fn("body%d" % i, ["p"] if np else [])
            if np:
                b.print(tup(lit("start%d" % i), b.v("p")))
            b.var("loc", lit("local%d" % i))
            for j, a in enumerate(acts):
                tag = "%s%d.%d" % ("abc"[i], j, 0)
                if a == "print":
                    b.print(tup(lit(tag), b.v("loc")))
                elif a == "yield-v":
                    b.expr(inv(F(b), "yield", lit(tag)))
                elif a == "yield":
                    b.expr(inv(F(b), "yield"))
                elif a == "use-yield":
                    b.expr(b.assign("loc", inv(F(b), "yield", lit(tag))))
                    b.print(tup(lit("resumed with"), b.v("loc")))
                elif a == "call-other":
                    b.print(tup(lit(tag), inv(b.v(other), "call")))
                elif a == "call-other-v":
                    b.print(tup(lit(tag), inv(b.v(other), "call", lit(tag))))
                elif a == "helper":
                    b.print(call(b.v("helper"), lit(tag)))
                elif a == "trycatch":
                    b.try_(); b.throw(lit(tag)); b.catch("e"); b.print(tup(lit("caught"), b.v("e"))); b.end()
                elif a == "throw":
                    b.throw(lit(tag))
                elif a == "return":
                    b.ret(lit(tag))
                elif a == "capture":
                    # the closure shares `loc` with the suspended fiber: writes on either side are seen by the other
                    b.expr(b.assign("loc", lit(tag)))
                    b.var("cl%d" % j, b.lam([], lambda: b.v("loc")))
                    b.expr(inv(F(b), "yield", b.v("cl%d" % j)))
                    b.expr(b.assign("loc", lit(tag + "'")))
                    b.expr(inv(F(b), "yield", b.v("cl%d" % j)))
                elif a == "capture-w":
                    b.expr(inv(F(b), "yield", b.lam(["x"], lambda: b.assign("loc", b.v("x")))))
                    b.print(tup(lit("loc after resume"), b.v("loc")))
                elif a == "yield-in-try":
                    b.try_(); b.expr(inv(F(b), "yield", lit(tag))); b.throw(lit("after " + tag)); b.catch("e"); b.print(b.v("e")); b.finally_(); b.print(lit("fin " + tag)); b.end()
                elif a == "has-finished-other":
                    b.print(tup(lit(tag), inv(b.v(other), "has_finished")))
            b.end()
        for i, nme in enumerate(names):
            b.expr(b.assign(nme, inv(F(b), "new", b.v("body%d" % i))))
        for step, (who, act) in enumerate(schedule):
            nme = names[who % len(names)]
            if act == "call":
                e = inv(b.v(nme), "call")
            elif act == "call-v":
                e = inv(b.v(nme), "call", lit("m%d" % step))
            elif act == "call-2":
                e = inv(b.v(nme), "call", lit(1), lit(2))
            elif act == "finished":
                e = inv(b.v(nme), "has_finished")
            else:
                e = inv(b.v(names[(who + 1) % len(names)]), "call")
            if guard:
                b.try_(); b.var("res", e); b.print(tup(lit("main"), b.v("res")))
                # if the fiber handed out a closure, use it (reads / writes a variable of the suspended fiber)
                b.try_(); b.print(tup(lit("called"), call(b.v("res")))); b.catch("e1"); b.end()
                b.try_(); b.print(tup(lit("called with"), call(b.v("res"), lit("w%d" % step)))); b.catch("e2"); b.end()
                b.catch("err"); b.print(tup(lit("main error"), get(b.v("err"), "context"))); b.end()
            else:
                b.print(tup(lit("main"), e))
        b.print(lit("end"))
        return b.toks

    out = []
    if exhaustive_small:
        # one fiber, every body of <= 2 actions, three fixed schedules
        import itertools
        acts1 = ["print", "yield-v", "yield", "use-yield", "helper", "trycatch", "throw", "return", "capture", "capture-w", "yield-in-try"]
        for n in (0, 1, 2):
            for acts in itertools.product(acts1, repeat=n):
                for np in (0, 1):
                    for si, sched in enumerate(([(0, "call"), (0, "call-v"), (0, "call"), (0, "finished")],
                                                [(0, "call-v"), (0, "call"), (0, "call-2"), (0, "call-v")])):
                        out.append(("fib1:%s:%d:%d" % ("-".join(acts), np, si), build([list(acts)], [np], sched, True)))
    for k in range(count):
        nf = rng.choice([2, 2, 3]) if nfib >= 3 else 2
        bodies = [[rng.choice(body_actions) for _ in range(rng.randint(0, 3))] for _ in range(nf)]
        params = [rng.randint(0, 1) for _ in range(nf)]
        sched = [(rng.randrange(nf), rng.choice(main_actions)) for _ in range(rng.randint(1, 6))]
        out.append(("fibr:%d" % k, build(bodies, params, sched, rng.random() < 0.8)))
    return out


# ---------------------------------------------------------------------------------------------------
# C07: class hierarchies with overriding, super, fields shadowing methods, statics, constructors
def setf(o, m, e):
    return {"k": "setf", "o": o, "m": m, "e": e}


def class_scenarios(rng, count):
    out = []
    for k in range(count):
        b = Builder()
        depth = rng.choice([1, 2, 2, 3, 3])
        local = rng.random() < 0.25            # the whole hierarchy lives inside a function
        if local:
            b.fn("scope", [])
        names = ["K%d" % i for i in range(1, depth + 1)]
        defined = {}                            # method name -> levels defining it (for valid super calls)
        explicit_ctor_levels = []
        for lvl, cname in enumerate(names):
            sup = names[lvl - 1] if lvl > 0 else (rng.choice([None, None, None, "Error"]) if lvl == 0 else None)
            b.class_(cname, sup=sup, ctor="new")
            for mname in ("m", "n"):
                if lvl == 0:
                    choice = rng.choice(["define", "define", "omit"])
                else:
                    choice = rng.choice(["override", "super-call", "super-value", "omit", "omit"])
                has_super = bool(defined.get(mname)) or (choice in ("super-call", "super-value") and rng.random() < 0.15)
                if choice == "omit":
                    continue
                np = rng.choice([0, 0, 1])
                b.method(mname, ["a"] if np else [])
                tag = "%s.%s" % (cname, mname)
                if choice in ("define", "override") or not has_super:
                    b.ret(tup(lit(tag), b.v("a")) if np else lit(tag))
                elif choice == "super-call":
                    takes_a = np and rng.random() < 0.7
                    extra = [] if rng.random() < 0.8 else [lit(0)]
                    mk = lambda: b.superinv(mname, *([b.v("a")] if takes_a else extra))
                    # ... directly, or from a lambda / a nested function of the method: `super` still means this class's superclass
                    # and the receiver is still the method's `self`
                    through = rng.choice(["direct", "direct", "lambda", "nested-fn"])
                    if through == "direct":
                        b.ret(tup(lit(tag), mk()))
                    elif through == "lambda":
                        b.ret(tup(lit(tag), call(b.lam([], mk))))
                    else:
                        b.fn("inner", []); b.ret(call(b.lam([], mk))); b.end()
                        b.ret(tup(lit(tag), call(b.v("inner"))))
                else:
                    if rng.random() < 0.3:
                        b.var("sm", call(b.lam([], lambda: b.superget(mname))))      # the bound super method taken inside a lambda
                    else:
                        b.var("sm", b.superget(mname))
                    b.ret(tup(lit(tag), call(b.v("sm"))))
                b.end()
                defined.setdefault(mname, []).append(lvl)
            if rng.random() < 0.3:
                # a user class may override a method it inherits from Object itself; subclasses inherit the override, not Object's
                b.method("derives", ["c"])
                if lvl > 0 and rng.random() < 0.5:
                    b.ret(tup(lit(cname + ".derives"), b.superinv("derives", b.v("c"))))
                else:
                    b.ret(lit(cname + ".derives"))
                b.end()
            if lvl > 0 and defined.get("m") and rng.random() < 0.6:
                # reaches the superclass's m by a route of its own: a field named m on the instance must not be consulted
                b.method("via", [])
                b.ret(tup(lit("via@" + cname), b.superinv("m")))
                b.end()
                defined.setdefault("via", []).append(lvl)
            if lvl == 0 or rng.random() < 0.3:
                b.method("who", [])
                b.ret(tup(lit("who@" + cname), inv(b.v("self"), "m")))
                b.end()
            if rng.random() < 0.4:
                sx = rng.random() < 0.5
                b.method("s", ["x"] if sx else [], "static")
                if defined.get("s") and rng.random() < 0.6:
                    # a static method reaching the superclass's static through super: the receiver stays the class it was called on
                    how = rng.choice(["call", "value"])
                    sup_np = defined["s"][-1][1]
                    if how == "call" and rng.random() < 0.3:
                        b.ret(tup(lit("static@" + cname), b.Self(), call(b.lam([], lambda: b.superinv("s", *([lit("sx")] if sup_np else []))))))
                    elif how == "call":
                        b.ret(tup(lit("static@" + cname), b.Self(), b.superinv("s", *([lit("sx")] if sup_np else []))))
                    else:
                        b.var("ss", b.superget("s")); b.ret(tup(lit("static@" + cname), call(b.v("ss"), *([lit("sx")] if sup_np else []))))
                else:
                    b.ret(tup(lit("static@" + cname), b.Self()))
                b.end()
                defined.setdefault("s", []).append((lvl, sx))
            if lvl == depth - 1 and "s" in defined and defined["s"][-1][0] == lvl and rng.random() < 0.5:
                # the class body goes on to define an INSTANCE method with the name of the static one: the later definition wins on both
                # sides - instances get the method, the class object no longer answers to the name
                b.method("s", [])
                b.ret(tup(lit("instance s@" + cname), inv(b.v("self"), "derives", b.v(cname))))
                b.end()
            if rng.random() < 0.4:
                b.method("init", ["v"], "ctor")
                if explicit_ctor_levels and rng.random() < 0.7:
                    b.expr(b.superinv("init", bin_("+", b.v("v"), lit(1))))
                b.expr(setf(b.v("self"), "f" + str(lvl), b.v("v")))
                early = rng.random()
                if early < 0.2:
                    b.ret()
                elif early < 0.45:
                    # a bare return from inside a try statement: the constructor still returns the instance, after the finally block
                    b.try_(); b.if_(bin_(">", b.v("v"), lit(5))); b.ret(); b.end(); b.expr(setf(b.v("self"), "small", lit(True)))
                    b.finally_(); b.expr(setf(b.v("self"), "checked", lit("by finally"))); b.end()
                b.end()
                explicit_ctor_levels.append(lvl)
            b.end()
        # constructors all called `new`: explicit in Base, default in Mid (requested by attribute), explicit in Leaf calling super.new()
        b.class_("Base0"); b.method("new", [], "ctor"); b.expr(setf(b.v("self"), "tag", lit("set by Base0"))); b.end()
        b.method("tags", []); b.ret(tup(lit("tags"), get(b.v("self"), "tag"))); b.end(); b.end()
        b.class_("Mid", sup="Base0", ctor="new"); b.end()
        b.class_("Leaf", sup="Mid"); b.method("new", [], "ctor"); b.expr(b.superinv("new")); b.expr(setf(b.v("self"), "leaf", lit(1))); b.end(); b.end()
        if rng.random() < 0.2:
            b.expr(b.assign(names[0], lit(None)))          # rebinding the superclass name changes nothing
        for step in range(rng.randint(2, 6)):
            cname = rng.choice(names[1:] if (names[0:1] and rng.random() < 0.2 and len(names) > 1) else names)
            lvl = names.index(cname)
            mk = inv(b.v(cname), "init", lit(10 * step)) if (lvl in explicit_ctor_levels and rng.random() < 0.6) else inv(b.v(cname), "new")
            var = "x%d" % step
            b.try_()
            b.var(var, mk)
            action = rng.choice(["m", "n", "who", "bound", "field-shadow", "arity", "static-class", "static-inst", "derives", "fields", "protocol-field", "ctor-fields",
                                 "unknown", "method-in-var", "setf-class", "bound-native-field", "bound-native-field", "super-new",
                                 "field-shadow-super", "field-shadow-super", "static-value", "static-value", "ctor-value"])
            if action in ("m", "n"):
                b.print(inv(b.v(var), action, *([lit(step)] if rng.random() < 0.4 else [])))
            elif action == "who":
                b.print(inv(b.v(var), "who"))
            elif action == "bound":
                b.var("bm", get(b.v(var), "m")); b.print(call(b.v("bm"))); b.print(b.v("bm"))
            elif action == "field-shadow":
                b.expr(setf(b.v(var), "m", b.lam([], lambda: lit("field m")))); b.print(inv(b.v(var), "m")); b.print(inv(b.v(var), "who"))
            elif action == "field-shadow-super":
                b.expr(setf(b.v(var), "m", b.lam([], lambda: lit("field m")))); b.print(inv(b.v(var), "via")); b.print(inv(b.v(var), "m"))
            elif action == "static-value":
                # a static method read as a value through the class and called later keeps the class as its receiver
                b.var("sv", get(b.v(cname), "s")); b.print(call(b.v("sv"), *([lit(step)] if rng.random() < 0.5 else []))); b.print(b.v("sv"))
            elif action == "ctor-value":
                b.var("cv", get(b.v(cname), "new")); b.var("made", call(b.v("cv"))); b.print(inv(b.v("made"), "m")); b.print(call(b.v("type"), b.v("made")))
            elif action == "arity":
                b.print(inv(b.v(var), "m", lit(1), lit(2)))
            elif action == "static-class":
                b.print(inv(b.v(cname), "s", *([lit(step)] if rng.random() < 0.5 else [])))
            elif action == "static-inst":
                b.print(inv(b.v(var), "s"))
            elif action == "derives":
                b.print(tup(inv(b.v(var), "derives", b.v(names[-1])), inv(b.v(var), "derives", b.v("Object")), inv(b.v(var), "derives", b.v("Error"))))
            elif action == "protocol-field":
                # fields come first for EVERY member access, the ones the for statement makes (iter, next) included
                b.var("backing", inv(vec(lit("p1"), lit("p2")), "iter"))
                if rng.random() < 0.5:
                    b.expr(setf(b.v(var), "iter", b.lam([], lambda: b.v("backing"))))
                else:
                    b.expr(setf(b.v(var), "iter", b.lam([], lambda: b.v(var))))
                    b.expr(setf(b.v(var), "next", b.lam([], lambda: inv(b.v("backing"), "next"))))
                b.for_("el", b.v(var)); b.print(tup(lit("element"), b.v("el"))); b.end()
            elif action == "ctor-fields":
                b.print(tup(*[get(b.v(var), nme) for nme in ("checked", "small")]))
            elif action == "fields":
                b.print(tup(*[get(b.v(var), "f%d" % l) for l in explicit_ctor_levels[:1]])) if explicit_ctor_levels else b.print(b.v(var))
            elif action == "unknown":
                b.print(inv(b.v(var), "zzz"))
            elif action == "method-in-var":
                b.var("held", get(b.v(var), "n")); b.expr(setf(b.v(var), "keep", b.v("held"))); b.print(inv(b.v(var), "keep"))
            elif action == "bound-native-field":
                # a built-in method taken from one instance, kept in a field of ANOTHER instance, stays bound to the first
                b.var("other", inv(b.v(names[0]), "new"))
                b.expr(setf(b.v("other"), "chk", get(b.v(var), "derives")))
                b.print(tup(inv(b.v("other"), "chk", b.v(names[-1])), inv(b.v("other"), "chk", b.v(names[0])), get(b.v("other"), "chk")))
            elif action == "super-new":
                b.print(inv(inv(b.v("Leaf"), "new"), "tags"))
            else:
                b.expr(setf(b.v(cname), "attr", lit(1)))
            b.catch("e")
            b.print(tup(lit("error"), call(b.v("type"), b.v("e")), get(b.v("e"), "context")))
            b.end()
        if local:
            b.end()
            b.expr(call(b.v("scope")))
        out.append(("cls:%d" % k, b.toks))
    return out


# ---------------------------------------------------------------------------------------------------
# C18: iterables of every kind x adapter chains x consumers x loop exits
class _ForcedChoices:
    """a random source whose choice of iterable and of consumer is fixed (the exhaustive part of the iteration product)"""
    def __init__(self, base, sources, src, consumer):
        self.base, self.sources, self.src, self.consumer = base, sources, src, consumer

    def random(self):
        return 0.9            # not wrapped in a function

    def choice(self, seq):
        if seq is self.sources:
            return self.src
        if "for-continue" in seq:
            return self.consumer
        return self.base.choice(seq)

    def randint(self, a, b):
        return 0 if (a, b) == (0, 3) else self.base.randint(a, b)


ITER_CONSUMERS = ["for", "for-break", "for-continue", "for-return", "collect", "reduce", "nested", "interleaved", "mutate", "manual-next", "range-held"]


def iteration_scenarios(rng, count, exhaustive=True):
    out = []
    sources = ["vec0", "vec1", "vec3", "tuple0", "tuple2", "range-up", "range-down", "range-empty", "user", "user-early", "user-derived",
               "iter-of-vec", "nested-vec", "user-derived-fresh", "user-derived-fresh", "user-resetting", "user-resetting", "next-only", "next-field", "next-field", "iter-field"]
    plans = []
    if exhaustive:
        # every iterable kind under every consumer (no adapters): break / continue / return / nested / interleaved loops must behave the
        # same whether iter() is the identity, hands out a fresh cursor, rewinds, or does not exist on the cursor
        for s_ in sorted(set(sources)):
            for c_ in ITER_CONSUMERS:
                plans.append(_ForcedChoices(rng, sources, s_, c_))
    plans += [rng] * count
    for k, r in enumerate(plans):
        b = Builder()
        # user-defined iterables
        b.class_("Count", ctor="new")
        b.method("upto", ["n"], "ctor"); b.expr(setf(b.v("self"), "n", b.v("n"))); b.expr(setf(b.v("self"), "i", lit(0))); b.end()
        b.method("iter", []); b.ret(b.v("self")); b.end()
        b.method("next", [])
        b.if_(bin_(">=", get(b.v("self"), "i"), get(b.v("self"), "n"))); b.ret(inv(b.v("StopIter"), "new")); b.end()
        b.expr(setf(b.v("self"), "i", bin_("+", get(b.v("self"), "i"), lit(1)))); b.ret(get(b.v("self"), "i")); b.end()
        b.end()
        b.class_("Evens", sup="Iter", ctor="new")
        b.method("start", [], "ctor"); b.expr(setf(b.v("self"), "i", lit(0))); b.end()
        b.method("next", [])
        b.if_(bin_(">=", get(b.v("self"), "i"), lit(6))); b.ret(inv(b.v("StopIter"), "new")); b.end()
        b.expr(setf(b.v("self"), "i", bin_("+", get(b.v("self"), "i"), lit(2)))); b.ret(get(b.v("self"), "i")); b.end()
        b.end()
        # an iterable deriving Iter whose iter() hands out a separate, fresh iterator (it has no next() itself)
        b.class_("Bag", sup="Iter", ctor="new")
        b.method("iter", []); b.ret(inv(b.v("Count"), "upto", lit(3))); b.end()
        b.end()
        # derives Iter; iter() REWINDS the cursor and returns the object itself: adapters must call iter() exactly once
        b.class_("Rewind", sup="Iter", ctor="new")
        b.method("make", [], "ctor"); b.expr(setf(b.v("self"), "i", lit(0))); b.expr(setf(b.v("self"), "rewinds", lit(0))); b.end()
        b.method("iter", []); b.expr(setf(b.v("self"), "i", lit(0))); b.expr(setf(b.v("self"), "rewinds", bin_("+", get(b.v("self"), "rewinds"), lit(1)))); b.ret(b.v("self")); b.end()
        b.method("next", [])
        b.if_(bin_(">=", get(b.v("self"), "i"), lit(4))); b.ret(inv(b.v("StopIter"), "new")); b.end()
        b.expr(setf(b.v("self"), "i", bin_("+", get(b.v("self"), "i"), lit(1)))); b.ret(get(b.v("self"), "i")); b.end()
        b.end()
        # has next() but no iter(): usable only where the language promises not to call iter()
        b.class_("NextOnly", sup="Iter", ctor="new")
        b.method("make", [], "ctor"); b.expr(setf(b.v("self"), "i", lit(0))); b.end()
        b.method("next", [])
        b.if_(bin_(">=", get(b.v("self"), "i"), lit(3))); b.ret(inv(b.v("StopIter"), "new")); b.end()
        b.expr(setf(b.v("self"), "i", bin_("+", get(b.v("self"), "i"), lit(1)))); b.ret(get(b.v("self"), "i")); b.end()
        b.end()
        # the protocol methods are looked up like any other call: a field named next / iter on the instance is what gets called
        b.class_("Holder", sup="Iter", ctor="new")
        b.method("next", []); b.ret(inv(b.v("StopIter"), "new")); b.end()          # shadowed by the field in "next-field"
        b.end()
        wrap_fn = r.random() < 0.5
        if wrap_fn:
            b.fn("run", [])
        src = r.choice(sources)
        if src in ("next-field", "iter-field"):
            b.var("holder", inv(b.v("Holder"), "new"))
            b.var("backing", inv(vec(lit(7), lit(8), lit(9)), "iter"))
            if src == "next-field":
                b.expr(setf(b.v("holder"), "next", b.lam([], lambda: inv(b.v("backing"), "next"))))     # next as a closure in a field
            else:
                b.expr(setf(b.v("holder"), "iter", b.lam([], lambda: b.v("backing"))))     # iter as a closure in a field

        def source():
            if src == "vec0": return vec()
            if src == "vec1": return vec(lit("only"))
            if src == "vec3": return vec(lit(1), lit(2), lit(3))
            if src == "tuple0": return tup()
            if src == "tuple2": return tup(lit("a"), lit(4))
            if src == "range-up": return rng_(0, 4)
            if src == "range-down": return rng_(3, -1)
            if src == "range-empty": return rng_(2, 2)
            if src == "user": return inv(b.v("Count"), "upto", lit(3))
            if src == "user-early": return inv(b.v("Count"), "upto", lit(0))
            if src == "user-derived": return inv(b.v("Evens"), "start")
            if src == "user-derived-fresh": return inv(b.v("Bag"), "new")
            if src == "iter-of-vec": return inv(vec(lit(5), lit(6)), "iter")
            if src == "user-resetting": return inv(b.v("Rewind"), "make")
            if src == "next-only": return inv(b.v("NextOnly"), "make")
            if src in ("next-field", "iter-field"): return b.v("holder")
            return vec(vec(lit(1)), vec(), vec(lit(2), lit(3)))
        rng_ = lambda a, c: {"k": "range", "l": lit(a), "r": lit(c)}
        b.var("src", source())
        numeric = src in ("vec3", "range-up", "range-down", "range-empty", "user", "user-early", "user-derived", "iter-of-vec", "user-derived-fresh",
                          "user-resetting", "next-only", "next-field", "iter-field")
        chainable = src not in ("user", "user-early")        # plain user classes do not derive Iter
        nchain = r.randint(0, 3) if chainable else 0
        e = b.v("src")
        if src == "next-only":
            # wrapped directly by the adapter classes (Iter.map / Iter.filter would call iter() on it, which it inherits from Iter)
            nchain = max(nchain, 1)
        if nchain and src not in ("user-derived", "iter-of-vec", "user-derived-fresh", "user-resetting", "next-only", "next-field", "iter-field"):
            e = inv(e, "iter")
        for c in range(nchain):
            which = r.choice(["map", "filter", "map-id", "filter"])
            if src == "next-only" and c == 0:
                if which == "filter":
                    e = inv(b.v("FilterIter"), "new", e, b.lam(["x"], lambda: bin_("!=", b.v("x"), lit(2))))
                else:
                    e = inv(b.v("MapIter"), "new", e, b.lam(["x"], lambda: bin_("*", b.v("x"), lit(2))))
                continue
            if which == "map":
                e = inv(e, "map", b.lam(["x"], lambda: (bin_("*", b.v("x"), lit(2)) if numeric else tup(b.v("x"), lit(c)))))
            elif which == "map-id":
                e = inv(e, "map", b.lam(["x"], lambda: b.v("x")))
            else:
                e = inv(e, "filter", b.lam(["x"], lambda: (bin_("!=", b.v("x"), lit(2 + 2 * c)) if numeric else lit(c % 2 == 0))))
        consumer = r.choice(["for", "for", "for-break", "for-continue", "for-return", "collect", "reduce", "nested", "interleaved", "mutate", "manual-next",
                               "range-held"])
        if consumer in ("collect", "reduce") and not (nchain or src in ("user-derived", "iter-of-vec", "user-derived-fresh", "user-resetting", "next-field", "iter-field")):
            consumer = "for"
        if consumer == "for":
            b.for_("v", e); b.print(b.v("v")); b.end()
        elif consumer == "for-break":
            b.var("n", lit(0)); b.for_("v", e); b.expr(b.assign("n", bin_("+", b.v("n"), lit(1)))); b.if_(bin_("==", b.v("n"), lit(2))); b.break_(); b.end(); b.var("seen", b.v("v")); b.print(b.v("seen")); b.end(); b.print(b.v("n"))
        elif consumer == "for-continue":
            b.var("n", lit(0)); b.for_("v", e); b.expr(b.assign("n", bin_("+", b.v("n"), lit(1)))); b.if_(bin_("==", b.v("n"), lit(2))); b.continue_(); b.end(); b.print(b.v("v")); b.end(); b.print(b.v("n"))
        elif consumer == "for-return":
            b.fn("first", ["it"]); b.for_("v", b.v("it")); b.ret(tup(lit("first"), b.v("v"))); b.end(); b.ret(lit("none")); b.end(); b.print(call(b.v("first"), e))
        elif consumer == "collect":
            b.print(inv(e, "collect"))
        elif consumer == "reduce":
            b.print(inv(e, "reduce", b.lam(["acc", "x"], lambda: tup(b.v("acc"), b.v("x"))), lit("init")))
        elif consumer == "nested":
            b.var("it", e); b.for_("a", b.v("it")); b.for_("c", b.v("src")); b.print(tup(b.v("a"), b.v("c"))); b.end(); b.end()
        elif consumer == "interleaved":
            b.var("it", inv(e, "iter")); b.for_("a", b.v("it")); b.for_("c", b.v("it")); b.print(tup(b.v("a"), b.v("c"))); b.end(); b.end(); b.print(inv(b.v("it"), "next"))
        elif consumer == "mutate":
            # the vector changes length while it is being iterated: pops that move the length below, onto and past the cursor
            n0 = r.randint(1, 5)
            b.var("w", vec(*[lit(i + 1) for i in range(n0)])); b.var("n", lit(0)); b.var("guard", lit(0))
            mode = r.choice(["push-once", "pop-once", "pop-each", "pop-two-once", "pop-three-once", "push-each-bounded", "pop-at-last", "clear-by-pops"])
            at = r.randint(1, n0)
            b.for_("v", b.v("w")); b.expr(b.assign("n", bin_("+", b.v("n"), lit(1))))
            if mode in ("push-once", "pop-once", "pop-two-once", "pop-three-once", "clear-by-pops"):
                b.if_(bin_("==", b.v("n"), lit(at)))
                if mode == "push-once":
                    b.expr(inv(b.v("w"), "push", lit(9)))
                else:
                    npop = {"pop-once": 1, "pop-two-once": 2, "pop-three-once": 3, "clear-by-pops": n0}[mode]
                    for _ in range(npop):
                        b.if_(bin_(">", inv(b.v("w"), "len"), lit(0))); b.expr(inv(b.v("w"), "pop")); b.end()
                b.end()
            elif mode == "pop-each":
                b.if_(bin_(">", inv(b.v("w"), "len"), lit(0))); b.expr(inv(b.v("w"), "pop")); b.end()
            elif mode == "pop-at-last":
                b.if_(bin_("==", b.v("n"), lit(n0))); b.expr(inv(b.v("w"), "pop")); b.end()
            else:
                b.if_(bin_("<", b.v("n"), lit(4))); b.expr(inv(b.v("w"), "push", bin_("+", b.v("n"), lit(10)))); b.end()
            b.print(b.v("v")); b.end(); b.print(tup(b.v("w"), b.v("n")))
        elif consumer == "range-held":
            # a range value stays what it was, however many other ranges are created meanwhile (the VM caches 8)
            b.var("held", rng_(1, 3)); b.var("heldit", inv(b.v("held"), "iter"))
            b.for_("q", rng_(0, 10)); b.for_("z", {"k": "range", "l": b.v("q"), "r": bin_("+", b.v("q"), lit(20))}); b.break_(); b.end(); b.end()
            b.print(b.v("held")); b.for_("v", b.v("held")); b.print(b.v("v")); b.end(); b.print(inv(b.v("heldit"), "next")); b.print(idx(vec(lit(10), lit(11), lit(12)), lit(0)))
        else:
            b.var("it", inv(e, "iter")); b.print(inv(b.v("it"), "next")); b.print(inv(b.v("it"), "next")); b.for_("rest", b.v("it")); b.print(b.v("rest")); b.end(); b.print(inv(b.v("it"), "next"))
        if wrap_fn:
            b.end(); b.expr(call(b.v("run")))
        b.print(lit("end"))
        out.append(("iter:%d:%s:%d:%s" % (k, src, nchain, consumer), b.toks))
    return out


# ---------------------------------------------------------------------------------------------------
# C17: which error, raised where in which call chain, caught or not
# ---------------------------------------------------------------------------------------------------
# C18 / C05: more than RANGE_CACHE_SIZE (8) distinct ranges in one interpreter.  Ranges are cached objects and `==` on ranges is
# identity, so which evaluations of `a..b` are equal - and, above all, that every evaluation denotes the bounds written - depends
# on the cache's replacement discipline (Machine.tla: `rc`).
def range_cache_scenarios():
    out = []
    for variant, n, wrap in itertools.product(range(7), (7, 8, 9, 12), ("top", "fn")):
        b = Builder()
        if wrap == "fn":
            b.fn("main", [])
        if variant == 0:
            # triangular loops: row k iterates 0..k; every row must list its own bounds
            b.for_("k", rng(1, n + 1))
            b.var("row", vec())
            b.for_("j", {"k": "range", "l": lit(0), "r": b.v("k")}); b.expr(inv(b.v("row"), "push", b.v("j"))); b.end()
            b.print(tup(b.v("k"), b.v("row")))
            b.end()
        elif variant == 1:
            # identity of a range held in a variable against a new evaluation, before and after n other ranges were created
            b.var("keep", rng(0, 3))
            b.print(bin_("==", b.v("keep"), rng(0, 3)))
            b.for_("k", rng(10, 10 + n)); b.var("r", {"k": "range", "l": b.v("k"), "r": bin_("+", b.v("k"), lit(1))}); b.end()
            b.print(bin_("==", b.v("keep"), rng(0, 3)))
            b.print(bin_("==", rng(0, 3), rng(0, 3)))
            b.print(inv(inv(b.v("keep"), "iter"), "collect"))
        elif variant == 2:
            # descending ranges after the cache has been filled with ascending ones
            b.for_("k", rng(1, n + 1)); b.var("r", {"k": "range", "l": lit(0), "r": b.v("k")}); b.end()
            b.for_("k", rng(1, 4))
            b.print(inv(inv({"k": "range", "l": b.v("k"), "r": lit(0)}, "iter"), "collect"))
            b.end()
        elif variant == 3:
            # a vector of n + 2 ranges built one by one, then each printed, iterated and compared with its re-evaluation
            b.var("rs", vec())
            b.for_("k", rng(0, n + 2)); b.expr(inv(b.v("rs"), "push", {"k": "range", "l": b.v("k"), "r": bin_("*", b.v("k"), lit(2))})); b.end()
            b.for_("k", rng(0, n + 2))
            b.print(tup(idx(b.v("rs"), b.v("k")), inv(inv(idx(b.v("rs"), b.v("k")), "iter"), "collect"),
                        bin_("==", idx(b.v("rs"), b.v("k")), {"k": "range", "l": b.v("k"), "r": bin_("*", b.v("k"), lit(2))})))
            b.end()
        elif variant == 4:
            # slicing with more than 8 different ranges
            b.var("s", tup(*[lit(chr(97 + i)) for i in range(16)])); b.var("v", vec(*[lit(i) for i in range(14)]))
            b.for_("k", rng(0, n + 1))
            b.print(tup(idx(b.v("s"), {"k": "range", "l": b.v("k"), "r": bin_("+", b.v("k"), lit(2))}), idx(b.v("v"), {"k": "range", "l": lit(1), "r": bin_("+", b.v("k"), lit(1))}),
                        idx(b.v("v"), {"k": "range", "l": un("-", b.v("k")), "r": lit(-1)})))
            b.end()
        elif variant == 5:
            # ranges as map keys (hashed by identity) while the cache turns over
            b.var("m", mapnode()); b.var("first", rng(0, 1))
            b.expr(inv(b.v("m"), "insert", b.v("first"), lit("first")))
            b.for_("k", rng(1, n + 1)); b.expr(inv(b.v("m"), "insert", {"k": "range", "l": lit(0), "r": bin_("+", b.v("k"), lit(1))}, b.v("k"))); b.end()
            b.print(inv(b.v("m"), "len"))
            b.print(tup(inv(b.v("m"), "get", b.v("first")), inv(b.v("m"), "has_key", rng(0, 1)), inv(b.v("m"), "has_key", rng(0, 2))))
        else:
            # a cache hit does not make an entry younger: 0..1 is re-evaluated between the creations and still leaves first
            b.var("a", rng(0, 1))
            b.for_("k", rng(1, n)); b.var("r", {"k": "range", "l": lit(0), "r": bin_("+", b.v("k"), lit(1))}); b.var("again", rng(0, 1)); b.end()
            b.print(bin_("==", b.v("a"), rng(0, 1)))
            b.print(bin_("==", rng(0, 2), rng(0, 2)))
        if wrap == "fn":
            b.end()
            b.expr(call(b.v("main")))
        out.append(("rcache:%d:%d:%s" % (variant, n, wrap), b.toks))
    return out


# ---------------------------------------------------------------------------------------------------
# C18: "break and continue leave no iteration state behind": loop bodies whose per-pass variables are captured by closures
# that outlive the pass; the pass is left by break / continue / normal end / return; a LATER loop (whose hidden iterator
# and loop variable reuse the same stack slots) must be unaffected when the old closures are called and written through
def long_run_scenarios():
    """adapters and loops over sequences far longer than the call-frame budget (64): a long run of elements rejected by a filter, long
    map / filter chains, reduce and collect over them, a for loop with continue on almost every pass - the cost per element is constant,
    nothing accumulates (frames, handlers, stack slots) from one element to the next."""
    out = []
    R = lambda lo, hi: {"k": "range", "l": lit(lo), "r": lit(hi)}
    for n, form in itertools.product((70, 130, 200), ("filter-tail", "filter-none", "filter-map", "reduce", "for-continue", "vec")):
        b = Builder()
        if form == "filter-tail":
            b.print(inv(inv(inv(R(0, n), "iter"), "filter", b.lam(["x"], lambda: bin_(">", b.v("x"), lit(n - 4)))), "collect"))
        elif form == "filter-none":
            b.print(inv(inv(inv(R(0, n), "iter"), "filter", b.lam(["x"], lambda: bin_("<", b.v("x"), lit(0)))), "collect"))
        elif form == "filter-map":
            b.print(inv(inv(inv(inv(R(0, n), "iter"), "map", b.lam(["x"], lambda: bin_("*", b.v("x"), lit(2)))), "filter", b.lam(["y"], lambda: bin_(">=", b.v("y"), lit(2 * n - 4)))), "collect"))
        elif form == "reduce":
            b.print(inv(inv(inv(R(0, n), "iter"), "filter", b.lam(["x"], lambda: bin_("==", bin_("%", b.v("x"), lit(n - 1)), lit(0)))), "reduce", b.lam(["a", "x"], lambda: bin_("+", b.v("a"), b.v("x"))), lit(1000)))
        elif form == "for-continue":
            b.var("seen", vec())
            b.for_("i", inv(inv(R(0, n), "iter"), "filter", b.lam(["x"], lambda: bin_(">", b.v("x"), lit(n - 6)))))
            b.if_(bin_("==", bin_("%", b.v("i"), lit(2)), lit(0))); b.continue_(); b.end()
            b.expr(inv(b.v("seen"), "push", b.v("i")))
            b.end()
            b.print(b.v("seen"))
        else:
            if n > 130:
                continue
            b.var("v", vec(*[lit(i % 7) for i in range(n)]))
            b.var("hits", lit(0))
            b.for_("e", inv(inv(b.v("v"), "iter"), "filter", b.lam(["x"], lambda: bin_("==", b.v("x"), lit(6)))))
            b.expr(b.assign("hits", bin_("+", b.v("hits"), lit(1))))
            b.end()
            b.print(b.v("hits"))
        out.append(("longrun:%d:%s" % (n, form), b.toks))
    return out


def translated_range_scenarios(K):
    """ranges, their iteration, identity and slicing are translation invariant: the same program with every range bound moved up by K
    prints the same (differences to K are printed, never K itself).  The reference machine runs the K = 1000 version; the
    implementation runs versions whose K is beyond what the machine's exact number domain holds (2^31, 2^32, 2^32 + 2^31, 2^52):
    whatever the VM does with range bounds (caching, comparing, stepping) must not depend on their size."""
    out = []
    R = lambda lo, hi: {"k": "range", "l": lo, "r": hi}
    for variant in range(8):
        b = Builder()
        b.var("K", lit(K))
        kp = lambda d: bin_("+", b.v("K"), lit(d))
        if variant == 0:
            b.for_("i", R(lit(0), lit(3))); b.print(b.v("i")); b.end()
            b.for_("i", R(kp(0), kp(3))); b.print(bin_("-", b.v("i"), b.v("K"))); b.end()
            b.for_("i", R(lit(0), lit(3))); b.print(b.v("i")); b.end()
        elif variant == 1:
            b.var("e", R(lit(5), lit(5)))
            b.for_("i", b.v("e")); b.print(lit("never")); b.end()
            b.var("n", lit(0))
            b.for_("i", R(lit(5), kp(5))); b.print(b.v("i")); b.expr(b.assign("n", bin_("+", b.v("n"), lit(1)))); b.if_(bin_(">=", b.v("n"), lit(3))); b.break_(); b.end(); b.end()
        elif variant == 2:
            b.var("small", R(lit(0), lit(3))); b.var("big", R(kp(0), kp(3)))
            b.print(tup(bin_("==", b.v("small"), b.v("big")), bin_("==", b.v("big"), R(kp(0), kp(3))), bin_("==", b.v("small"), R(lit(0), lit(3)))))
            b.print(inv(inv(inv(b.v("big"), "iter"), "map", b.lam(["x"], lambda: bin_("-", b.v("x"), b.v("K")))), "collect"))
            b.print(inv(inv(b.v("small"), "iter"), "collect"))
        elif variant == 3:
            b.for_("i", R(kp(3), kp(0))); b.print(bin_("-", b.v("i"), b.v("K"))); b.end()
            b.for_("i", R(lit(3), lit(0))); b.print(b.v("i")); b.end()
        elif variant == 4:
            b.var("m", mapnode()); b.var("a", R(lit(1), lit(4))); b.var("c", R(kp(1), kp(4)))
            b.expr(inv(b.v("m"), "insert", b.v("a"), lit("small"))); b.expr(inv(b.v("m"), "insert", b.v("c"), lit("big")))
            b.print(tup(inv(b.v("m"), "len"), inv(b.v("m"), "get", b.v("a")), inv(b.v("m"), "get", b.v("c"))))
        elif variant == 5:
            b.for_("k", R(lit(0), lit(10))); b.var("r", R(bin_("+", b.v("K"), b.v("k")), bin_("+", kp(2), b.v("k")))); b.print(inv(inv(inv(b.v("r"), "iter"), "map", b.lam(["x"], lambda: bin_("-", b.v("x"), b.v("K")))), "collect")); b.end()
            b.for_("k", R(lit(0), lit(10))); b.print(inv(inv(R(b.v("k"), bin_("+", b.v("k"), lit(2))), "iter"), "collect")); b.end()
        elif variant == 6:
            b.var("it", inv(R(kp(0), kp(2)), "iter"))
            b.for_("i", b.v("it")); b.print(bin_("-", b.v("i"), b.v("K"))); b.end()
            b.print(inv(inv(b.v("it"), "next"), "derives", b.v("StopIter")))
            b.print(inv(inv(b.v("it"), "next"), "derives", b.v("StopIter")))
        else:
            b.var("v", vec(lit(10), lit(11), lit(12), lit(13)))
            b.try_(); b.print(idx(b.v("v"), R(kp(0), kp(2)))); b.catch("e"); b.print(tup(lit("refused"), call(b.v("type"), b.v("e")))); b.end()
            b.print(idx(b.v("v"), R(lit(0), lit(2))))
            b.print(idx(b.v("v"), R(lit(1), kp(0))))
        out.append(("transl:%d" % variant, b.toks))
    return out


def loop_state_scenarios():
    out = []
    iterables = {"vec": lambda b: vec(lit(10), lit(20), lit(30), lit(40)), "range": lambda b: rng(0, 4), "range-desc": lambda b: rng(4, 0),
                 "tuple": lambda b: tup(lit("p"), lit("q"), lit("r"), lit("s")), "adapter": lambda b: inv(inv(vec(lit(1), lit(2), lit(3), lit(4)), "iter"), "map", b.lam(["x"], lambda: bin_("*", b.v("x"), lit(3))))}
    for itk, exit_, where, wrap, npad in itertools.product(sorted(iterables), ("break", "continue", "fall", "return"), ("first", "second", "last"), ("top", "fn"), (0, 2)):
        if exit_ == "return" and wrap != "fn":
            continue
        if exit_ == "fall" and where != "first":
            continue
        b = Builder()
        b.var("gets", vec()); b.var("sets", vec())
        if wrap == "fn":
            b.fn("main", [])
        b.var("count", lit(0))
        b.for_("x", iterables[itk](b))
        for i in range(npad):
            b.var("pad%d" % i, lit(500 + i))
        b.var("mine", tup(lit("pass"), b.v("x")))
        b.expr(inv(b.v("gets"), "push", b.lam([], lambda: b.v("mine"))))
        b.expr(inv(b.v("sets"), "push", b.lam(["nv"], lambda: b.assign("mine", b.v("nv")))))
        b.expr(b.assign("count", bin_("+", b.v("count"), lit(1))))
        if exit_ != "fall":
            b.if_(bin_("==", b.v("count"), lit({"first": 1, "second": 2, "last": 4}[where])))
            if exit_ == "break":
                b.break_()
            elif exit_ == "continue":
                b.continue_()
            else:
                b.ret(lit("returned"))
            b.end()
        b.var("tail", tup(lit("tail"), b.v("x")))
        b.expr(inv(b.v("gets"), "push", b.lam([], lambda: b.v("tail"))))
        b.end()
        # a later loop over another iterable: its iterator and loop variable take the slots the first loop used
        b.for_("ch", vec(lit("u"), lit("v"), lit("w")))
        b.var("k", lit(0))
        b.for_("g", b.v("gets")); b.expr(b.assign("k", bin_("+", b.v("k"), lit(1)))); b.end()
        b.expr(call(idx(b.v("sets"), lit(0)), tup(lit("rewritten at"), b.v("ch"))))
        b.print(tup(b.v("ch"), b.v("k"), call(idx(b.v("gets"), lit(0)))))
        b.end()
        b.for_("g", b.v("gets")); b.print(call(b.v("g"))); b.end()
        if wrap == "fn":
            b.ret(lit("end of main"))
            b.end()
            b.print(call(b.v("main")))
            b.for_("g", b.v("gets")); b.print(call(b.v("g"))); b.end()
        out.append(("loopstate:%s:%s:%s:%s:%d" % (itk, exit_, where, wrap, npad), b.toks))
    return out


# ---------------------------------------------------------------------------------------------------
# C16 / C01 / C09: lifetimes around fibers.  A fiber B is run from the main script, from a fiber A, or from a fiber nested in A; it
# returns, is abandoned while suspended, is resumed to its end, or fails into its caller's handler; then B and / or A are kept or
# dropped, optionally with a closure over one of B's variables kept instead.  What is reachable afterwards (Machine.tla: Live) is
# compared with what survives a forced collection: a finished or dropped fiber must not be kept by stale links (caller, owner
# of a closed variable, parked exception), and a kept one must keep exactly what it can still reach.
def fiber_lifetime_scenarios():
    out = []
    for caller, ending, keepb, keepa, esc in itertools.product(("main", "fiber", "nested"), ("returns", "abandoned", "resumed", "fails"),
                                                             (False, True), (False, True), (False, True)):
        if caller == "main" and keepa:
            continue
        b = Builder()
        b.var("keepb", lit(None)); b.var("keepa", lit(None)); b.var("keepc", lit(None)); b.var("got", vec())
        b.fn("body_b", ["arg"])
        b.var("w", vec(lit("w"), b.v("arg")))
        b.var("other", tup(lit("other"), vec(lit(0))))
        if esc:
            # keepc builds, each time it is called (by whoever calls it, on whatever fiber), a nested closure over the same variable
            b.expr(b.assign("keepc", b.lam([], lambda: b.lam([], lambda: b.v("w")))))
        if ending in ("abandoned", "resumed"):
            b.expr(inv(b.v("got"), "push", inv(b.v("Fiber"), "yield", tup(lit("yielded"), b.v("w")))))
        if ending == "fails":
            b.throw(tup(lit("failure"), b.v("other")))
        b.ret(tup(lit("result"), b.v("other")))
        b.end()

        def run_b():
            b.var("fb", inv(b.v("Fiber"), "new", b.v("body_b")))
            if ending == "fails":
                b.try_(); b.expr(inv(b.v("got"), "push", inv(b.v("fb"), "call", lit(1)))); b.catch("e"); b.expr(inv(b.v("got"), "push", tup(lit("caught"), b.v("e")))); b.end()
            else:
                b.expr(inv(b.v("got"), "push", inv(b.v("fb"), "call", lit(1))))
                if ending == "resumed":
                    b.expr(inv(b.v("got"), "push", inv(b.v("fb"), "call", lit("again"))))
            if keepb:
                b.expr(b.assign("keepb", b.v("fb")))
            b.var("after", vec(lit("after")))

        b.fn("main", [])
        if caller == "main":
            run_b()
        else:
            b.fn("body_a", [])
            b.var("mine", vec(lit("a local")))
            if caller == "nested":
                b.fn("body_mid", []); b.var("midlocal", vec(lit("mid"))); run_b(); b.ret(b.v("midlocal")); b.end()
                b.var("fm", inv(b.v("Fiber"), "new", b.v("body_mid")))
                b.expr(inv(b.v("got"), "push", inv(b.v("fm"), "call")))
            else:
                run_b()
            b.ret(b.v("mine"))
            b.end()
            b.var("fa", inv(b.v("Fiber"), "new", b.v("body_a")))
            b.expr(inv(b.v("got"), "push", inv(b.v("fa"), "call")))
            if keepa:
                b.expr(b.assign("keepa", b.v("fa")))
        b.end()
        b.expr(call(b.v("main")))
        b.print(b.v("got"))
        b.print(tup(bin_("==", b.v("keepb"), lit(None)), bin_("==", b.v("keepa"), lit(None)), bin_("==", b.v("keepc"), lit(None))))
        if esc:
            b.var("inner1", call(b.v("keepc")))
            b.var("junk", vec(vec(lit(1)), tup(lit(2), lit(3)), vec(lit(4))))
            b.var("inner2", inv(inv(b.v("Fiber"), "new", b.v("keepc")), "call"))
            b.print(tup(call(b.v("inner1")), call(b.v("inner2")), call(call(b.v("keepc")))))
            b.expr(b.assign("junk", lit(None)))
        if keepb:
            b.print(inv(b.v("keepb"), "has_finished"))
        b.expr(b.assign("got", lit(None)))
        out.append(("flife:%s:%s:%d:%d:%d" % (caller, ending, int(keepb), int(keepa), int(esc)), b.toks))
    return out


def error_scenarios(rng, count):
    out = []
    kinds = ["type-add", "type-call", "name", "index", "value-derives", "attribute", "runtime-pop", "throw-string", "throw-number",
             "throw-error", "throw-subclass", "host-AttributeError", "host-CompileError", "host-ImportError", "host-IndexError",
             "host-NameError", "host-RuntimeError", "host-TypeError", "host-ValueError", "arity", "stack-overflow", "set-field", "range-type",
             "throw-deep-subclass", "throw-builtin-subclass", "recursive-name", "recursive-throw", "recursive-through-finally",
             "recursive-builtin-through-finally"]
    links = ["fn", "method", "static", "lambda", "fiber", "ctor", "bound"]
    for k in range(count):
        b = Builder()
        kind = rng.choice(kinds)
        chain = [rng.choice(links) for _ in range(rng.randint(0, 4))]
        caught_at = rng.choice([None, None, 0, len(chain)])       # None: uncaught; index of the level that catches
        earlier = rng.random() < 0.3                              # a caught throw earlier in the run (stale location)
        if rng.random() < 0.4:
            # string literals whose TEXT contains line breaks written as escapes: the source has none, lines must not shift
            b.var("nl0", lit("first\nsecond\n\nfourth"))
            b.var("nl1", {"k": "interp", "parts": [lit("a\nb"), b.v("nl0"), lit("\n")]} if False else lit("tab\tand\nnewline"))
        b.class_("MyErr", sup="Error", ctor="new"); b.method("make", ["c"], "ctor"); b.expr(b.superinv("new", b.v("c"))); b.end(); b.end()
        # error classes further down: two levels below Error, and below a built-in error class
        b.class_("DeepErr", sup="MyErr"); b.method("make2", ["c"], "ctor"); b.expr(b.superinv("make", b.v("c"))); b.end(); b.end()
        b.class_("ParseErr", sup="ValueError"); b.method("at", ["c"], "ctor"); b.expr(setf(b.v("self"), "context", b.v("c"))); b.end(); b.end()
        # the failure happens in a finally block while another exception is waiting (not for the recursion kind: 64 nested
        # finally blocks each interrupted by the overflow are the subject of C08's findings, not of error reporting)
        in_finally = rng.random() < 0.2 and kind != "stack-overflow" and not kind.endswith("through-finally")
        # the failing statement sits in the body of a try statement that has a finally block but no catch (here, and / or in callers):
        # the exception passes THROUGH finally blocks on its way out, and the report must still name the failing statement's line
        through = "none" if (in_finally or kind == "stack-overflow" or kind.endswith("through-finally")) else rng.choice(["none", "none", "self", "caller", "both"])
        b.class_("Host", ctor="new")
        for i, link in enumerate(chain):
            if link in ("method", "bound"):
                b.method("m%d" % i, ["arg"]); b.var("pad%d" % i, lit(i)); b.ret(call(b.v("step%d" % (i + 1)), b.v("arg"))); b.end()
            elif link == "static":
                b.method("s%d" % i, ["arg"], "static"); b.ret(call(b.v("step%d" % (i + 1)), b.v("arg"))); b.end()
            elif link == "ctor":
                b.method("c%d" % i, ["arg"], "ctor"); b.expr(setf(b.v("self"), "r", call(b.v("step%d" % (i + 1)), b.v("arg")))); b.end()
        b.end()
        if earlier:
            b.fn("earlier", []); b.try_(); b.throw(lit("old")); b.catch("e0"); b.end(); b.end(); b.expr(call(b.v("earlier")))
        # innermost: the failing statement
        n = len(chain)
        if kind.startswith("recursive-"):
            b.var("depth", lit(0))
        rec_plain = kind in ("recursive-name", "recursive-throw")
        b.fn("step%d" % n, ["arg"])
        b.var("local", lit("live"))
        if rec_plain:
            # the failing function calls itself three times through ONE call site first: the trace has one entry per active call,
            # three of them identical
            b.if_(bin_("<", b.v("depth"), lit(3))); b.expr(b.assign("depth", bin_("+", b.v("depth"), lit(1)))); b.ret(call(b.v("step%d" % n), b.v("arg"))); b.end()
        if rng.random() < 0.3:
            b.var("text", lit("x\ny"))

        def fail():
            if kind == "type-add": b.print(bin_("+", lit(1), lit("a")))
            elif kind == "type-call": b.expr(call(lit(3)))
            elif kind == "name": b.print(b.v("undefined_thing"))
            elif kind == "index": b.print(idx(vec(lit(1)), lit(5)))
            elif kind == "value-derives": b.print(inv(lit(1), "derives", lit(2)))
            elif kind == "attribute": b.expr(inv(lit(None), "foo"))
            elif kind == "runtime-pop": b.expr(inv(vec(), "pop"))
            elif kind == "throw-string": b.throw(lit("thrown text"))
            elif kind == "throw-number": b.throw(lit(42))
            elif kind == "throw-error": b.throw(inv(b.v("Error"), "new", lit("ctx of Error")))
            elif kind == "throw-subclass": b.throw(inv(b.v("MyErr"), "make", lit("ctx of MyErr")))
            elif kind == "throw-deep-subclass": b.throw(inv(b.v("DeepErr"), "make2", lit("ctx of DeepErr")))
            elif kind == "throw-builtin-subclass": b.throw(inv(b.v("ParseErr"), "at", lit("ctx of ParseErr")))
            elif kind.startswith("host-"): b.expr(call(b.v("host_fail"), lit(kind[5:])))
            elif kind == "arity": b.expr(call(b.v("step%d" % n)))
            elif kind == "stack-overflow": b.expr(call(b.v("step%d" % n), b.v("arg")))
            elif kind == "recursive-name": b.print(b.v("undefined_thing"))
            elif kind == "recursive-throw": b.throw(lit("thrown at depth 3"))
            elif kind == "set-field": b.expr(setf(lit(3), "f", lit(1)))
            elif kind == "range-type": b.print({"k": "range", "l": lit(1), "r": lit("x")})
        fail0 = fail

        def fail():
            if in_finally:
                b.try_(); b.throw(lit("superseded")); b.finally_(); b.var("infin", lit("fin local")); fail0(); b.end()
            elif through in ("self", "both"):
                b.try_(); b.var("intry", lit("try local")); fail0(); b.print(lit("unreached")); b.finally_(); b.print(tup(lit("finally of the failing function"), b.v("local"))); b.end()
            else:
                fail0()
        if kind.endswith("through-finally"):
            # the failing function has called ITSELF from inside a try body with a finally block: the exception raised by the innermost
            # activation passes through the finally blocks of the outer activations of the same function, whose trace entries must name
            # where THEY are (the end of their finally block), not the line the innermost activation raised at
            def rec_body():
                b.try_()
                b.if_(bin_("<", b.v("depth"), lit(2))); b.expr(b.assign("depth", bin_("+", b.v("depth"), lit(1)))); b.expr(call(b.v("step%d" % n), b.v("arg"))); b.end()
                if kind == "recursive-through-finally":
                    b.throw(lit("thrown at the bottom"))
                else:
                    b.print(idx(vec(lit(1)), lit(7)))
                b.finally_(); b.print(tup(lit("unwinding"), b.v("depth"), b.v("local"))); b.end()
            if caught_at == n:
                b.try_(); rec_body(); b.catch("e"); b.print(tup(lit("caught"), call(b.v("type"), b.v("e")))); b.print(b.v("local")); b.end()
            else:
                rec_body()
        elif caught_at == n:
            b.try_(); fail(); b.catch("e"); b.print(tup(lit("caught"), call(b.v("type"), b.v("e")))); b.print(b.v("local")); b.end()
        else:
            fail()
        b.ret(lit("ok"))
        b.end()
        for i in range(n - 1, -1, -1):
            link = chain[i]
            b.fn("step%d" % i, ["arg"])
            b.var("keep%d" % i, lit("k%d" % i))
            if link == "fn":
                e = call(b.v("step%d" % (i + 1)), b.v("arg"))
            elif link == "method":
                e = inv(inv(b.v("Host"), "new"), "m%d" % i, b.v("arg"))
            elif link == "bound":
                b.var("bm", get(inv(b.v("Host"), "new"), "m%d" % i)); e = call(b.v("bm"), b.v("arg"))
            elif link == "static":
                e = inv(b.v("Host"), "s%d" % i, b.v("arg"))
            elif link == "ctor":
                e = inv(b.v("Host"), "c%d" % i, b.v("arg"))
            elif link == "lambda":
                b.var("lm", b.lam(["q"], lambda: call(b.v("step%d" % (i + 1)), b.v("q")))); e = call(b.v("lm"), b.v("arg"))
            else:
                b.var("fb", inv(b.v("Fiber"), "new", b.v("step%d" % (i + 1)))); e = inv(b.v("fb"), "call", b.v("arg"))
            # the calling statement in every shape: the call may be the LAST instruction of its line (initialising a local), or be followed on
            # the same line by a pop, a store, another call
            form = rng.choice(["print", "print", "local", "local", "expr", "assign", "argument"])

            def use(e_):
                if form == "print": b.print(e_)
                elif form == "local": b.var("res%d" % i, e_)
                elif form == "expr": b.expr(e_)
                elif form == "assign": b.expr(b.assign("keep%d" % i, e_))
                else: b.print(tup(lit("result"), e_, lit("end")))
            if caught_at == i and n > 0:
                b.try_(); use(e); b.catch("e"); b.print(tup(lit("caught"), call(b.v("type"), b.v("e")), b.v("keep%d" % i))); b.end()
            elif through in ("caller", "both") and i % 2 == 0:
                b.try_(); use(e); b.finally_(); b.print(tup(lit("finally of a caller"), b.v("keep%d" % i))); b.end()
            else:
                use(e)
            b.ret(lit("ok%d" % i))
            b.end()
        b.print(lit("start"))
        b.print(call(b.v("step0"), lit(0)))
        b.print(lit("end"))
        out.append(("err:%d:%s:%s:%s" % (k, kind, "-".join(chain), caught_at), b.toks))
    return out


def interleaved_failure_scenarios(endings=("uncaught", "caught-in-fiber", "caught-by-caller")):
    """(the ending `caught-in-fiber` runs a catch clause while the OTHER fiber is suspended with its exception waiting: as built the
    exception-in-flight flag is one per interpreter, which is C08's recorded finding vm-wide-exception-in-flight-flag - the reference
    machine marks those runs with the finding's trigger; checks of properties that do not list the finding leave that ending out)
    two fibers each fail inside a try statement with a finally block and give control away FROM that finally block (the exception
    is waiting); the other fiber does the same; then one of them is resumed and its exception goes on - caught by an outer handler of
    that fiber, or uncaught.  What is pending (the exception, where it was raised, the handlers) belongs to the fiber: the report /
    the handler must see the resumed fiber's own failure, with its own line."""
    out = []
    fails = ["throw", "index", "name", "native"]
    for fa, fb_, order, ending in itertools.product(fails, fails, ("a-first", "b-first"), endings):
        if fa == fb_ and fa != "throw":
            continue
        b = Builder()
        F = lambda: b.v("Fiber")

        def fail(kind, tag):
            if kind == "throw": b.throw(lit("failure of " + tag))
            elif kind == "index": b.print(idx(vec(lit(1)), lit(9)))
            elif kind == "name": b.print(b.v("undefined_in_" + tag))
            else: b.expr(inv(vec(), "pop"))

        for tag, kind in (("A", fa), ("B", fb_)):
            b.fn("inner" + tag, [])
            b.var("local", lit("local of " + tag))
            b.try_()
            b.print(lit(tag + " about to fail"))
            fail(kind, tag)
            b.print(lit("unreached"))
            b.finally_()
            b.print(tup(lit(tag + " parks"), inv(F(), "yield", lit(tag + " parked"))))
            b.print(tup(lit(tag + " resumes"), b.v("local")))
            b.end()
            b.ret(lit(tag + " returned"))
            b.end()
            b.fn("work" + tag, [])
            if ending == "caught-in-fiber":
                b.try_(); b.print(call(b.v("inner" + tag))); b.catch("e"); b.print(tup(lit(tag + " caught its own"), call(b.v("type"), b.v("e")), get(b.v("e"), "context") if kind != "throw" else b.v("e"))); b.end()
            else:
                b.print(call(b.v("inner" + tag)))
            b.ret(lit(tag + " done"))
            b.end()
        b.var("fa", inv(F(), "new", b.v("workA")))
        b.var("fb", inv(F(), "new", b.v("workB")))
        first, second = ("fa", "fb") if order == "a-first" else ("fb", "fa")
        b.print(inv(b.v(first), "call"))
        b.print(inv(b.v(second), "call"))
        if ending == "caught-by-caller":
            b.try_(); b.print(inv(b.v(first), "call", lit("go on"))); b.catch("e"); b.print(tup(lit("main caught"), b.v("e") if (fa if first == "fa" else fb_) == "throw" else call(b.v("type"), b.v("e")))); b.end()
            b.try_(); b.print(inv(b.v(second), "call", lit("go on"))); b.catch("e2"); b.print(tup(lit("main caught"), b.v("e2") if (fb_ if first == "fa" else fa) == "throw" else call(b.v("type"), b.v("e2")))); b.end()
        else:
            b.print(inv(b.v(first), "call", lit("go on")))
            b.print(inv(b.v(second), "call", lit("go on")))
        b.print(lit("end"))
        out.append(("ileave:%s:%s:%s:%s" % (fa, fb_, order, ending), b.toks))
    return out


# ---------------------------------------------------------------------------------------------------
# C14: import graphs over main + up to 3 modules
BAD_SRC = "var = 1;\n"


def bad_msg(path):
    return "Error compiling module:\n    [module \"%s\", line 1] Error at '=': Expected variable name." % path


def module_scenarios(rng, count):
    out = []
    names = ["ma", "mb", "mc"]
    for k in range(count):
        nmod = rng.randint(1, 3)
        mods = names[:nmod]
        kinds = {mname: rng.choice(["ok", "ok", "ok", "ok", "missing", "bad", "throws"]) for mname in mods}
        edges = {mname: [o for o in mods if rng.random() < 0.4] for mname in mods}       # includes self loops
        modrecs = []
        for mi, mname in enumerate(mods):
            if kinds[mname] == "missing":
                continue
            if kinds[mname] == "bad":
                modrecs.append({"path": mname, "bad": True, "msg": bad_msg(mname), "src": BAD_SRC, "prog": []})
                continue
            b = Builder(first_decl=1000 * (mi + 1))
            b.print(lit("body of " + mname))
            b.var("g", lit("g@" + mname))
            b.var("only_" + mname, lit(1))
            b.fn("f", []); b.ret(tup(lit("f in " + mname), b.v("g"))); b.end()
            b.fn("builtins", []); b.ret(tup(call(b.v("type"), lit(1)), b.v("Vec"), b.v("StopIter"), inv(inv(vec(lit(1)), "iter"), "collect"))); b.end()
            b.fn("peek", []); b.ret(b.v("main_only")); b.end()             # must not see the importer's globals
            b.fn("poke", []); b.expr(b.assign("main_only", lit("overwritten by " + mname))); b.ret(lit("poked")); b.end()
            # the importer's globals stay invisible whatever they hold (a built-in function, a class, a closure, a module)
            for probe in ("main_native", "main_class", "main_closure"):
                b.fn("peek_" + probe, []); b.ret(b.v(probe)); b.end()
            for o in edges[mname]:
                style = rng.choice(["top", "try", "fn"])
                alias = "im_" + o
                if style == "top":
                    b.import_(o, alias); b.print(tup(lit(mname + " sees"), get(b.v(alias), "g")))
                elif style == "try":
                    b.try_(); b.import_(o, alias); b.print(tup(lit(mname + " sees"), get(b.v(alias), "g"))); b.catch("e"); b.print(tup(lit(mname + " import failed"), call(b.v("type"), b.v("e")), get(b.v("e"), "context"))); b.end()
                else:
                    b.fn("late_" + o, []); b.import_(o, alias); b.ret(get(b.v(alias), "g")); b.end()
            if kinds[mname] == "throws":
                b.throw(lit(mname + " failed while loading"))
            b.print(lit("end of " + mname))
            modrecs.append({"path": mname, "prog": b.toks})
        b = Builder()
        b.var("g", lit("g@main"))
        b.var("main_only", lit("visible in main only"))
        b.var("main_native", b.v("print"))
        b.var("main_class", b.v("Vec"))
        b.var("main_closure", b.lam([], lambda: lit("main's closure")))
        nsteps = rng.randint(2, 6)
        for step in range(nsteps):
            target = rng.choice(mods + (["nowhere"] if rng.random() < 0.1 else []))
            alias = "x%d" % step
            act = rng.choice(["import-print", "import-call", "import-twice-same", "import-in-fn", "set-attr", "missing-attr", "late", "leak-check",
                              "builtins", "import-uncaught", "peek", "poke", "peek-kinds", "attr-kinds"])
            if act == "import-uncaught":
                if step < nsteps - 1:
                    act = "import-print"
                else:
                    b.import_(target, alias); b.print(get(b.v(alias), "g")); continue
            b.try_()
            if act == "import-print":
                b.import_(target, alias); b.print(b.v(alias)); b.print(get(b.v(alias), "g"))
            elif act == "import-call":
                b.import_(target, alias); b.print(inv(b.v(alias), "f"))
            elif act == "import-twice-same":
                b.import_(target, alias); b.import_(target, alias + "b"); b.print(bin_("==", b.v(alias), b.v(alias + "b")))
            elif act == "import-in-fn":
                b.fn("imp%d" % step, []); b.import_(target, "inner"); b.ret(get(b.v("inner"), "g")); b.end(); b.print(call(b.v("imp%d" % step))); b.print(call(b.v("imp%d" % step)))
            elif act == "set-attr":
                b.import_(target, alias); b.expr(setf(b.v(alias), "g", lit("changed by main"))); b.print(inv(b.v(alias), "f")); b.expr(setf(b.v(alias), "fresh", lit(7))); b.print(get(b.v(alias), "fresh"))
            elif act == "missing-attr":
                b.import_(target, alias); b.print(get(b.v(alias), "no_such_name"))
            elif act == "late":
                b.import_(target, alias); other = rng.choice(mods); b.print(inv(b.v(alias), "late_" + other))
            elif act == "leak-check":
                b.import_(target, alias); b.print(b.v("g")); b.print(b.v("only_" + target))
            elif act == "builtins":
                b.import_(target, alias); b.print(inv(b.v(alias), "builtins"))
            elif act == "peek":
                b.import_(target, alias); b.print(inv(b.v(alias), "peek"))
            elif act == "poke":
                b.import_(target, alias); b.print(inv(b.v(alias), "poke"))
            elif act == "peek-kinds":
                b.import_(target, alias); b.print(inv(b.v(alias), "peek_" + rng.choice(["main_native", "main_class", "main_closure"])))
            elif act == "attr-kinds":
                b.import_(target, alias); b.print(get(b.v(alias), rng.choice(["main_native", "main_class", "main_closure", "main_only"])))
            b.catch("e"); b.print(tup(lit("main caught"), call(b.v("type"), b.v("e")), get(b.v("e"), "context"))); b.end()
        b.print(b.v("g"))
        b.print(b.v("main_only"))
        out.append(("mod:%d" % k, {"snips": [{"prog": b.toks}], "mods": modrecs}))
    return out


def module_builtin_scenarios():
    """each module sees the BUILT-INS, whatever another module (the importer included) has bound to the same names, and a module that
    rebinds a built-in name changes only its own global: one party rebinds name X (a built-in function or class), before or after
    the other module is first loaded, and the other party keeps using X the built-in way - in its body and in a function called later."""
    out = []
    names = ["print", "type", "Vec", "StopIter", "Error", "Fiber", "String", "Object", "TypeError"]

    def use(b, x, tag):
        """statements that use built-in x and print what they saw"""
        if x == "print":
            b.print(lit(tag + " prints through print"))
            b.expr(call(b.v("print"), lit(tag + " calls print")))
        elif x == "type":
            b.print(tup(lit(tag), call(b.v("type"), lit(1)), call(b.v("type"), lit("s"))))
        elif x == "Fiber":
            b.print(tup(lit(tag), inv(inv(b.v("Fiber"), "new", b.lam([], lambda: lit("fiber ran"))), "call")))
        elif x == "Vec":
            b.print(tup(lit(tag), b.v("Vec"), bin_("==", call(b.v("type"), vec(lit(1))), b.v("Vec"))))
        elif x == "String":
            b.print(tup(lit(tag), b.v("String"), bin_("==", call(b.v("type"), lit("s")), b.v("String"))))
        else:
            b.print(tup(lit(tag), b.v(x), bin_("==", b.v(x), call(b.v("type"), lit(1)))))

    for x, who, when in itertools.product(names, ("main", "lib", "lib-fn"), ("before", "after")):
        if who == "lib-fn" and when == "before":
            continue
        lb = Builder(first_decl=5000)
        ob = Builder(first_decl=7000)
        b = Builder()
        b.var("say", b.v("print"))
        b.var("kind", b.v("type"))
        marker = lit("rebound %s of %s" % (x, who))
        # `other` is loaded first in the `after` arrangements, so that its globals exist before the rebinding happens
        ob.var("name", lit("other"))
        use(ob, x, "other body")
        ob.fn("later", []); use(ob, x, "other fn"); ob.ret(lit("other.later done")); ob.end()
        lb.var("name", lit("lib"))
        if who == "lib" and when == "before":
            lb.var("keep", lb.v(x)); lb.var(x, marker)
        if who != "lib" or when == "after":
            use(lb, x, "lib body")
        lb.fn("later", [])
        if who in ("lib", "lib-fn"):
            lb.ret(tup(lit("lib's own"), lb.v(x)))
        else:
            use(lb, x, "lib fn"); lb.ret(lit("lib.later done"))
        lb.end()
        lb.fn("rebind", []); lb.expr(lb.assign(x, marker)); lb.ret(lit("lib rebound it")); lb.end()
        if who == "lib" and when == "after":
            lb.var(x, marker)
        if when == "after":
            b.import_("other", "other")
        if who == "main":
            b.var(x, marker)
        b.import_("lib", "lib")
        if who == "lib-fn":
            b.expr(call(b.v("say"), inv(b.v("lib"), "rebind")))
        if when == "before" or who != "main":
            b.import_("other", "other2")
        b.expr(call(b.v("say"), inv(b.v("lib"), "later")))
        b.expr(call(b.v("say"), inv(b.v("other" if when == "after" else "other2"), "later")))
        if who != "main":
            use(b, x, "main")
        b.expr(call(b.v("say"), tup(lit("lib."), get(b.v("lib"), x) if who != "main" else lit("-"))))
        mods = [{"path": "lib", "prog": lb.toks}, {"path": "other", "prog": ob.toks}]
        out.append(("modbuiltin:%s:%s:%s" % (x, who, when), {"snips": [{"prog": b.toks}], "mods": mods}))
    return out


def module_path_scenarios():
    """the module table is keyed by the path AS WRITTEN: a path that carries the file extension is a module of its own that also loads once and
    takes part in cycle detection; importing a module that is already loaded needs no call frame (it works in the deepest frame the
    interpreter allows); an aliased import whose path has no final component is an ordinary run-time ImportError for the statement, not
    a compile error for the whole script."""
    out = []
    # 1. paths with the extension written out
    for twice, cyc in itertools.product(("same-module", "from-function", "other-module"), (False, True)):
        ub = Builder(first_decl=5000)
        ub.print(lit("util body")); ub.var("count", lit(0))
        ub.fn("bump", []); ub.expr(ub.assign("count", bin_("+", ub.v("count"), lit(1)))); ub.ret(ub.v("count")); ub.end()
        if cyc:
            ub.try_(); ub.import_("peer.yl", "p"); ub.print(tup(lit("util sees peer"), get(ub.v("p"), "name"))); ub.catch("e")
            ub.print(tup(lit("util caught"), call(ub.v("type"), ub.v("e")), get(ub.v("e"), "context"))); ub.end()
        pb = Builder(first_decl=6000)
        pb.print(lit("peer body")); pb.var("name", lit("peer"))
        pb.try_(); pb.import_("util.yl", "u"); pb.print(tup(lit("peer sees util count"), get(pb.v("u"), "count"))); pb.catch("e")
        pb.print(tup(lit("peer caught"), call(pb.v("type"), pb.v("e")), get(pb.v("e"), "context"))); pb.end()
        b = Builder()
        b.import_("util.yl", "u1")
        b.print(inv(b.v("u1"), "bump"))
        if twice == "same-module":
            b.import_("util.yl", "u2")
        elif twice == "from-function":
            b.fn("again", []); b.import_("util.yl", "inner"); b.ret(b.v("inner")); b.end(); b.var("u2", call(b.v("again")))
        else:
            b.import_("peer.yl", "pr"); b.import_("util.yl", "u2")
        b.print(tup(bin_("==", b.v("u1"), b.v("u2")), inv(b.v("u2"), "bump"), get(b.v("u1"), "count")))
        out.append(("modpath:ext:%s:%d" % (twice, int(cyc)), {"snips": [{"prog": b.toks}], "mods": [{"path": "util.yl", "prog": ub.toks}, {"path": "peer.yl", "prog": pb.toks}]}))
    # 2. an import of a loaded module in the deepest frames
    for depth, loaded in itertools.product((60, 61, 62, 63), (True, False)):
        lb = Builder(first_decl=5000)
        lb.print(lit("lib body")); lb.var("count", lit(7))
        b = Builder()
        if loaded:
            b.import_("lib", "first")
        b.fn("walk", ["n"])
        b.if_(bin_(">", b.v("n"), lit(0))); b.ret(call(b.v("walk"), bin_("-", b.v("n"), lit(1)))); b.end()
        b.import_("lib", "deep")
        b.ret(get(b.v("deep"), "count"))
        b.end()
        b.try_(); b.print(tup(lit("walk"), lit(depth), call(b.v("walk"), lit(depth)))); b.catch("e")
        b.print(tup(lit("walk"), lit(depth), lit("failed"), call(b.v("type"), b.v("e")), get(b.v("e"), "context"))); b.end()
        b.print(lit("end"))
        out.append(("modpath:deep:%d:%d" % (depth, int(loaded)), {"snips": [{"prog": b.toks}], "mods": [{"path": "lib", "prog": lb.toks}]}))
    # 3. aliased imports whose path has no final component
    for path in ("", "/", "..", "dir/.."):
        b = Builder()
        b.print(lit("script starts"))
        b.try_(); b.import_(path, "odd"); b.print(lit("imported?")); b.catch("e"); b.print(tup(lit("caught"), call(b.v("type"), b.v("e")))); b.end()
        b.print(lit("script goes on"))
        out.append(("modpath:nofile:%s" % path, {"snips": [{"prog": b.toks}], "mods": []}))
    return out


# ---------------------------------------------------------------------------------------------------
# C15: sequences of snippets fed to one interpreter
# ---------------------------------------------------------------------------------------------------
# C14: modules across several runs on one interpreter, and imports made while a function of the imported module is running
def module_rerun_scenarios():
    """(a) one interpreter, several runs: a module imported by an early run is imported again after runs that failed in every way
    (uncaught throw, built-in error, compile error, error inside the module's own function, failing import, error inside a fiber):
    its body must not run again, the importer must get the same module object with its state.  (b) re-entrant imports: a function
    of module `core` imports `plugin` lazily; plugin's body (or a function of it) imports `core` back while core's function is on
    the call stack - core is loaded, so this is no cycle."""
    out = []
    failures = ["none", "throw", "builtin", "compile", "in-module-fn", "failing-import", "in-fiber", "missing-import", "caught-cycle"]

    def lib_mods():
        lb = Builder(first_decl=5000)
        lb.print(lit("lib body")); lb.var("count", lit(0))
        lb.fn("bump", []); lb.expr(lb.assign("count", bin_("+", lb.v("count"), lit(1)))); lb.ret(lb.v("count")); lb.end()
        lb.fn("fails", []); lb.throw(tup(lit("lib.fails"), lb.v("count"))); lb.end()
        bb = Builder(first_decl=6000); bb.print(lit("broken body")); bb.throw(lit("broken while loading"))
        sb = Builder(first_decl=7000); sb.print(lit("selfish body")); sb.import_("selfish", "me"); sb.print(lit("unreached"))
        return [{"path": "lib", "prog": lb.toks}, {"path": "broken", "prog": bb.toks}, {"path": "selfish", "prog": sb.toks}]

    for f1, f2, where in itertools.product(failures, failures, ("top", "fn", "try")):
        if f1 == "none" and f2 != "none":
            continue
        snips = []
        b = Builder(first_decl=100)
        b.import_("lib", "lib"); b.print(inv(b.v("lib"), "bump"))
        snips.append({"prog": b.toks})
        for k, f in enumerate((f1, f2)):
            b = Builder(first_decl=200 + 100 * k)
            if f == "none":
                b.print(lit("quiet run"))
            elif f == "throw":
                b.print(lit("before")); b.throw(lit("uncaught %d" % k))
            elif f == "builtin":
                b.print(idx(vec(lit(1)), lit(9)))
            elif f == "compile":
                snips.append({"bad": True, "src": "var x = (1;\n", "messages": ["[module \"main\", line 1] Error at ';': Expected ')' after expression."], "prog": []})
                continue
            elif f == "in-module-fn":
                b.expr(inv(b.v("lib"), "fails"))
            elif f == "failing-import":
                b.import_("broken", "broken")
            elif f == "in-fiber":
                b.expr(inv(inv(b.v("Fiber"), "new", get(b.v("lib"), "fails")), "call"))
            elif f == "missing-import":
                b.import_("nowhere", "nowhere")
            else:
                b.try_(); b.import_("selfish", "selfish"); b.catch("e"); b.print(tup(lit("caught"), call(b.v("type"), b.v("e")))); b.end()
            snips.append({"prog": b.toks})
        b = Builder(first_decl=900)
        if where == "fn":
            b.fn("again", [])
        if where == "try":
            b.try_()
        b.import_("lib", "lib2")
        b.print(tup(bin_("==", b.v("lib2"), b.v("lib")), inv(b.v("lib2"), "bump"), get(b.v("lib"), "count")))
        if where == "try":
            b.catch("e"); b.print(tup(lit("import failed"), call(b.v("type"), b.v("e")))); b.end()
        if where == "fn":
            b.end(); b.expr(call(b.v("again"))); b.expr(call(b.v("again")))
        snips.append({"prog": b.toks})
        out.append(("modrerun:%s:%s:%s" % (f1, f2, where), {"snips": snips, "mods": lib_mods()}))

    # (b) re-entrant imports
    for back, via, loaded, guard in itertools.product(("plugin-body", "plugin-fn", "both"), ("call", "fiber", "method"), ("loaded", "loading"), (False, True)):
        cb = Builder(first_decl=5000)
        cb.print(lit("core body")); cb.var("count", lit(0))
        cb.fn("bump", []); cb.expr(cb.assign("count", bin_("+", cb.v("count"), lit(1)))); cb.ret(cb.v("count")); cb.end()
        cb.fn("load_plugin", [])
        cb.var("mine", vec(lit("core local")))
        cb.import_("plugin", "p")
        cb.ret(tup(inv(cb.v("p"), "hello"), cb.v("mine"), cb.v("count")))
        cb.end()
        if loaded == "loading":
            # core calls its own lazy loader while its body is still running: the back-import now names a module that is still loading
            if guard:
                cb.try_(); cb.print(call(cb.v("load_plugin"))); cb.catch("e"); cb.print(tup(lit("core caught"), call(cb.v("type"), cb.v("e")), get(cb.v("e"), "context"))); cb.end()
            else:
                cb.print(call(cb.v("load_plugin")))
        cb.print(lit("end of core body"))
        pb = Builder(first_decl=6000)
        pb.print(lit("plugin body"))
        if back in ("plugin-body", "both"):
            pb.import_("core", "c"); pb.print(tup(lit("plugin sees"), get(pb.v("c"), "count")))
        pb.fn("hello", [])
        if back in ("plugin-fn", "both"):
            pb.import_("core", "c2"); pb.ret(tup(lit("hello"), inv(pb.v("c2"), "bump")))
        else:
            pb.ret(tup(lit("hello"), inv(pb.v("c"), "bump")))
        pb.end()
        b = Builder(first_decl=100)
        if guard:
            b.try_()
        b.import_("core", "core")
        if via == "call":
            b.print(call(get(b.v("core"), "load_plugin"))); b.print(inv(b.v("core"), "load_plugin"))
        elif via == "fiber":
            b.print(inv(inv(b.v("Fiber"), "new", get(b.v("core"), "load_plugin")), "call")); b.print(inv(b.v("core"), "load_plugin"))
        else:
            b.class_("Host", ctor="new"); b.method("go", ["m"]); b.ret(inv(b.v("m"), "load_plugin")); b.end(); b.end()
            b.print(inv(inv(b.v("Host"), "new"), "go", b.v("core"))); b.print(inv(b.v("core"), "load_plugin"))
        b.print(inv(b.v("core"), "bump"))
        if guard:
            b.catch("e"); b.print(tup(lit("main caught"), call(b.v("type"), b.v("e")), get(b.v("e"), "context"))); b.end()
        b.print(lit("end of main"))
        out.append(("modreentry:%s:%s:%s:%d" % (back, via, loaded, int(guard)),
                    {"snips": [{"prog": b.toks}], "mods": [{"path": "core", "prog": cb.toks}, {"path": "plugin", "prog": pb.toks}]}))
    return out


def snippet_scenarios(rng, count):
    out = []
    catalogue = ["def-var", "def-fn", "def-class", "use-var", "use-fn", "use-class", "compile-error", "throw-top", "throw-nested", "throw-in-fiber",
                 "throw-in-finally", "builtin-error", "import", "import-failing", "reset", "try-finally-ok", "fiber-persist", "fiber-resume",
                 "uncaught-in-class-def", "closure-persist", "mutate-var", "throw-through-two-finally", "error-in-method",
                 "inspect-failed-fiber", "fail-in-module-fn", "use-after", "closure-escapes-failure", "closure-escapes-failure", "use-escaped-closure",
                 "use-escaped-closure", "closure-escapes-fiber-failure", "import-uncompilable", "import-uncompilable", "import-uncompilable-uncaught",
                 "fiber-parked-in-finally", "try-finally-ok", "closure-over-root-local-child-fails", "assign-undeclared",
                 "shadow-core", "use-adapters", "use-adapters"]
    triples = [(a, c) for a in catalogue for c in catalogue if a != "reset" and c != "reset"]
    for k in range(count):
        n = rng.randint(2, 6)
        plan = [rng.choice(catalogue) for _ in range(n)]
        if k < len(triples) and k % 2 == 0:
            a, c = triples[(k // 2 * 7) % len(triples)]
            plan = ["def-var", "def-fn", "import", "throw-in-fiber", a, "reset", c, "use-after"]
        elif k % 25 == 6:
            # globals that shadow the iteration classes core.yl's own methods refer to (MapIter, FilterIter, StopIter are ordinary globals
            # of main), then a reset: the adapters of a reset interpreter are those of a new one
            plan = ["use-adapters", "shadow-core", "use-adapters"] + plan[:2] + ["reset", "use-adapters", "use-after"]
        elif k % 5 == 1:
            plan = ["throw-in-fiber"] + plan + ["inspect-failed-fiber"]
        elif k % 5 == 3:
            plan = [rng.choice(["closure-escapes-failure", "closure-escapes-fiber-failure", "closure-over-root-local-child-fails"])] + plan + ["use-escaped-closure"]
        n = len(plan)
        snips = []
        mods = [{"path": "lib", "prog": None}, {"path": "broken", "prog": None},
                {"path": "uncompilable", "bad": True, "msg": bad_msg("uncompilable"), "src": BAD_SRC, "prog": []}]
        lb = Builder(first_decl=5000); lb.print(lit("lib body")); lb.var("v", lit("lib.v")); lb.fn("f", []); lb.ret(lit("lib.f")); lb.end(); lb.fn("fails", []); lb.throw(lit("lib.fails")); lb.end()
        mods[0]["prog"] = lb.toks
        bb = Builder(first_decl=6000); bb.print(lit("broken body")); bb.throw(lit("broken while loading"))
        mods[1]["prog"] = bb.toks
        for si in range(n):
            kind = plan[si]
            b = Builder(first_decl=100 * (si + 1))
            if kind == "compile-error":
                snips.append({"bad": True, "src": "var x = (1;\n", "messages": ["[module \"main\", line 1] Error at ';': Expected ')' after expression."], "prog": []})
                continue
            if kind == "reset":
                snips.append({"reset": True})
                continue
            if kind == "def-var":
                b.var("shared", lit("set in %d" % si)); b.print(b.v("shared"))
            elif kind == "def-fn":
                b.fn("helper", ["x"]); b.ret(tup(lit("helper%d" % si), b.v("x"))); b.end()
            elif kind == "def-class":
                b.class_("Kept", ctor="new"); b.method("who", []); b.ret(lit("Kept%d" % si)); b.end(); b.end()
            elif kind == "use-var":
                b.print(b.v("shared"))
            elif kind == "use-fn":
                b.print(call(b.v("helper"), lit(si)))
            elif kind == "use-class":
                b.print(inv(inv(b.v("Kept"), "new"), "who"))
            elif kind == "throw-top":
                b.print(lit("before")); b.throw(lit("top %d" % si)); b.print(lit("after"))
            elif kind == "throw-nested":
                b.fn("deep2", []); b.var("l", lit(1)); b.throw(lit("nested %d" % si)); b.end(); b.fn("deep1", []); b.try_(); b.expr(call(b.v("deep2"))); b.finally_(); b.print(lit("deep1 finally")); b.end(); b.end(); b.expr(call(b.v("deep1")))
            elif kind == "throw-in-fiber":
                b.var("fib", inv(b.v("Fiber"), "new", b.lam([], lambda: call(b.v("no_such_function"))))); b.print(lit("calling")); b.expr(inv(b.v("fib"), "call"))
            elif kind == "throw-in-finally":
                b.try_(); b.print(lit("body")); b.finally_(); b.throw(lit("from finally %d" % si)); b.end()
            elif kind == "builtin-error":
                b.try_(); b.print(idx(vec(), lit(0))); b.finally_(); b.print(lit("fin")); b.end()
            elif kind == "import":
                b.import_("lib", "lib"); b.print(inv(b.v("lib"), "f"))
            elif kind == "import-failing":
                b.import_("broken", "broken"); b.print(lit("unreached"))
            elif kind == "try-finally-ok":
                b.try_(); b.print(lit("t")); b.finally_(); b.print(lit("f")); b.end(); b.fn("rf", []); b.try_(); b.ret(lit("r")); b.finally_(); b.print(lit("rf fin")); b.end(); b.end(); b.print(call(b.v("rf")))
            elif kind == "fiber-persist":
                b.fn("gen", []); b.expr(inv(b.v("Fiber"), "yield", lit("y1"))); b.expr(inv(b.v("Fiber"), "yield", lit("y2"))); b.ret(lit("gen done")); b.end(); b.var("kept_fiber", inv(b.v("Fiber"), "new", b.v("gen"))); b.print(inv(b.v("kept_fiber"), "call"))
            elif kind == "fiber-resume":
                b.print(inv(b.v("kept_fiber"), "call")); b.print(inv(b.v("kept_fiber"), "has_finished"))
            elif kind == "uncaught-in-class-def":
                b.var("NotAClass", lit(3)); b.class_("Broken", sup="NotAClass"); b.end()
            elif kind == "closure-persist":
                b.fn("mk", []); b.var("c", lit(0)); b.ret(b.lam([], lambda: b.assign("c", bin_("+", b.v("c"), lit(1))))); b.end(); b.var("counter", call(b.v("mk"))); b.print(call(b.v("counter")))
            elif kind == "mutate-var":
                b.expr(b.assign("shared", lit("mutated in %d" % si))); b.print(call(b.v("counter")))
            elif kind == "throw-through-two-finally":
                b.try_(); b.try_(); b.throw(lit("two %d" % si)); b.finally_(); b.print(lit("inner")); b.end(); b.finally_(); b.print(lit("outer")); b.end()
            elif kind == "inspect-failed-fiber":
                b.try_(); b.print(inv(b.v("fib"), "has_finished")); b.print(inv(b.v("fib"), "call")); b.catch("e"); b.print(tup(lit("inspect"), call(b.v("type"), b.v("e")), get(b.v("e"), "context"))); b.end()
            elif kind == "fail-in-module-fn":
                b.import_("lib", "lib"); b.print(inv(b.v("lib"), "fails"))
            elif kind == "shadow-core":
                b.var("MapIter", lit("shadowed MapIter %d" % si)); b.var("FilterIter", lit("shadowed FilterIter")); b.print(b.v("MapIter"))
            elif kind == "use-adapters":
                b.try_()
                b.print(inv(inv(inv(vec(lit(1), lit(2), lit(3)), "iter"), "map", b.lam(["x"], lambda: bin_("*", b.v("x"), lit(2)))), "collect"))
                b.print(inv(inv(inv(vec(lit(1), lit(2), lit(3)), "iter"), "filter", b.lam(["x"], lambda: bin_("!=", b.v("x"), lit(2)))), "collect"))
                b.catch("e"); b.print(tup(lit("adapters failed"), call(b.v("type"), b.v("e")), get(b.v("e"), "context"))); b.end()
            elif kind == "use-after":
                for nm in ("shared", "helper", "lib", "Kept", "Vec", "StopIter", "never_declared"):
                    b.try_(); b.print(b.v(nm)); b.catch("e"); b.print(tup(lit("undefined"), lit(nm))); b.end()
            elif kind in ("closure-escapes-failure", "closure-escapes-fiber-failure"):
                # closures over live locals are stored in globals, then the run dies with those locals still on the stack
                b.var("esc_get", lit(None)); b.var("esc_set", lit(None))
                b.fn("leaky", [])
                b.var("pad", lit("pad")); b.var("x", tup(lit(7), vec(lit(8), lit(si))))
                b.expr(b.assign("esc_get", b.lam([], lambda: b.v("x"))))
                b.expr(b.assign("esc_set", b.lam(["nv"], lambda: b.assign("x", b.v("nv")))))
                b.throw(lit("dies with x live %d" % si))
                b.end()
                if kind == "closure-escapes-failure":
                    b.expr(call(b.v("leaky")))
                else:
                    b.expr(inv(inv(b.v("Fiber"), "new", b.v("leaky")), "call"))
            elif kind == "closure-over-root-local-child-fails":
                # the captured variables live on the stack of the run's ROOT fiber; the run dies inside a child fiber, so the root
                # fiber is not the one whose stack is cleared - it is simply dropped when the next run starts
                b.var("esc_get", lit(None)); b.var("esc_set", lit(None))
                b.block()
                b.var("pad", lit("pad")); b.var("x", tup(lit(7), vec(lit(8), lit(si))))
                b.expr(b.assign("esc_get", b.lam([], lambda: b.v("x"))))
                b.expr(b.assign("esc_set", b.lam(["nv"], lambda: b.assign("x", b.v("nv")))))
                b.expr(inv(inv(b.v("Fiber"), "new", b.lam([], lambda: call(b.v("no_such_function")))), "call"))
                b.end()
            elif kind == "assign-undeclared":
                # assignment to a global that was never declared: a NameError, and the name must stay undefined afterwards
                b.expr(b.assign("never_declared", lit("leaked %d" % si)))
            elif kind == "use-escaped-closure":
                b.var("filler", vec(vec(lit(1)), tup(lit(2), lit(3)), vec(lit(4))))
                b.try_(); b.print(call(b.v("esc_get"))); b.expr(call(b.v("esc_set"), tup(lit("new"), vec(lit(si))))); b.print(call(b.v("esc_get")))
                b.catch("e"); b.print(tup(lit("no escaped closure"), call(b.v("type"), b.v("e")))); b.end()
            elif kind == "import-uncompilable":
                # a module that does not compile fails the same way every time it is imported
                b.try_(); b.import_("uncompilable", "unc"); b.print(lit("unreached")); b.catch("e"); b.print(tup(call(b.v("type"), b.v("e")), get(b.v("e"), "context"))); b.end()
            elif kind == "import-uncompilable-uncaught":
                b.import_("uncompilable", "unc"); b.print(lit("unreached"))
            elif kind == "fiber-parked-in-finally":
                # a fiber is left suspended INSIDE a finally block that runs because of an exception; the run itself ends normally
                b.fn("parker", []); b.try_(); b.throw(lit("pending in parked fiber")); b.finally_(); b.expr(inv(b.v("Fiber"), "yield", lit("parked"))); b.end(); b.end()
                b.var("parked", inv(b.v("Fiber"), "new", b.v("parker"))); b.print(inv(b.v("parked"), "call"))
            elif kind == "error-in-method":
                b.class_("Tmp", ctor="new"); b.method("boom", []); b.ret(bin_("-", lit("x"), lit(1))); b.end(); b.end(); b.print(inv(inv(b.v("Tmp"), "new"), "boom"))
            snips.append({"prog": b.toks})
        out.append(("snip:%d" % k, {"snips": snips, "mods": mods}))
    return out


# ---------------------------------------------------------------------------------------------------
# C12: operation sequences on a HashMap over a pool of equal-but-differently-built, NaN and unhashable keys
def mapnode(*kvs):
    flat = []
    for k, v in kvs:
        flat += [k, v]
    return {"k": "map", "kvs": flat}


def hashmap_scenarios(rng, count, exhaustive_pairs=True):
    out = []

    def pool(b):
        return {
            "one": lambda: lit(1),
            "one-computed": lambda: bin_("-", lit(2), lit(1)),
            "zero": lambda: lit(0),
            "negzero": lambda: un("-", lit(0)),
            "nan": lambda: bin_("/", lit(0), lit(0)),
            "str": lambda: lit("a"),
            "str-built": lambda: bin_("+", lit(""), lit("a")),
            "tuple": lambda: tup(lit(1), lit("a")),
            "tuple-again": lambda: tup(bin_("-", lit(2), lit(1)), bin_("+", lit(""), lit("a"))),
            "tuple-negzero": lambda: tup(un("-", lit(0)), lit("a")),
            "tuple-zero": lambda: tup(lit(0), lit("a")),
            "nested": lambda: tup(tup(lit(1)), lit(2)),
            "pair-21": lambda: tup(lit(2), lit(1)),
            "pair-12": lambda: tup(lit(1), lit(2)),
            "triple": lambda: tup(lit(5), lit(6), lit(7)),
            "pair-strs": lambda: tup(lit("k"), lit("v")),
            "nil": lambda: lit(None),
            "true": lambda: lit(True),
            "class": lambda: b.v("Vec"),
            "range": lambda: {"k": "range", "l": lit(0), "r": lit(2)},
            "vec (unhashable)": lambda: vec(lit(1)),
            "tuple with vec (unhashable)": lambda: tup(lit(1), vec(lit(2))),
            "held unhashable tuple": lambda: b.v("bad"),
        }
    from yprog import un
    names = list(pool(Builder()).keys())
    ops = ["insert", "remove", "get", "has_key", "len", "clear", "keys", "values", "items", "literal"]

    def emit(b, plan):
        b.var("bad", tup(lit(9), vec(lit(8))))
        b.var("m", mapnode())
        P = pool(b)
        for step, (op, kn, kn2) in enumerate(plan):
            key = P[kn]
            b.try_()
            if op == "insert":
                b.print(tup(lit("insert"), inv(b.v("m"), "insert", key(), lit("v%d" % step))))
            elif op == "remove":
                b.print(tup(lit("remove"), inv(b.v("m"), "remove", key())))
            elif op == "get":
                b.print(tup(lit("get"), inv(b.v("m"), "get", key())))
            elif op == "has_key":
                b.print(tup(lit("has_key"), inv(b.v("m"), "has_key", key())))
            elif op == "len":
                b.print(tup(lit("len"), inv(b.v("m"), "len")))
            elif op == "clear":
                b.print(tup(lit("clear"), inv(b.v("m"), "clear")))
            elif op == "keys":
                b.for_("k", inv(b.v("m"), "keys")); b.print(tup(lit("~key"), b.v("k"))); b.end()
            elif op == "values":
                b.for_("k", inv(b.v("m"), "values")); b.print(tup(lit("~value"), b.v("k"))); b.end()
            elif op == "items":
                b.for_("k", inv(b.v("m"), "items")); b.print(tup(lit("~item"), b.v("k"))); b.end()
            else:
                b.expr(b.assign("m", mapnode((key(), lit("l%d" % step)), (P[kn2](), lit("L%d" % step)))))
                b.print(tup(lit("literal len"), inv(b.v("m"), "len")))
            b.catch("e")
            b.print(tup(lit("error"), call(b.v("type"), b.v("e")), get(b.v("e"), "context")))
            b.end()
        b.print(tup(lit("final len"), inv(b.v("m"), "len")))
        b.for_("k", inv(b.v("m"), "items")); b.print(tup(lit("~final"), b.v("k"))); b.end()

    if exhaustive_pairs:
        # every ordered pair of pool keys: insert a, then look b up every way, then insert b
        for a in names:
            for c in names:
                b = Builder()
                emit(b, [("insert", a, a), ("has_key", c, c), ("get", c, c), ("insert", c, c), ("len", a, a), ("remove", c, c), ("has_key", a, a), ("items", a, a)])
                out.append(("map2:%s|%s" % (a, c), b.toks))
        # every sequence of 4 operations on one key (history-sensitive behaviour: caches, tombstones)
        import itertools
        for kn in ("one", "tuple", "str-built"):
            for seq in itertools.product(["insert", "remove", "get", "has_key", "clear"], repeat=4):
                b = Builder()
                emit(b, [("insert", kn, kn)] + [(op, kn, kn) for op in seq] + [("len", kn, kn)])
                out.append(("map4:%s:%s" % (kn, "-".join(seq)), b.toks))
        # keys that are, or contain, the receiver map itself (unhashable; the rejection message prints the key while the map is
        # being operated on): every key-taking operation, on an empty and on a one-entry map, which must stay usable afterwards
        selfkeys = {"the map": lambda b: b.v("m"), "tuple holding the map": lambda b: tup(lit(0), b.v("m")),
                    "tuple holding a vector holding the map": lambda b: tup(lit(0), vec(b.v("m"))), "vector holding the map": lambda b: vec(b.v("m"))}
        for kn, key in selfkeys.items():
            for filled in (False, True):
                for first in ("insert", "remove", "get", "has_key", "literal"):
                    b = Builder()
                    b.var("m", mapnode((lit(1), lit("one"))) if filled else mapnode())
                    for op in [first, "insert", "remove", "get", "has_key"]:
                        b.try_()
                        if op == "literal":
                            b.print(tup(lit("literal"), inv(mapnode((key(b), lit("x"))), "len")))
                        else:
                            b.print(tup(lit(op), inv(b.v("m"), op, *([key(b)] + ([lit("v")] if op == "insert" else [])))))
                        b.catch("e")
                        b.print(tup(lit("error"), call(b.v("type"), b.v("e")), get(b.v("e"), "context")))
                        b.end()
                    b.print(tup(lit("len"), inv(b.v("m"), "len")))
                    b.print(tup(lit("insert after"), inv(b.v("m"), "insert", lit(2), lit("two")), inv(b.v("m"), "get", lit(2)), inv(b.v("m"), "len")))
                    out.append(("mapself:%s:%s:%s" % (kn, filled, first), b.toks))
        # the VALUE of an existing entry is replaced by whatever is inserted, also when the new value is `==` to the old one but
        # distinguishable from it (0 / -0, equal containers that are different objects): the entry holds the new object afterwards
        valpairs = {"zero-negzero": (lambda: lit(0), lambda: un("-", lit(0))), "negzero-zero": (lambda: un("-", lit(0)), lambda: lit(0)),
                    "nan-nan": (lambda: bin_("/", lit(0), lit(0)), lambda: bin_("/", lit(0), lit(0))), "nil-nil": (lambda: lit(None), lambda: lit(None)),
                    "equal-vecs": None, "equal-maps": None, "equal-tuples-of-vecs": None, "same-vec-twice": None}
        for kn in ("one", "tuple", "str-built", "nil"):
            for vn, pair in valpairs.items():
                b = Builder()
                b.var("m", mapnode())
                P = pool(b)
                if pair is None:
                    if vn == "equal-maps":
                        b.var("va", mapnode((lit(1), lit(2)))); b.var("vb", mapnode((lit(1), lit(2))))
                    elif vn == "equal-tuples-of-vecs":
                        b.var("ia", vec(lit(1))); b.var("ib", vec(lit(1))); b.var("va", tup(b.v("ia"), lit(0))); b.var("vb", tup(b.v("ib"), lit(0)))
                    else:
                        b.var("va", vec(lit(1))); b.var("vb", b.v("va") if vn == "same-vec-twice" else vec(lit(1)))
                    first, second = (lambda: b.v("va")), (lambda: b.v("vb"))
                else:
                    first, second = pair
                b.print(tup(lit("first insert"), inv(b.v("m"), "insert", P[kn](), first())))
                b.print(tup(lit("second insert"), inv(b.v("m"), "insert", P[kn](), second())))
                b.print(tup(lit("holds"), inv(b.v("m"), "get", P[kn]()), inv(b.v("m"), "len")))
                if pair is None:
                    if vn == "equal-maps":
                        b.expr(inv(b.v("vb"), "insert", lit("later"), lit(3)))
                    elif vn == "equal-tuples-of-vecs":
                        b.expr(inv(b.v("ib"), "push", lit("later")))
                    else:
                        b.expr(inv(b.v("vb"), "push", lit("later")))
                    shown = (lambda: tup(inv(inv(b.v("m"), "get", P[kn]()), "len"), inv(inv(b.v("m"), "get", P[kn]()), "has_key", lit("later")),
                                         inv(inv(b.v("m"), "get", P[kn]()), "has_key", lit("first changed")))) if vn == "equal-maps" else (lambda: inv(b.v("m"), "get", P[kn]()))
                    b.print(tup(lit("after changing the second value"), shown()))
                    if vn != "same-vec-twice":
                        if vn == "equal-maps":
                            b.expr(inv(b.v("va"), "insert", lit("first changed"), lit(4)))
                        elif vn == "equal-tuples-of-vecs":
                            b.expr(inv(b.v("ia"), "push", lit("first changed")))
                        else:
                            b.expr(inv(b.v("va"), "push", lit("first changed")))
                        b.print(tup(lit("after changing the first value"), shown()))
                if vn != "equal-maps":
                    b.for_("k", inv(b.v("m"), "items")); b.print(tup(lit("~final"), b.v("k"))); b.end()
                out.append(("mapval:%s:%s" % (kn, vn), b.toks))
    for k in range(count):
        b = Builder()
        plan = [(rng.choice(ops), rng.choice(names), rng.choice(names)) for _ in range(rng.randint(2, 7))]
        emit(b, plan)
        out.append(("mapr:%d" % k, b.toks))
    return out
