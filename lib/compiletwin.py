"""Compile.tla (the code generator's twin) against the real compiler: for every token program the specification supports,
TLC computes the functions compiler.rs has to emit (code bytes, line table, constants, arity, capture count); the harness
exports what it really emitted for the printed source; everything is compared byte for byte."""
import json
import os

import vlib
import yprog
from vlib import Pool, log

BATCH = 20000
UNSUPPORTED_TOKENS = set()
UNSUPPORTED_NODES = set()


def supported(toks):
    def ok_expr(e):
        if isinstance(e, dict):
            if e.get("k") in UNSUPPORTED_NODES:
                return False
            if e.get("k") == "lit":
                v = e.get("v", {})
                if v.get("k") == "num" and not (isinstance(v.get("v"), int) and not isinstance(v.get("v"), bool) and abs(v["v"]) < 2 ** 30):
                    return False
                if v.get("k") not in ("num", "str", "nil", "bool"):
                    return False
                return True
            return all(ok_expr(x) for x in e.values())
        if isinstance(e, list):
            return all(ok_expr(x) for x in e)
        return True
    if not isinstance(toks, list) or not toks:
        return False
    return all(t.get("t") not in UNSUPPORTED_TOKENS for t in toks) and ok_expr(toks)


def twin_run(progs, tag="ctwin", timeout=1200, workers=8):
    """progs: [(id, tokens)] -> {id: [unsup, err, fns]}"""
    os.makedirs(os.path.join(vlib.WORK, "progs"), exist_ok=True)
    path = os.path.join(vlib.WORK, "progs", "%s-%d.ndjson" % (tag, os.getpid()))
    with open(path, "w") as f:
        for pid, toks in progs:
            f.write(json.dumps({"id": pid, "prog": toks}) + "\n")
    out = {}
    res = vlib.run_tlc("MC_Compile", "MC_Compile.cfg", workers=workers, timeout=timeout, env_extra={"PROGS": path},
                       on_line=lambda t, o: out.__setitem__(json.dumps(o["id"]), o["out"]) if t == "CMP" else None, keep_lines=False, tag=tag)
    os.remove(path)
    return out, res


def diff_function(a, b):
    """a: twin, b: exported -> None or a description"""
    if a["name"] != b["name"]:
        return "name: spec %r impl %r" % (a["name"], b["name"])
    if a["arity"] != b["arity"] or a["upv"] != b["upv"]:
        return "arity / captured variables: spec %d / %d impl %d / %d" % (a["arity"], a["upv"], b["arity"], b["upv"])
    if a["code"] != b["code"]:
        i = next((k for k in range(min(len(a["code"]), len(b["code"]))) if a["code"][k] != b["code"][k]), min(len(a["code"]), len(b["code"])))
        return "code differs at offset %d: spec %r impl %r" % (i, a["code"][max(0, i - 6): i + 8], b["code"][max(0, i - 6): i + 8])
    if a["lines"] != b["lines"]:
        i = next((k for k in range(min(len(a["lines"]), len(b["lines"]))) if a["lines"][k] != b["lines"][k]), min(len(a["lines"]), len(b["lines"])))
        return "line table differs at offset %d: spec %r impl %r" % (i, a["lines"][max(0, i - 4): i + 6], b["lines"][max(0, i - 4): i + 6])
    if len(a["consts"]) != len(b["consts"]):
        return "constant pool: spec %d entries impl %d" % (len(a["consts"]), len(b["consts"]))
    for k, (x, y) in enumerate(zip(a["consts"], b["consts"])):
        if x["k"] != y["k"]:
            return "constant %d: spec %r impl %r" % (k, x, y)
        if x["k"] == "str" and x["s"] != y.get("s"):
            return "constant %d: spec %r impl %r" % (k, x["s"], y.get("s"))
        if x["k"] == "num" and float(x["n"]) != y.get("v"):
            return "constant %d: spec %r impl %r" % (k, x["n"], y.get("v"))
        if x["k"] == "fn" and x["n"] - 1 != y.get("idx"):
            return "constant %d: function #%d in the specification, #%r in the implementation" % (k, x["n"] - 1, y.get("idx"))
    return None


def check(rep, binaries, progs, what, tag="ctwin"):
    """binaries: [(name, path)] -> (programs compared, functions compared)"""
    progs = [(pid, toks) for pid, toks in progs if supported(toks)]
    if not progs:
        return 0, 0
    twin, wall = {}, 0.0
    for i in range(0, len(progs), BATCH):          # bounded batches: the programs are a TLC constant
        part, res = twin_run(progs[i:i + BATCH], tag="%s%d" % (tag, i // BATCH))
        twin.update(part)
        wall += res.wall
        if res.violation:
            rep.violation("Compile.tla (%s): TLC reports\n%s" % (what, res.violation[:2000]), {"tlc": res.violation})
    res.wall = wall
    cases = [{"id": pid, "src": yprog.program_src(toks)} for pid, toks in progs]
    nprog = nfn = 0
    for bname, binary in binaries:
      for (pid, toks), c, r in zip(progs, cases, Pool(binary, "export", timeout=120).map(cases)):
          t = twin.get(json.dumps(pid))
          if t is None:
              rep.violation("Compile.tla produced nothing for %s (%s)" % (pid, what), {"source": c["src"]})
              continue
          if t["unsup"]:
              rep.add("programs_outside_the_compiler_twin", 1)
              continue
          nprog += 1
          if "ok" not in r:
              rep.violation("%s (%s build): compiling did not return: %r" % (what, bname, r), {"source": c["src"]})
              continue
          if t["err"] != (not r["ok"]):
              rep.violation("%s (%s build): the specification says the compiler %s this program, the implementation %s it%s"
                            % (what, bname, "rejects" if t["err"] else "accepts", "accepted" if r["ok"] else "rejected",
                               "" if r["ok"] else ": %r" % (r.get("messages"),)), {"source": c["src"], "tokens": toks})
              continue
          if t["err"]:
              continue
          if len(t["fns"]) != len(r["fns"]):
              rep.violation("%s (%s build): %d functions compiled, the specification has %d" % (what, bname, len(r["fns"]), len(t["fns"])),
                            {"source": c["src"], "tokens": toks})
              continue
          for a, b in zip(t["fns"], r["fns"]):
              nfn += 1
              d = diff_function(a, b)
              if d:
                  rep.violation("%s (%s build): function '%s' is not compiled as Compile.tla says: %s" % (what, bname, b["name"], d),
                                {"source": c["src"], "tokens": toks, "spec": a, "impl": b})
                  break
    log("[compiletwin] %s: %d programs x builds, %d functions compared, TLC %.1fs" % (what, nprog, nfn, res.wall))
    return nprog, nfn
