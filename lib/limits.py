"""Programs sized to sit on, one below and above each encoding limit of the compiler (C04).

Every case knows whether the construct is encodable (-> must be accepted AND behave) or not
(-> must be rejected with a compile error).  Distances are not assumed: the generator measures the
operand the compiler actually emits for two small paddings and extrapolates linearly."""
import itertools
import json

from vlib import Pool

OPN = ["Constant","Nil","True","False","Pop","CopyTop","GetLocal","SetLocal","GetGlobal","DefineGlobal","SetGlobal",
       "GetUpvalue","SetUpvalue","GetProperty","SetProperty","GetClass","GetSuper","Equal","Greater","Less","Add","Subtract",
       "Multiply","Divide","BitwiseAnd","BitwiseOr","BitwiseXor","Modulo","LogicalNot","BitwiseNot","BitShiftLeft",
       "BitShiftRight","Negate","GetItem","SetItem","FormatString","BuildHashMap","BuildRange","BuildString","BuildTuple",
       "BuildVec","IterNext","Jump","JumpIfFalse","JumpIfStopIter","Loop","JumpFinally","EndFinally","PushExcHandler",
       "PopExcHandler","Throw","Call","Invoke","Construct","SuperInvoke","Closure","CloseUpvalue","Return","DeclareClass",
       "DefineClass","Inherit","Method","StaticMethod","StartImport","FinishImport"]
TWO = {"Constant","GetGlobal","DefineGlobal","SetGlobal","GetProperty","SetProperty","GetSuper","Jump","JumpIfFalse",
       "JumpIfStopIter","Loop","Closure","DeclareClass","Method","StaticMethod","StartImport"}
ONE = {"GetLocal","SetLocal","GetUpvalue","SetUpvalue","BuildHashMap","BuildString","BuildTuple","BuildVec","Call","Construct"}


def disasm(fn):
    code, pc, out = fn["code"], 0, []
    while pc < len(code):
        n = OPN[code[pc]] if code[pc] < len(OPN) else "?"
        if n in TWO:
            a, sz = [code[pc + 1] + 256 * code[pc + 2]], 3
            if n == "Closure":
                c = fn["consts"][a[0]]
                sz += 2 * c.get("upv", 0)
        elif n in ONE:
            a, sz = [code[pc + 1]], 2
        elif n == "PushExcHandler":
            a, sz = [code[pc + 1] + 256 * code[pc + 2], code[pc + 3] + 256 * code[pc + 4]], 5
        elif n in ("Invoke", "SuperInvoke"):
            a, sz = [code[pc + 1] + 256 * code[pc + 2], code[pc + 3]], 4
        else:
            a, sz = [], 1
        out.append((pc, n, a))
        pc += sz
    return out


def pad(nbytes_even, odd):
    """statements executing harmlessly: `nil;` = 2 bytes, `!nil;` = 3 bytes"""
    return "nil;" * nbytes_even + ("!nil;" if odd else "")


class Sizer:
    """template(k, odd) -> source; pick(fn_list) -> measured operand; finds paddings for target distances"""

    def __init__(self, binary, name, template, pick):
        self.binary, self.name, self.template, self.pick = binary, name, template, pick
        r = Pool(binary, "export", workers=2).map([{"id": 0, "src": template(10, False)}, {"id": 1, "src": template(11, False)},
                                                   {"id": 2, "src": template(10, True)}])
        v = [pick(x["fns"]) for x in r]
        self.base, self.step, self.oddstep = v[0] - 10 * (v[1] - v[0]), v[1] - v[0], v[2] - v[0]
        assert self.step == 2 and self.oddstep == 3, (name, v)

    def source_for(self, distance):
        rest = distance - self.base
        odd = rest % 2 == 1
        k = (rest - (3 if odd else 0)) // 2
        assert k >= 0 and self.base + 2 * k + (3 if odd else 0) == distance
        return self.template(k, odd)


def first_op(fns, fname, opname, nth=0):
    for f in fns:
        if f["name"] == fname:
            ops = [x for x in disasm(f) if x[1] == opname]
            return ops[nth][2]
    raise KeyError(fname)


def build(binary, tier):
    cases = []   # dicts: name, src, encodable (bool), expect (list of printed lines when encodable), construct

    def jump_cases(name, template, pick, expect, which=0, limit=65535, message=None):
        s = Sizer(binary, name, template, lambda fns: pick(fns)[which])
        for d in (limit - 1, limit, limit + 1, limit + 2):
            cases.append({"name": "%s distance %d" % (name, d), "src": s.source_for(d), "encodable": d <= limit,
                          "expect": expect, "construct": name, "distance": d})

    # forward jump over an if body (patch_jump)
    jump_cases("if-body forward jump",
               lambda k, odd: "fn f(c) { if c { %s } print(\"end\"); }\nf(true); f(false);" % pad(k, odd),
               lambda fns: first_op(fns, "f", "JumpIfFalse"), ["end", "end"])
    # else-jump over the else body (patch_jump on the Jump)
    jump_cases("else-body forward jump",
               lambda k, odd: "fn f(c) { if c { print(\"then\"); } else { %s print(\"else\"); } print(\"end\"); }\nf(true); f(false);" % pad(k, odd),
               lambda fns: first_op(fns, "f", "Jump"), ["then", "end", "else", "end"])
    # backward loop (emit_loop)
    jump_cases("while-loop backward jump",
               lambda k, odd: "fn f() { var i = 0; while i < 3 { i = i + 1; %s } print(i); }\nf();" % pad(k, odd),
               lambda fns: first_op(fns, "f", "Loop"), ["3"])
    # for-loop backward jump
    jump_cases("for-loop backward jump",
               lambda k, odd: "fn f() { var n = 0; for i in 0..3 { n = n + i; %s } print(n); }\nf();" % pad(k, odd),
               lambda fns: first_op(fns, "f", "Loop"), ["3"])
    # break jump out of a long loop body
    jump_cases("break forward jump",
               lambda k, odd: "fn f() { var i = 0; while true { i = i + 1; if i == 2 { break; } %s } print(i); }\nf();" % pad(k, odd),
               lambda fns: first_op(fns, "f", "Jump", 0), ["2"])
    # short-circuit jump: a && (big tuple expression)
    # try block size / catch block size (patch_offset_at)
    jump_cases("try-block size",
               lambda k, odd: "fn f() { try { %s throw 1; } catch e { print(e); } print(\"end\"); }\nf();" % pad(k, odd),
               lambda fns: first_op(fns, "f", "PushExcHandler"), ["1", "end"], which=0)
    jump_cases("catch-block size",
               lambda k, odd: "fn f() { try { throw 1; } catch e { %s print(e); } finally { print(\"fin\"); } print(\"end\"); }\nf();" % pad(k, odd),
               lambda fns: first_op(fns, "f", "PushExcHandler"), ["1", "fin", "end"], which=1)
    # jump over the catch block after a normally completing try body (patch_jump)
    jump_cases("jump over catch block",
               lambda k, odd: "fn f() { try { print(\"body\"); } catch e { %s } print(\"end\"); }\nf();" % pad(k, odd),
               lambda fns: first_op(fns, "f", "Jump"), ["body", "end"])

    # ---- operand counts -----------------------------------------------------------------------
    def count_case(name, n, limit, src, expect):
        cases.append({"name": "%s %d" % (name, n), "src": src, "encodable": n <= limit, "expect": expect, "construct": name, "distance": n})

    for n in (254, 255, 256, 257):
        args = ", ".join(str(i) for i in range(1, n + 1))
        params = ", ".join("a%d" % i for i in range(1, n + 1))
        count_case("call arguments", n, 255, "fn f(%s) { return a1 + a%d; }\nprint(f(%s));" % (params, n, args), [str(1 + n)])
        count_case("vec elements", n, 255, "var v = [%s];\nprint(v.len()); print(v[%d]);" % (args, n - 1), [str(n), str(n)])
        count_case("tuple elements", n, 255, "var v = (%s);\nprint(v.len()); print(v[%d]);" % (args, n - 1), [str(n), str(n)])
        count_case("map entries", n, 255, "var m = {%s};\nprint(m.len()); print(m.get(%d));" % (", ".join("%d: %d" % (i, i * 2) for i in range(1, n + 1)), n), [str(n), str(2 * n)])
        count_case("method arguments", n, 255, "#[constructor(new)] class C { fn m(self, %s) { return a%d; } }\nprint(C.new().m(%s));" % (params, n, args), [str(n)])
        count_case("lambda parameters", n, 255, "var f = |%s| a%d;\nprint(f(%s));" % (params, n, args), [str(n)])
    for n in (254, 255, 256, 300, 511, 512):
        # interpolation with n parts: n must be odd or even depending on layout; use "${1}" repeated and literal pieces
        k = n // 2
        if n % 2 == 0:
            s = "x${1}" * k            # literal+expr pairs = 2k parts
            exp = "x1" * k
        else:
            s = "${1}" + "x${1}" * k   # 1 + 2k parts
            exp = "1" + "x1" * k
        count_case("interpolation parts", n, 255, "var s = \"%s\";\nprint(s.len()); print(s);" % s, [str(len(exp)), exp])
    # the same count reached through every layout of the literal pieces: the parser counts a leading literal, each expression, the
    # literals between expressions and the trailing literal at different places
    for n in (254, 255, 256, 257):
        for lead, trail, inner in itertools.product((0, 1), (0, 1), (0, 1)):
            if inner:
                if (n - lead - trail + 1) % 2:
                    continue
                k = (n - lead - trail + 1) // 2
            else:
                k = n - lead - trail
            mid = ("m".join(["${1}"] * k)) if inner else "${1}" * k
            exp = ("m".join(["1"] * k)) if inner else "1" * k
            s = "L" * lead + mid + "T" * trail
            exp = "L" * lead + exp + "T" * trail
            count_case("interpolation parts (lead %d, trail %d, inner %d)" % (lead, trail, inner), n, 255,
                       "fn f() { var a = \"A\"; var s = \"%s\"; var b = \"B\"; return (a, s.len(), s, b); }\nvar r = f(); print(r[0]); print(r[1]); print(r[2]); print(r[3]);" % s,
                       ["A", str(len(exp)), exp, "B"])
    # locals: slot 0 is the callee, so 255 declared locals fit
    for n in (254, 255, 256, 257):
        decl = " ".join("var v%d = %d;" % (i, i) for i in range(1, n + 1))
        count_case("locals in a function", n, 255, "fn f() { %s return v1 + v%d; }\nprint(f());" % (decl, n), [str(1 + n)])
    # captured variables: two enclosing levels of 130 locals each give up to 260 captures
    for n in (255, 256, 257, 258):
        a = min(n, 130)
        b = n - a
        da = " ".join("var a%d = %d;" % (i, i) for i in range(a))
        db = " ".join("var b%d = %d;" % (i, 1000 + i) for i in range(b))
        uses = " + ".join(["a%d" % i for i in range(a)] + ["b%d" % i for i in range(b)])
        total = sum(range(a)) + sum(1000 + i for i in range(b))
        last = ("b%d" % (b - 1)) if b else ("a%d" % (a - 1))
        lastv = (1000 + b - 1) if b else (a - 1)
        src = ("fn outer() { %s fn mid() { %s fn inner() { return (%s, %s); } return inner; } return mid(); }\n"
               "var g = outer(); var r = g(); print(r[0]); print(r[1]);" % (da, db, uses, last))
        count_case("captured variables", n, 256, src, [str(total), str(lastv)])
    # captured variables that an intermediate function only RELAYS: `mid` itself uses none of them, but its two inner functions
    # capture `a` locals of `host` and `n - a` locals of `outer` through it, so `mid` needs n captured variables while each inner
    # function stays far below the limit
    for n in (255, 256, 257, 262):
        a = 200
        b = n - a
        da = " ".join("var h%d = %d;" % (i, i) for i in range(a))
        db = " ".join("var o%d = %d;" % (i, 1000 + i) for i in range(b))
        src = ("fn outer() { %s fn host() { %s fn mid() { fn first() { return %s; } fn second() { return [%s]; } return (first, second); } return mid(); } return host(); }\n"
               "var p = outer(); print(p[0]()); print(p[1]());"
               % (db, da, " + ".join("h%d" % i for i in range(a)), ", ".join("o%d" % i for i in range(b))))
        count_case("captured variables relayed by an intermediate function", n, 256, src,
                   [str(sum(range(a))), "[" + ", ".join(str(1000 + i) for i in range(b)) + "]"])
    # constants in one chunk
    if tier == "thorough":
        for n in (65534, 65535, 65536, 65537):
            # the chunk also holds the name constant "print"; numbers 0..n-2 are n-1 constants
            body = "".join("%d;" % i for i in range(n - 1))
            count_case("constants in a chunk", n, 65536, body + "\nprint(%d);" % (n - 2), [str(n - 2)])
    # interpolation nesting depth (scanner limit 8)
    for depth in (7, 8, 9):
        s = "1"
        for _ in range(depth):
            s = "\"a${%s}\"" % s
        cases.append({"name": "interpolation depth %d" % depth, "src": "print(%s);" % s, "encodable": depth <= 8,
                      "expect": ["a" * depth + "1"], "construct": "interpolation depth", "distance": depth})
    return cases
