"""Shared driver of the profile-based checks (C05, C06, C08, ...)."""
import os
import collections

import vlib
import profiles
import yprog
from vlib import Report, build_harness, log


def make_cfg(name, vocab, budget, names=("a", "b"), fnnames=("f",), expr_budget=4, max_steps=300, invariants=("EmitRun", "NotStuck"),
             extra_constants=None):
    d = os.path.join(vlib.WORK, "cfg")
    os.makedirs(d, exist_ok=True)
    path = os.path.join(d, name + ".cfg")
    q = lambda xs: "{" + ", ".join('"%s"' % x for x in xs) + "}"
    lines = ["SPECIFICATION Spec", "CONSTANTS", "  MaxSteps = %d" % max_steps, "  Budget = %d" % budget, "  ExprBudget = %d" % expr_budget,
             "  Names = %s" % q(names), "  FnNames = %s" % q(fnnames), "  Vocab = %s" % q(vocab)]
    for k, v in (extra_constants or {}).items():
        lines.append("  %s = %s" % (k, v))
    lines += ["INVARIANTS " + " ".join(invariants), "CHECK_DEADLOCK FALSE"]
    with open(path, "w") as f:
        f.write("\n".join(lines) + "\n")
    return path


def run(prop, tier, seed, plan, feature=None, module="MC_Gen", release_too=None, what="generated program"):
    """plan: list of dicts {name, cfg, simulate (None = exhaustive), sample (optional fraction)}"""
    rep = Report(prop, tier, seed, "model_checking")
    dev = build_harness("dev")
    binaries = [("dev", dev)]
    if release_too if release_too is not None else tier == "thorough":
        binaries.append(("release", build_harness("release")))
    states = trans = ncmp = nprog = 0
    trig_count = collections.Counter()
    nfeature = 0
    for item in plan:
        runs, stats = profiles.generate(item["cfg"], simulate=item.get("simulate"), seed=seed + item.get("seed_offset", 0),
                                        module=module, tag=prop.lower() + item["name"])
        if stats.get("violation"):
            rep.violation("%s: TLC reports\n%s" % (item["name"], stats["violation"][:2000]), {"tlc": stats["violation"]})
        states += max(stats["distinct"], len(runs))
        trans += stats["generated"]
        if item.get("sample") and len(runs) > item["sample"]:
            import random
            random.Random(seed).shuffle(runs)
            runs = runs[: item["sample"]]
        if item.get("trigger_free"):
            # programs whose ideal run uses a construct of a finding recorded for ANOTHER property (C08's try / finally findings) are
            # that property's business: they are generated, counted and left out of this profile's comparison
            nbefore = len(runs)
            runs = [r for r in runs if not r["trig"]]
            rep.add("programs_left_to_C08_findings", nbefore - len(runs))
        for r in runs:
            for t in r["trig"]:
                trig_count[t] += 1
            if feature and feature(r):
                nfeature += 1
        n, u = profiles.replay(rep, runs, binaries, "%s (%s)" % (what, item["name"]), prop)
        ncmp += n
        nprog += u
        # the code the real compiler emits for these programs must be, byte for byte, what Compile.tla (the code generator's twin) computes
        import compiletwin
        cap = TWIN_SAMPLE.get(tier, 3000)
        sub = runs if len(runs) <= cap else runs[:: max(1, len(runs) // cap)][:cap]
        tn, tf = compiletwin.check(rep, binaries[:1], [(r["id"], r["prog"]) for r in sub], "%s (%s)" % (what, item["name"]), tag="tw" + prop.lower() + item["name"][:8])
        rep.add("programs_compared_with_the_compiler_twin", tn)
        rep.add("functions_compared_byte_for_byte", tf)
        log("[%s] %s: %d programs (%d usable), %d comparisons, TLC states %d" % (prop.lower(), item["name"], len(runs), u, n, stats["generated"]))
        for r in runs[:: max(1, len(runs) // 2)][:2]:
            rep.sample({"profile": item["name"], "source": yprog.program_src(r["prog"]), "expected_output": r["out"],
                        "expected_outcome": r["result"]})
    rep.coverage["states"] = states
    rep.coverage["transitions"] = trans
    rep.coverage["traces_validated_against_impl"] = ncmp
    rep.coverage["programs"] = nprog
    rep.coverage["programs_exercising_the_feature"] = nfeature
    rep.coverage["triggers_seen"] = dict(trig_count)
    return rep


OPS_SAMPLE = {"quick": 40, "thorough": 400}
TWIN_SAMPLE = {"quick": 3000, "thorough": 40000}


def run_scenarios(rep, name, progs, binaries, prop, max_steps=400, trace=True, impl_progs=None):
    """progs: [(id, tokens)] built in Python; the reference machine (MC_MachineFile) supplies the expectation.
    impl_progs: {id: tokens} - the version of a program that the implementation runs when it differs from the one the machine runs in
    constants the machine's exact number domain cannot hold (the printed output is claimed to be the same)."""
    import mrun
    model, res = mrun.model_run(progs, tag=prop.lower() + name)
    if res.violation:
        rep.violation("%s: TLC reports\n%s" % (name, res.violation[:2000]), {"tlc": res.violation})
    runs = []
    for pid, toks in progs:
        if pid not in model:
            rep.violation("scenario %s has no result from the reference machine" % pid, {"source": yprog.program_src(toks)})
            continue
        r = dict(model[pid])
        r["prog"] = impl_progs[pid] if impl_progs and pid in impl_progs else toks
        runs.append(r)
    rep.last_runs = runs                  # model results with their programs, for checks that add a layer of their own (e.g. the CLI)
    skipped = [r for r in runs if not r["done"] or r["oom"]]
    rep.coverage["scenario_programs_not_compared_" + name] = len(skipped)
    if len(skipped) > len(runs) // 4:
        raise vlib.ToolError("%d of %d %s scenarios were not executed to the end by the reference machine" % (len(skipped), len(runs), name))
    if True:
        pass
    n, u = profiles.replay(rep, runs, binaries, "scenario (%s)" % name, prop)
    if trace:
        # implementation -> specification: the control events of every program whose ideal run uses no construct of a
        # recorded finding must be a behaviour of TraceVm.tla (handler discipline, fiber switches, both fiber
        # representations, frame bound, run boundaries) - on every build
        import tracevm
        clean = [r for r in runs if r["done"] and not r["oom"] and not r["trig"]]
        nt = ne = 0
        for bname, binary in (binaries if clean else []):
            a, e = tracevm.validate(rep, binary, bname, [mrun.case_of(r["id"] if "id" in r else i, r["prog"]) for i, r in enumerate(clean)],
                                    "scenario family %s" % name, tag="tv" + prop.lower() + name[:6])
            nt += a
            ne += e
        rep.coverage["traces_validated_by_TraceVm"] = rep.coverage.get("traces_validated_by_TraceVm", 0) + nt
        rep.coverage["events_validated_by_TraceVm"] = rep.coverage.get("events_validated_by_TraceVm", 0) + ne
        n += nt
        # ... and, instruction by instruction, a behaviour of TraceOps.tla: every fetched instruction at an offset and with a
        # value-stack height that the instruction table (Opcodes.tla) allows after the previous one - a spread sample per family
        k = OPS_SAMPLE.get(rep.tier, 40)
        sample = clean[:: max(1, len(clean) // k)][:k] if clean else []
        if sample:
            no = neo = 0
            for bname, binary in binaries:
                a, e = tracevm.validate_ops(rep, binary, bname, [mrun.case_of(r["id"] if "id" in r else i, r["prog"]) for i, r in enumerate(sample)],
                                            "scenario family %s" % name, tag="to" + prop.lower() + name[:6])
                no += a
                neo += e
            rep.coverage["traces_validated_by_TraceOps"] = rep.coverage.get("traces_validated_by_TraceOps", 0) + no
            rep.coverage["instructions_validated_by_TraceOps"] = rep.coverage.get("instructions_validated_by_TraceOps", 0) + neo
            n += no
    if trace:
        import compiletwin
        tprogs = []
        for i, r in enumerate(runs):
            body = r["prog"]
            if isinstance(body, list):
                tprogs.append(([name, str(r.get("id", i))], body))
            elif isinstance(body, dict):        # snippet sequences / modules: every compilable piece on its own
                for j, sn in enumerate(body.get("snips", [])):
                    if sn.get("prog") and not sn.get("bad") and not sn.get("reset"):
                        tprogs.append(([name, str(r.get("id", i)), "snippet", j], sn["prog"]))
                for md in body.get("mods", []):
                    if md.get("prog") and not md.get("bad"):
                        tprogs.append(([name, str(r.get("id", i)), "module", md["path"]], md["prog"]))
        cap = TWIN_SAMPLE.get(rep.tier, 3000)
        if len(tprogs) > cap:
            tprogs = tprogs[:: max(1, len(tprogs) // cap)][:cap]
        tn, tf = compiletwin.check(rep, binaries[:1], tprogs, "scenario (%s)" % name, tag="tw" + prop.lower() + name[:6])
        rep.add("programs_compared_with_the_compiler_twin", tn)
        rep.add("functions_compared_byte_for_byte", tf)
        n += tn
    rep.coverage["states"] = rep.coverage.get("states", 0) + res.distinct
    rep.coverage["transitions"] = rep.coverage.get("transitions", 0) + res.generated
    rep.coverage["traces_validated_against_impl"] = rep.coverage.get("traces_validated_against_impl", 0) + n
    rep.coverage["scenario_programs_" + name] = u
    log("[%s] scenarios %s: %d programs, %d comparisons, TLC states %d" % (prop.lower(), name, len(progs), n, res.distinct))
    return n
