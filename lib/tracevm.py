"""Implementation -> specification: record the interpreter's control events (hooks, EV_VM) while programs run
and have TraceVm.tla accept or reject the recorded behaviour (every invariant evaluated at every event)."""
import json
import os
import re

import vlib
from vlib import Pool, run_tlc, log

EV_VM = 4
EV_OPS = 32
KEEP = ("e", "fib", "ufib", "nf", "nh", "sl", "hx", "cd", "h", "fc", "path", "ok", "wcd")
KEEP_OPS = KEEP + ("c", "pc", "sb", "code", "ckind", "cupv", "arity", "upv", "name")


def write_trace(path, cases, replies, keep=KEEP):
    """-> (number of events, [(first line, last line, case index)])  fiber (and chunk) addresses renamed per case to 1, 2, ..."""
    spans = []
    n = 0
    line = 0
    nchunks = 0
    with open(path, "w") as f:
        for i, (c, r) in enumerate(zip(cases, replies)):
            if "events" not in r:
                continue
            ids = {0: 0}
            cids = {}
            first = line + 1
            f.write('{"e": "Reset"}\n')
            line += 1
            for ev in r["events"]:
                if not isinstance(ev, dict) or ev.get("e") in ("Intern",):
                    continue
                out = {k: ev[k] for k in keep if k in ev}
                for k in ("fib", "ufib"):
                    if k in out:
                        out[k] = ids.setdefault(out[k], len(ids))
                if "c" in out:
                    if ev.get("e") == "Chunk":
                        nchunks += 1
                        cids[out["c"]] = nchunks              # numbered in file order (a re-announced address is a new chunk)
                    out["c"] = cids.get(out["c"], 0)
                f.write(json.dumps(out) + "\n")
                line += 1
                n += 1
            spans.append((first, line, i))
    return n, spans


def validate(rep, binary, bname, cases, what, tag="tracevm", timeout=120):
    """cases: harness `run` cases (main / snippets / modules); events are switched on here"""
    for c in cases:
        c["events"] = EV_VM
    replies = Pool(binary, "run", timeout=timeout).map(cases)
    os.makedirs(os.path.join(vlib.WORK, "traces"), exist_ok=True)
    path = os.path.join(vlib.WORK, "traces", "%s-%s-%d.ndjson" % (tag, bname, os.getpid()))
    nev, spans = write_trace(path, cases, replies)
    if not nev:
        raise vlib.ToolError("no interpreter events were recorded (%s)" % what)
    tr = run_tlc("TraceVm", "TraceVm.cfg", workers=1, timeout=3000, env_extra={"TRACE": path},
                 jvm=["-Dtlc2.tool.queue.IStateQueue=StateDeque"], tag=tag, xmx="8g")
    if tr.violation or "REJECT" in tr.stdout:
        rej = [ln for ln in tr.stdout.splitlines() if "REJECT" in ln]
        text = (tr.violation or "")[:600] + "\n" + "\n".join(rej)[:1200]
        m = re.search(r'REJECT (\d+)', tr.stdout + (tr.violation or ""))
        culprit = None
        if m:
            d = int(m.group(1))
            for first, last, i in spans:
                if first <= d <= last:
                    culprit = cases[i]
                    break
        if culprit is None and tr.violation:
            # an invariant failed: TLC prints the state with l = position
            m2 = re.search(r"\bl = (\d+)", tr.violation)
            if m2:
                d = int(m2.group(1))
                for first, last, i in spans:
                    if first <= d <= last + 1:
                        culprit = cases[i]
                        break
        rep.violation("TraceVm.tla rejects the control events recorded from %s (%s build):\n%s" % (what, bname, text[-1500:]),
                      {"trace": path, "program": culprit})
    else:
        os.remove(path)
    log("[tracevm] %s (%s): %d programs, %d events, TLC %.1fs" % (what, bname, len(spans), nev, tr.wall))
    return len(spans), nev


def validate_ops(rep, binary, bname, cases, what, tag="traceops", timeout=120):
    """instruction-level trace validation: every executed instruction against Opcodes.tla / TraceOps.tla"""
    for c in cases:
        c["events"] = EV_VM | EV_OPS
    replies = Pool(binary, "run", timeout=timeout).map(cases)
    os.makedirs(os.path.join(vlib.WORK, "traces"), exist_ok=True)
    path = os.path.join(vlib.WORK, "traces", "%s-%s-%d.ndjson" % (tag, bname, os.getpid()))
    nev, spans = write_trace(path, cases, replies, keep=KEEP_OPS)
    if not nev:
        raise vlib.ToolError("no instruction events were recorded (%s)" % what)
    tr = run_tlc("TraceOps", "TraceOps.cfg", workers=1, timeout=3000, env_extra={"TRACE": path},
                 jvm=["-Dtlc2.tool.queue.IStateQueue=StateDeque"], tag=tag, xmx="12g")
    if tr.violation or "REJECT" in tr.stdout:
        rej = [ln for ln in tr.stdout.splitlines() if "REJECT" in ln]
        text = (tr.violation or "")[:600] + "\n" + "\n".join(rej)[:1500]
        m = re.search(r'REJECT (\d+)', tr.stdout + (tr.violation or ""))
        culprit = None
        if m:
            d = int(m.group(1))
            for first, last, i in spans:
                if first <= d <= last:
                    culprit = cases[i]
                    break
        rep.violation("TraceOps.tla rejects the instructions executed by %s (%s build): an instruction was fetched at an offset, or with a "
                      "value-stack height, that the instruction table does not allow after the previous one\n%s" % (what, bname, text[-1800:]),
                      {"trace": path, "program": culprit})
    else:
        os.remove(path)
    log("[traceops] %s (%s): %d programs, %d events, TLC %.1fs" % (what, bname, len(spans), nev, tr.wall))
    return len(spans), nev


SELFTEST_SRC = """fn g() { throw "x"; }
fn f() { try { g(); } catch e { print(e); } try { print(1); } finally { print(2); } return 3; }
var fb = Fiber.new(|| { Fiber.yield(f()); return 4; });
print(fb.call());
print(fb.call());
"""


def selftest(binary):
    """the binding is demonstrated, not assumed: the recorded trace of a fixed program is accepted, and the same trace with
    one hook's event removed / one logged field corrupted is rejected"""
    case = {"id": "selftest", "main": SELFTEST_SRC, "gc": "default", "events": EV_VM}
    r = Pool(binary, "run", workers=1, timeout=60).map([case])[0]
    evs = [e for e in r.get("events", []) if isinstance(e, dict)]
    if not evs:
        raise vlib.ToolError("TraceVm self-test: no events recorded")

    def variant(name, f):
        out = f([dict(e) for e in evs])
        path = os.path.join(vlib.WORK, "traces", "tvself-%s-%d.ndjson" % (name, os.getpid()))
        os.makedirs(os.path.dirname(path), exist_ok=True)
        write_trace(path, [case], [{"events": out}])
        tr = run_tlc("TraceVm", "TraceVm.cfg", workers=1, timeout=300, env_extra={"TRACE": path},
                     jvm=["-Dtlc2.tool.queue.IStateQueue=StateDeque"], tag="tvself", xmx="2g")
        os.remove(path)
        return not (tr.violation or "REJECT" in tr.stdout)

    def drop_first(kind):
        def f(es):
            i = next(i for i, e in enumerate(es) if e.get("e") == kind)
            return es[:i] + es[i + 1:]
        return f

    def bump(kind, field):
        def f(es):
            i = next(i for i, e in enumerate(es) if e.get("e") == kind)
            es[i][field] += 1
            return es
        return f

    results = {"unchanged": variant("ok", lambda es: es),
               "PopHandler hook removed": variant("nopop", drop_first("PopHandler")),
               "Call hook removed": variant("nocall", drop_first("Call")),
               "Landed.h corrupted": variant("landh", bump("Landed", "h")),
               "ufib corrupted": variant("ufib", bump("Return", "ufib")),
               "UnloadFiber hook removed": variant("nounload", drop_first("UnloadFiber")),
               "hx corrupted": variant("hx", bump("EndFinally", "hx"))}
    if not results["unchanged"] or any(v for k, v in results.items() if k != "unchanged"):
        raise vlib.ToolError("TraceVm self-test failed (accepted: %r) - the trace specification does not bind the hooks" % results)
    return sorted(k for k in results if k != "unchanged")


def selftest_ops(binary):
    """binding of TraceOps.tla: the recorded instruction trace of a fixed program is accepted; with one instruction event removed,
    one stack height or one offset corrupted, or one Call / Landed event removed it is rejected"""
    case = {"id": "selftest", "main": SELFTEST_SRC, "gc": "default", "events": EV_VM | EV_OPS}
    r = Pool(binary, "run", workers=1, timeout=60).map([case])[0]
    evs = [e for e in r.get("events", []) if isinstance(e, dict)]
    if not any(e.get("e") == "Op" for e in evs):
        raise vlib.ToolError("TraceOps self-test: no instruction events recorded")

    def variant(name, f):
        out = f([dict(e) for e in evs])
        path = os.path.join(vlib.WORK, "traces", "toself-%s-%d.ndjson" % (name, os.getpid()))
        os.makedirs(os.path.dirname(path), exist_ok=True)
        write_trace(path, [case], [{"events": out}], keep=KEEP_OPS)
        tr = run_tlc("TraceOps", "TraceOps.cfg", workers=1, timeout=300, env_extra={"TRACE": path},
                     jvm=["-Dtlc2.tool.queue.IStateQueue=StateDeque"], tag="toself", xmx="2g")
        os.remove(path)
        return not (tr.violation or "REJECT" in tr.stdout)

    def nth(kind, k):
        return lambda es: [i for i, e in enumerate(es) if e.get("e") == kind][k]

    def drop(kind, k):
        def f(es):
            i = nth(kind, k)(es)
            return es[:i] + es[i + 1:]
        return f

    def bump(kind, k, field, by=1):
        def f(es):
            es[nth(kind, k)(es)][field] += by
            return es
        return f

    def flip_code(es):
        # the announced code of the script chunk with one instruction replaced by another of the same size but another effect (Nil -> Pop)
        for e in es:
            if e.get("e") == "Chunk":
                for j, b in enumerate(e["code"]):
                    if b == 1:
                        e["code"][j] = 4
                        return es
        return es

    results = {"unchanged": variant("ok", lambda es: es),
               "one instruction event removed": variant("noop", drop("Op", 7)),
               "stack height of one instruction corrupted": variant("sl", bump("Op", 9, "sl")),
               "offset of one instruction corrupted": variant("pc", bump("Op", 11, "pc")),
               "frame base of one instruction corrupted": variant("sb", bump("Op", 30, "sb")),
               "Call event removed": variant("nocall", drop("Call", 0)),
               "Landed event removed": variant("noland", drop("Landed", 0)),
               "Return event removed": variant("noret", drop("Return", 0))}
    if not results["unchanged"] or any(v for k, v in results.items() if k != "unchanged"):
        raise vlib.ToolError("TraceOps self-test failed (accepted: %r) - the instruction-level trace specification does not bind the hooks" % results)
    return sorted(k for k in results if k != "unchanged")
