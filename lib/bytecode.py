"""Export compiled functions through the harness and run Bytecode.tla over them."""
import json
import os

import vlib
from vlib import Pool, run_tlc, log


def flatten(reply, prog_id):
    """harness export reply -> list of per-function records for Bytecode.tla"""
    out = []
    for i, fn in enumerate(reply["fns"]):
        out.append({"id": "%s#%d:%s" % (prog_id, i, fn["name"] or "script"),
                    "code": fn["code"], "arity": fn["arity"], "upv": fn["upv"],
                    "ckind": [c["k"] for c in fn["consts"]],
                    "cupv": [c.get("upv", 0) for c in fn["consts"]]})
    return out


def export_programs(binary, programs, timeout=120):
    """programs: [(id, source)] -> (functions, rejected: {id: messages}, failures: {id: reply})"""
    cases = [{"id": pid, "src": src} for pid, src in programs]
    fns, rejected, failed = [], {}, {}
    for c, r in zip(cases, Pool(binary, "export", timeout=timeout).map(cases)):
        if r.get("ok") is True:
            fns += flatten(r, c["id"])
        elif r.get("ok") is False:
            rejected[c["id"]] = r.get("messages", [])
        else:
            failed[c["id"]] = r
    return fns, rejected, failed


def analyse(fns, tag="bc", shards=8, timeout=3000, max_code=None):
    """Run Bytecode.tla over the functions (sharded over several TLC processes).
    Returns (per-function results, total TLC states, total transitions)."""
    import threading
    if max_code is not None:
        fns = [f for f in fns if len(f["code"]) <= max_code]
    # identical functions (same code, constant kinds, arity, captured count) need one analysis; the result is shared
    groups = {}
    for f in fns:
        key = json.dumps([f["code"], f["ckind"], f["cupv"], f["arity"], f["upv"]])
        groups.setdefault(key, []).append(f["id"])
    uniq = {}
    for f in fns:
        key = json.dumps([f["code"], f["ckind"], f["cupv"], f["arity"], f["upv"]])
        if groups[key][0] == f["id"]:
            uniq[f["id"]] = groups[key]
    all_fns = fns
    fns = [f for f in fns if f["id"] in uniq]
    os.makedirs(os.path.join(vlib.WORK, "bytecode"), exist_ok=True)
    # balance shards by code size
    fns = sorted(fns, key=lambda f: -len(f["code"]))
    buckets = [[] for _ in range(max(1, min(shards, len(fns))))]
    load = [0] * len(buckets)
    for f in fns:
        i = load.index(min(load))
        buckets[i].append(f)
        load[i] += len(f["code"]) ** 2 // 64 + len(f["code"])
    results, totals, errors = [], [0, 0], []
    lock = threading.Lock()

    def work(i, bucket):
        path = os.path.join(vlib.WORK, "bytecode", "%s-%d-%d.ndjson" % (tag, os.getpid(), i))
        with open(path, "w") as f:
            for fn in bucket:
                f.write(json.dumps(fn) + "\n")
        got = []
        try:
            res = run_tlc("Bytecode", "Bytecode.cfg", workers=1, timeout=timeout, env_extra={"BYTECODE": path},
                          jvm=["-Dtlc2.tool.queue.IStateQueue=StateDeque"], tag="%s%d" % (tag, i), xmx="3g",
                          on_line=lambda t, o: got.append(o) if t == "FN" else None, keep_lines=False)
        except Exception as e:  # noqa
            with lock:
                errors.append(str(e))
            return
        with lock:
            results.extend(got)
            totals[0] += res.distinct
            totals[1] += res.generated
            if res.violation:
                errors.append(res.violation)
            if len(got) != len(bucket):
                errors.append("TLC analysed %d of %d functions in shard %d:\n%s" % (len(got), len(bucket), i, res.stdout[-1500:]))
        os.remove(path)

    ts = [threading.Thread(target=work, args=(i, b)) for i, b in enumerate(buckets)]
    for t in ts:
        t.start()
    for t in ts:
        t.join()
    if errors:
        raise vlib.ToolError("Bytecode.tla run failed:\n" + "\n".join(errors)[:3000])
    expanded = []
    for r in results:
        for other in uniq.get(r["id"], [r["id"]]):
            rr = dict(r)
            rr["id"] = other
            rr["problems"] = [dict(p_, fn=other) for p_ in r["problems"]]
            expanded.append(rr)
    return expanded, totals[0], totals[1]
