"""Run token programs through the reference machine (TLC, MC_MachineFile) and through the real
interpreter, and compare."""
import json
import os

import vlib
import yprog


def model_run(progs, tag="mfile", timeout=600, max_steps=400, workers=8):
    """progs: [(id, tokens)] -> {id: model result}"""
    os.makedirs(os.path.join(vlib.WORK, "progs"), exist_ok=True)
    path = os.path.join(vlib.WORK, "progs", "%s-%d.ndjson" % (tag, os.getpid()))
    with open(path, "w") as f:
        for item in progs:
            pid, body = item[0], item[1]
            if isinstance(body, dict):
                snips = [{"prog": sn.get("prog", []), "bad": bool(sn.get("bad")), "messages": sn.get("messages", []),
                          "reset": bool(sn.get("reset"))} for sn in body["snips"]]
                mods = [{"path": md["path"], "prog": md.get("prog", []), "bad": bool(md.get("bad")), "msg": md.get("msg", "")}
                        for md in body.get("mods", [])]
            else:
                snips = [{"prog": body, "bad": False, "messages": [], "reset": False}]
                mods = []
            f.write(json.dumps({"id": pid, "snips": snips, "mods": mods}) + "\n")
    out = {}
    res = vlib.run_tlc("MC_MachineFile", "MC_MachineFile.cfg", workers=workers, timeout=timeout, env_extra={"PROGS": path},
                       on_line=lambda t, o: out.__setitem__(o["id"], o) if t == "RUN" else None, keep_lines=False, tag=tag)
    os.remove(path)
    return out, res


def case_of(pid, body, gc="default"):
    if isinstance(body, dict):
        snippets = []
        for sn in body["snips"]:
            if sn.get("reset"):
                snippets.append({"reset": True})
            elif sn.get("bad"):
                snippets.append({"src": sn["src"]})
            else:
                snippets.append({"src": yprog.program_src(sn["prog"])})
        modules = {md["path"]: (md["src"] if md.get("bad") else yprog.program_src(md["prog"])) for md in body.get("mods", [])}
        return {"id": pid, "snippets": snippets, "modules": modules, "gc": gc, "natives": True}
    return {"id": pid, "main": yprog.program_src(body), "gc": gc, "modules": {}, "natives": True}


def impl_run(binary, progs, gc="default", modules=None, timeout=30):
    cases = [case_of(item[0], item[1], gc) for item in progs]
    return {c["id"]: r for c, r in zip(cases, vlib.Pool(binary, "run", timeout=timeout).map(cases))}


def compare(model, impl):
    """-> None if they agree, else a description.  model: RUN record; impl: harness reply."""
    if "runs" not in impl:
        return "implementation did not finish normally: %r" % ({k: impl[k] for k in impl if k != "events"},)
    mruns = model.get("runs")
    if mruns is not None and len(mruns) > 1:
        if len(mruns) != len(impl["runs"]):
            return "number of snippet results differs: spec %d impl %d" % (len(mruns), len(impl["runs"]))
        for i, (mr, ir) in enumerate(zip(mruns, impl["runs"])):
            if mr["result"]["kind"] == "reset":
                continue
            msg = compare_one(mr, ir)
            if msg:
                return "snippet %d: %s" % (i + 1, msg)
        return None
    return compare_one(model, impl["runs"][0])


def unordered(lines):
    """lines whose text starts with '(~' form unordered groups (enumeration order of a HashMap is unspecified)"""
    out, group = [], []
    for l in lines:
        if l.startswith("(~"):
            group.append(l)
        else:
            out += sorted(group)
            group = []
            out.append(l)
    return out + sorted(group)


def compare_one(model, run):
    got_out = unordered([vlib.norm_addr(s) for s in run.get("out", [])])
    if got_out != unordered(list(model["out"])):
        return "printed output differs: spec %r impl %r" % (model["out"], got_out)
    if bool(run["ok"]) != bool(model["result"]["ok"]):
        return "outcome differs: spec %r impl %r" % (model["result"], {k: run.get(k) for k in ("ok", "kind", "messages")})
    if not run["ok"]:
        if run["kind"] != model["result"]["kind"]:
            return "error kind differs: spec %r impl %r" % (model["result"]["kind"], run["kind"])
        got_msgs = [vlib.norm_addr(x) for x in run["messages"]]
        want = []
        for x in model["result"]["messages"]:
            want += x.split("\n")          # Error::with_messages splits the text into lines
        if model["result"]["kind"] == "CompileError":
            want = list(model["result"]["messages"])
        if got_msgs != want:
            return "error messages differ: spec %r impl %r" % (model["result"]["messages"], got_msgs)
    return None
