"""Run token programs through the reference machine (TLC, MC_MachineFile) and through the real
interpreter, and compare."""
import json
import os

import vlib
import yprog


def model_run(progs, tag="mfile", timeout=600, max_steps=400, workers=8):
    """progs: [(id, tokens)] -> {id: model result}"""
    os.makedirs(os.path.join(vlib.WORK, "progs"), exist_ok=True)
    path = os.path.join(vlib.WORK, "progs", "%s-%d.ndjson" % (tag, os.getpid()))
    with open(path, "w") as f:
        for item in progs:
            pid, body = item[0], item[1]
            if isinstance(body, dict):
                snips = [{"prog": sn.get("prog", []), "bad": bool(sn.get("bad")), "messages": sn.get("messages", []),
                          "reset": bool(sn.get("reset"))} for sn in body["snips"]]
                mods = [{"path": md["path"], "prog": md.get("prog", []), "bad": bool(md.get("bad")), "msg": md.get("msg", "")}
                        for md in body.get("mods", [])]
            else:
                snips = [{"prog": body, "bad": False, "messages": [], "reset": False}]
                mods = []
            f.write(json.dumps({"id": pid, "snips": snips, "mods": mods}) + "\n")
    out = {}
    res = vlib.run_tlc("MC_MachineFile", "MC_MachineFile.cfg", workers=workers, timeout=timeout, env_extra={"PROGS": path},
                       on_line=lambda t, o: out.__setitem__(o["id"], o) if t == "RUN" else None, keep_lines=False, tag=tag)
    os.remove(path)
    return out, res


def case_of(pid, body, gc="default"):
    if isinstance(body, dict):
        snippets = []
        for sn in body["snips"]:
            if sn.get("reset"):
                snippets.append({"reset": True})
            elif sn.get("bad"):
                snippets.append({"src": sn["src"]})
            else:
                snippets.append({"src": yprog.program_src(sn["prog"])})
        modules = {md["path"]: (md["src"] if md.get("bad") else yprog.program_src(md["prog"])) for md in body.get("mods", [])}
        return {"id": pid, "snippets": snippets, "modules": modules, "gc": gc, "natives": True}
    return {"id": pid, "main": yprog.program_src(body), "gc": gc, "modules": {}, "natives": True}


BASE_ID = "__heap_baseline__"
HEAP_KINDS = {"core::cell::RefCell<yarel::object::ObjVec>": "vec", "yarel::object::ObjTuple": "tuple",
              "core::cell::RefCell<yarel::object::ObjHashMap>": "map", "core::cell::RefCell<yarel::object::ObjInstance>": "inst",
              "yarel::object::ObjRange": "range", "core::cell::RefCell<yarel::object::ObjFiber>": "fiber",
              "core::cell::RefCell<yarel::object::ObjBoundMethod<yarel::object::ObjClosure>>": "boundclo",
              "core::cell::RefCell<yarel::object::ObjBoundMethod<yarel::object::ObjNative>>": "boundnat",
              "core::cell::RefCell<yarel::object::ObjVecIter>": "veciter", "core::cell::RefCell<yarel::object::ObjTupleIter>": "tupleiter",
              "core::cell::RefCell<yarel::object::ObjRangeIter>": "rangeiter", "yarel::object::ObjClosure": "closure",
              "yarel::object::ObjClass": "class"}
HEAP_FACTOR = {"class": 2}        # objects of the implementation per object of the specification


def impl_run(binary, progs, gc="default", modules=None, timeout=30, heap=True):
    """heap: after the last run of every case a collection is forced and the surviving objects are counted by type
    (memory::verif_heap_stats); an empty program run the same way is the baseline (the interpreter's own objects)."""
    # swept objects are kept in quarantine and any access to one is counted (`uaf` in the reply): every replay of every property is
    # also a use-after-free probe of whatever the program exercised
    cases = [dict(case_of(item[0], item[1], gc), quarantine=True) for item in progs]
    if heap:
        cases = [dict(c, stats=True) for c in cases] + [{"id": BASE_ID, "main": "", "gc": gc, "modules": {}, "natives": True, "stats": True}]
    return {c["id"]: r for c, r in zip(cases, vlib.Pool(binary, "run", timeout=timeout).map(cases))}


def live_counts(reply):
    out = dict.fromkeys(HEAP_KINDS.values(), 0)
    for t, n in reply["stats"]["by_type"]:
        t = t.replace("std::cell::RefCell", "core::cell::RefCell")
        if t in HEAP_KINDS:
            out[HEAP_KINDS[t]] += n
    return out


def compare_heap(model, impl, base):
    """Live(m) of Machine.tla against the real heap after a forced collection: the objects the program created that survive are
    exactly the reachable ones, kind by kind (C16: garbage goes; C01: nothing reachable goes).  -> None or a description"""
    h = model.get("heap")
    if not h or not h.get("exact") or "stats" not in impl or base is None or "stats" not in base:
        return None
    got, b0 = live_counts(impl), live_counts(base)
    diff = {k: (h[k], got[k] - b0[k]) for k in got if k in h and got[k] - b0[k] != h[k] * HEAP_FACTOR.get(k, 1)}
    if diff:
        return ("objects alive after the last run and a full collection differ from the reachable set of the specification "
                "(kind: (spec, impl)): %r" % (diff,))
    return None


def compare(model, impl):
    """-> None if they agree, else a description.  model: RUN record; impl: harness reply."""
    if "runs" not in impl:
        return "implementation did not finish normally: %r" % ({k: impl[k] for k in impl if k != "events"},)
    mruns = model.get("runs")
    if mruns is not None and len(mruns) > 1:
        if len(mruns) != len(impl["runs"]):
            return "number of snippet results differs: spec %d impl %d" % (len(mruns), len(impl["runs"]))
        for i, (mr, ir) in enumerate(zip(mruns, impl["runs"])):
            if mr["result"]["kind"] == "reset":
                continue
            msg = compare_one(mr, ir)
            if msg:
                return "snippet %d: %s" % (i + 1, msg)
        return None
    return compare_one(model, impl["runs"][0])


def unordered(lines):
    """lines whose text starts with '(~' form unordered groups (enumeration order of a HashMap is unspecified)"""
    out, group = [], []
    for l in lines:
        if l.startswith("(~"):
            group.append(l)
        else:
            out += sorted(group)
            group = []
            out.append(l)
    return out + sorted(group)


def compare_one(model, run):
    got_out = unordered([vlib.norm_addr(s) for s in run.get("out", [])])
    if got_out != unordered(list(model["out"])):
        return "printed output differs: spec %r impl %r" % (model["out"], got_out)
    if bool(run["ok"]) != bool(model["result"]["ok"]):
        return "outcome differs: spec %r impl %r" % (model["result"], {k: run.get(k) for k in ("ok", "kind", "messages")})
    if not run["ok"]:
        if run["kind"] != model["result"]["kind"]:
            return "error kind differs: spec %r impl %r" % (model["result"]["kind"], run["kind"])
        got_msgs = [vlib.norm_addr(x) for x in run["messages"]]
        want = []
        for x in model["result"]["messages"]:
            want += x.split("\n")          # Error::with_messages splits the text into lines
        if model["result"]["kind"] == "CompileError":
            want = list(model["result"]["messages"])
        if got_msgs != want:
            return "error messages differ: spec %r impl %r" % (model["result"]["messages"], got_msgs)
    return None
