"""Run token programs through the reference machine (TLC, MC_MachineFile) and through the real
interpreter, and compare."""
import json
import os

import vlib
import yprog


def model_run(progs, tag="mfile", timeout=600, max_steps=400, workers=8):
    """progs: [(id, tokens)] -> {id: model result}"""
    os.makedirs(os.path.join(vlib.WORK, "progs"), exist_ok=True)
    path = os.path.join(vlib.WORK, "progs", "%s-%d.ndjson" % (tag, os.getpid()))
    with open(path, "w") as f:
        for pid, toks in progs:
            f.write(json.dumps({"id": pid, "prog": toks}) + "\n")
    out = {}
    res = vlib.run_tlc("MC_MachineFile", "MC_MachineFile.cfg", workers=workers, timeout=timeout, env_extra={"PROGS": path},
                       on_line=lambda t, o: out.__setitem__(o["id"], o) if t == "RUN" else None, keep_lines=False, tag=tag)
    os.remove(path)
    return out, res


def impl_run(binary, progs, gc="default", modules=None, timeout=30):
    cases = [{"id": pid, "main": yprog.program_src(toks), "gc": gc, "modules": modules or {}, "natives": True} for pid, toks in progs]
    return {c["id"]: r for c, r in zip(cases, vlib.Pool(binary, "run", timeout=timeout).map(cases))}


def compare(model, impl):
    """-> None if they agree, else a description.  model: RUN record; impl: harness reply."""
    if "runs" not in impl:
        return "implementation did not finish normally: %r" % ({k: impl[k] for k in impl if k != "events"},)
    run = impl["runs"][0]
    got_out = [vlib.norm_addr(s) for s in run.get("out", [])]
    if got_out != list(model["out"]):
        return "printed output differs: spec %r impl %r" % (model["out"], got_out)
    if bool(run["ok"]) != bool(model["result"]["ok"]):
        return "outcome differs: spec %r impl %r" % (model["result"], {k: run.get(k) for k in ("ok", "kind", "messages")})
    if not run["ok"]:
        if run["kind"] != model["result"]["kind"]:
            return "error kind differs: spec %r impl %r" % (model["result"]["kind"], run["kind"])
        got_msgs = [vlib.norm_addr(x) for x in run["messages"]]
        if got_msgs != list(model["result"]["messages"]):
            return "error messages differ: spec %r impl %r" % (model["result"]["messages"], got_msgs)
    return None
