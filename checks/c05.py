"""C05  Expressions and control flow evaluate as the language defines  (Values.tla, Machine.tla, Gen.tla)."""
import profcheck
import scenarios
import vlib

PROP = "C05"
CONTROL = ["print", "var", "set", "if", "else", "while", "for", "break", "continue", "block", "arith", "fn", "call", "return", "exprstmt"]


def main(tier, seed):
    q = tier == "quick"
    plan = [
        {"name": "operators-exhaustive", "cfg": profcheck.make_cfg("c05ops", ["ops"], 1, expr_budget=4 if q else 5, max_steps=100),
         "sample": None if q else 400000},
        {"name": "logical-operators-exhaustive", "cfg": profcheck.make_cfg("c05logic", ["ops", "ops-logic"], 1, expr_budget=5 if q else 7, max_steps=100)},
        {"name": "arithmetic-operators-exhaustive", "cfg": profcheck.make_cfg("c05arith", ["ops", "ops-arith"], 1, expr_budget=5, max_steps=100),
         "sample": 60000 if q else None},
        {"name": "control-exhaustive", "cfg": profcheck.make_cfg("c05ctlx", CONTROL, 4 if q else 5, names=("a",), fnnames=("f",))},
        {"name": "control-simulated", "cfg": profcheck.make_cfg("c05ctl", CONTROL, 13, names=("a", "b"), fnnames=("f",)),
         "simulate": 6000 if q else 80000},
        {"name": "operators-in-two-statements", "cfg": profcheck.make_cfg("c05ops2", ["ops"], 2, expr_budget=3, max_steps=100),
         "simulate": 3000 if q else 40000, "seed_offset": 7},
    ]
    rep = profcheck.run(PROP, tier, seed, plan, feature=lambda r: len(r["prog"]) >= 1)
    # break / continue / return leaving loop bodies whose locals are partly captured by closures: the jump must discard
    # exactly the right variables in exactly the right way (the closure scenario product of C06, loop wrappers only)
    loops = [p for p in scenarios.capture_scenarios() + scenarios.capture_order_scenarios() if p[0].split(":")[1] in ("while", "for", "while-break", "for-continue")]
    bins = [("dev", vlib.build_harness("dev")), ("release", vlib.build_harness("release"))]
    profcheck.run_scenarios(rep, "loopexits", loops, bins, PROP)
    rep.coverage["exhaustive"] = True
    rep.coverage["rule"] = ("every expression of <= 4 (thorough 5) nodes over 13 operand values of every kind x 16 binary, 3 unary operators, "
                            "and/or, range (printed with minimal parentheses from the specification's precedence table); every control-flow "
                            "program of the profile up to the exhaustive token budget, plus simulated programs of up to 13 tokens; each "
                            "program's printed lines, outcome, error class, message and trace must equal the reference machine's")
    rep.assumptions += ["numbers outside the modelled domain (non-integral quotients, |x| > 2^30) are not compared (counted as oom in the log)"]
    return rep.finish()
