"""C05  Expressions and control flow evaluate as the language defines  (Values.tla, Machine.tla, Gen.tla)."""
import profcheck
import scenarios
import vlib

PROP = "C05"
CONTROL = ["print", "var", "set", "if", "else", "while", "for", "break", "continue", "block", "arith", "fn", "call", "return", "exprstmt"]


BINOPS = ["+", "-", "*", "/", "%", "<", ">", "<=", ">=", "==", "!=", "&", "|", "^", "<<", ">>", "&&", "||", ".."]


def assignment_target_cases():
    """`=` binds loosest and is right associative: an assignment is an expression only where an expression of assignment level
    may stand.  Directly after an operand of ANY other operator (prefix or infix), `<target> = v` is not an assignment to
    <target> but an error ('Invalid assignment target.') - for every kind of target and every operator, and the same text with
    parentheses around the assignment is valid.  (The precedence table is the specification's: yprog.PREC.)"""
    pre = ("class O {\n#[constructor]\nfn new(self) { self.x = 1; }\n}\nvar o = O.new();\nvar a = 1;\nvar v = [1, 2];\nfn f() { return o; }\n")
    targets = ["a", "o.x", "v[0]", "f().x", "o.x.y", "v[0][0]"]
    cases = []
    for t in targets:
        for op in BINOPS:
            cases.append((pre + "var r = 2 %s %s = 5;\n" % (op, t), 9, "2 %s %s = 5" % (op, t)))
        for op in ("!", "-", "~"):
            cases.append((pre + "var r = %s%s = 5;\n" % (op, t), 9, "%s%s = 5" % (op, t)))
        cases.append((pre + "print(1, 2 + %s = 5);\n" % t, 9, "argument 2 + %s = 5" % t))
    valid = [(pre + "var r = 2 * (%s = 5);\nprint(r);\n" % t, ["10"]) for t in ("a", "o.x")]
    valid += [(pre + "var r = %s = 5;\nprint(r);\n" % t, ["5" if t != "v[0]" else "nil"]) for t in ("a", "o.x", "v[0]")]
    return cases, valid


def main(tier, seed):
    q = tier == "quick"
    plan = [
        {"name": "operators-exhaustive", "cfg": profcheck.make_cfg("c05ops", ["ops"], 1, expr_budget=4 if q else 5, max_steps=100),
         "sample": None if q else 400000},
        {"name": "logical-operators-exhaustive", "cfg": profcheck.make_cfg("c05logic", ["ops", "ops-logic"], 1, expr_budget=5 if q else 7, max_steps=100)},
        {"name": "arithmetic-operators-exhaustive", "cfg": profcheck.make_cfg("c05arith", ["ops", "ops-arith"], 1, expr_budget=5, max_steps=100),
         "sample": 60000 if q else None},
        {"name": "control-exhaustive", "cfg": profcheck.make_cfg("c05ctlx", CONTROL, 4 if q else 5, names=("a",), fnnames=("f",))},
        {"name": "control-simulated", "cfg": profcheck.make_cfg("c05ctl", CONTROL, 13, names=("a", "b"), fnnames=("f",)),
         "simulate": 6000 if q else 80000},
        {"name": "operators-in-two-statements", "cfg": profcheck.make_cfg("c05ops2", ["ops"], 2, expr_budget=3, max_steps=100),
         "simulate": 3000 if q else 40000, "seed_offset": 7},
    ]
    rep = profcheck.run(PROP, tier, seed, plan, feature=lambda r: len(r["prog"]) >= 1)
    # break / continue / return leaving loop bodies whose locals are partly captured by closures: the jump must discard
    # exactly the right variables in exactly the right way (the closure scenario product of C06, loop wrappers only)
    loops = [p for p in scenarios.capture_scenarios() + scenarios.capture_order_scenarios() if p[0].split(":")[1] in ("while", "for", "while-break", "for-continue")]
    bins = [("dev", vlib.build_harness("dev")), ("release", vlib.build_harness("release"))]
    profcheck.run_scenarios(rep, "loopexits", loops, bins, PROP)
    profcheck.run_scenarios(rep, "functionends", scenarios.function_ending_scenarios(), bins, PROP)
    profcheck.run_scenarios(rep, "expressionforms", scenarios.expression_form_scenarios(), bins, PROP)
    profcheck.run_scenarios(rep, "rangecache", scenarios.range_cache_scenarios(), bins, PROP)
    # operators on operands of every kind (the adversarial pool of Natives.tla): which operand combinations an operator accepts,
    # and the class and text of the error for the others; indexing, index assignment and range construction likewise
    from checks import c02
    ncases = []
    nstates = 0
    for form in ("binop", "unop", "index", "setindex", "range"):
        cs, n_ = c02.tlc_cases(rep, form, tier)
        ncases += [c for c in cs if c["r"]["c"] != "trigger"]      # the cases of recorded C02 findings (host aborts) are C02's
        nstates += n_
    save_prop = c02.PROP
    c02.PROP = PROP
    try:
        nn, _kinds = c02.run_natives(rep, bins, ncases)
    finally:
        c02.PROP = save_prop
    rep.coverage["states"] += nstates
    rep.coverage["traces_validated_against_impl"] += nn
    rep.coverage["operator_operand_cases"] = nn
    # assignment is not an operand
    bad, good = assignment_target_cases()
    items = [{"id": i, "main": src, "gc": "default"} for i, (src, _l, _w) in enumerate(bad)] + [{"id": 10000 + i, "main": src, "gc": "default"} for i, (src, _w) in enumerate(good)]
    replies = vlib.Pool(bins[0][1], "run").map(items)
    for (src, line, what), r in zip(bad, replies[:len(bad)]):
        run = r.get("runs", [{}])[0]
        want = '[module "main", line %d] Error at \'=\': Invalid assignment target.' % line
        if run.get("ok") is not False or run.get("kind") != "CompileError" or want not in run.get("messages", []):
            rep.violation("`%s` must be rejected with %r; got %r" % (what, want, {k: run.get(k) for k in ("ok", "kind", "messages", "out")} if run else r), {"source": src})
    for (src, want), r in zip(good, replies[len(bad):]):
        run = r.get("runs", [{}])[0]
        if not run.get("ok") or run.get("out") != want:
            rep.violation("a parenthesised / top-level assignment must be accepted and print %r; got %r" % (want, run or r), {"source": src})
    rep.coverage["assignment_target_cases"] = len(bad) + len(good)
    rep.coverage["traces_validated_against_impl"] += len(bad) + len(good)
    rep.coverage["exhaustive"] = True
    rep.coverage["rule"] = ("every expression of <= 4 (thorough 5) nodes over 13 operand values of every kind x 16 binary, 3 unary operators, "
                            "and/or, range (printed with minimal parentheses from the specification's precedence table); every control-flow "
                            "program of the profile up to the exhaustive token budget, plus simulated programs of up to 13 tokens; each "
                            "program's printed lines, outcome, error class, message and trace must equal the reference machine's")
    rep.assumptions += ["numbers outside the modelled domain (non-integral quotients, |x| > 2^30) are not compared (counted as oom in the log)"]
    return rep.finish()
