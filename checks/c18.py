"""C18  Iteration is uniform over built-in and user-defined iterables  (Machine.tla iteration protocol + core.yl prelude)."""
import random

import profcheck
import scenarios
import vlib
import yprog
from vlib import Report

PROP = "C18"


def main(tier, seed):
    rep = Report(PROP, tier, seed, "model_checking")
    rng = random.Random(seed)
    bins = [("dev", vlib.build_harness("dev")), ("release", vlib.build_harness("release"))]
    progs = scenarios.iteration_scenarios(rng, 1500 if tier == "quick" else 25000)
    profcheck.run_scenarios(rep, "iteration", progs, bins, PROP)
    # more than RANGE_CACHE_SIZE distinct ranges in one interpreter: every loop / slice / comparison must still see the bounds written
    # (the range cache and its replacement discipline are part of Machine.tla)
    profcheck.run_scenarios(rep, "rangecache", scenarios.range_cache_scenarios(), bins, PROP)
    # ... and are translation invariant: the same programs with every range bound moved up by K print the same; the machine runs K = 1000,
    # the implementation also 2^31, 2^32, 2^32 + 2^31 and 2^52 (bounds the machine's exact number domain cannot hold)
    base = scenarios.translated_range_scenarios(1000)
    for K in (1000, 2 ** 31, 2 ** 32, 2 ** 32 + 2 ** 31, 2 ** 52):
        big = dict(scenarios.translated_range_scenarios(K))
        profcheck.run_scenarios(rep, "translated", [("%s:K=%d" % (pid, K), t) for pid, t in base], bins, PROP, trace=False,
                                impl_progs={"%s:K=%d" % (pid, K): big[pid] for pid, _t in base})
    # sequences far longer than the call-frame budget: long runs rejected by a filter, long chains, reduce / collect, continue on most passes
    profcheck.run_scenarios(rep, "longruns", scenarios.long_run_scenarios(), bins, PROP)
    # break / continue / return leave no iteration state behind, also when the pass's variables were captured by closures that live on
    profcheck.run_scenarios(rep, "loopstate", scenarios.loop_state_scenarios(), bins, PROP)
    # strings are iterable too: one character per step, for every string of <= 3 characters over an alphabet with 1-, 2-, 3- (lead
    # bytes E0 and E2) and 4-byte characters (Strings.tla), through a for loop, through the adapters and through manual next()
    from checks import c13
    from vlib import run_tlc, Pool
    got = []
    res = run_tlc("MC_Strings", "Strings_U.cfg", workers=6, timeout=1200, keep_lines=False, tag="c18str",
                  on_line=lambda t, o: got.append(o) if t == "CASE" and o["c"]["op"] == "iterate" else None)
    if res.violation:
        rep.violation("Strings.tla: TLC reports\n" + res.violation[:1500], {"tlc": res.violation})
    nstr = 0
    per = 40
    for bname, binary in bins:
        items = []
        for i in range(0, len(got), per):
            chunk = got[i:i + per]
            lines = []
            for x in chunk:
                lit_ = c13.s_lit(x["c"]["s"])
                lines.append("{ var a = []; for ch in %s { a.push(ch); } var it = %s.iter(); var b = []; var n = it.next(); while !n.derives(StopIter) { b.push(n); n = it.next(); } "
                             "print(a); print(b); print(%s.iter().map(|c| c).collect()); }" % (lit_, lit_, lit_))
            items.append({"id": i, "main": "\n".join(lines) + "\n", "gc": "default"})
        for it, r in zip(items, Pool(binary, "run", timeout=60).map(items)):
            chunk = got[it["id"]:it["id"] + per]
            if "runs" not in r or not r["runs"][0].get("ok") or len(r["runs"][0]["out"]) != 3 * len(chunk):
                rep.violation("iterating strings (%s build): the program did not run to its end: %r" % (bname, {k: r[k] for k in r if k != "events"}), {"source": it["main"]})
                continue
            out = r["runs"][0]["out"]
            for j, x in enumerate(chunk):
                nstr += 1
                want = c13.expected_lines(x["c"], x["r"])[0]
                if out[3 * j:3 * j + 3] != [want] * 3:
                    rep.violation("iterating %s (%s build) by for / by next() / through map+collect gives %r, the specification %r"
                                  % (c13.s_lit(x["c"]["s"]), bname, out[3 * j:3 * j + 3], want), {"case": x})
    rep.coverage["strings_iterated"] = nstr
    rep.coverage["states"] += res.distinct
    rep.coverage["traces_validated_against_impl"] += nstr
    rep.coverage["exhaustive"] = False
    rep.sample({"kind": "iteration scenario", "source": yprog.program_src(progs[3][1])})
    rep.coverage["rule"] = ("seeded products: 13 iterables (empty / one / three element vectors, tuples, ascending / descending / empty ranges, "
                            "user iterator classes with and without deriving Iter, an iterator used as iterable, nested vectors) x chains of 0-3 "
                            "map / filter adapters x 11 consumers (for, break, continue, return from inside the loop, collect, reduce, nested and "
                            "interleaved loops over one iterator, push / pop on the vector being iterated, manual next) at top level or inside a "
                            "function; the for statement is desugared in Machine.tla exactly as the compiler does (iter(), next(), assign, "
                            "test StopIter) and map / filter / collect / reduce are core.yl's own code run by the machine")
    return rep.finish()
