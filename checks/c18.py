"""C18  Iteration is uniform over built-in and user-defined iterables  (Machine.tla iteration protocol + core.yl prelude)."""
import random

import profcheck
import scenarios
import vlib
import yprog
from vlib import Report

PROP = "C18"


def main(tier, seed):
    rep = Report(PROP, tier, seed, "model_checking")
    rng = random.Random(seed)
    bins = [("dev", vlib.build_harness("dev")), ("release", vlib.build_harness("release"))]
    progs = scenarios.iteration_scenarios(rng, 1500 if tier == "quick" else 25000)
    profcheck.run_scenarios(rep, "iteration", progs, bins, PROP)
    rep.coverage["exhaustive"] = False
    rep.sample({"kind": "iteration scenario", "source": yprog.program_src(progs[3][1])})
    rep.coverage["rule"] = ("seeded products: 13 iterables (empty / one / three element vectors, tuples, ascending / descending / empty ranges, "
                            "user iterator classes with and without deriving Iter, an iterator used as iterable, nested vectors) x chains of 0-3 "
                            "map / filter adapters x 11 consumers (for, break, continue, return from inside the loop, collect, reduce, nested and "
                            "interleaved loops over one iterator, push / pop on the vector being iterated, manual next) at top level or inside a "
                            "function; the for statement is desugared in Machine.tla exactly as the compiler does (iter(), next(), assign, "
                            "test StopIter) and map / filter / collect / reduce are core.yl's own code run by the machine")
    rep.assumptions += ["string iteration is decided by C13's byte-level model, not here"]
    return rep.finish()
