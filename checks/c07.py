"""C07  Classes: construction, fields, dispatch, inheritance, super, static  (Machine.tla classes)."""
import random

import profcheck
import scenarios
import vlib
import yprog
from vlib import Report

PROP = "C07"


def main(tier, seed):
    rep = Report(PROP, tier, seed, "model_checking")
    rng = random.Random(seed)
    bins = [("dev", vlib.build_harness("dev")), ("release", vlib.build_harness("release"))]
    progs = scenarios.class_scenarios(rng, 1500 if tier == "quick" else 25000)
    profcheck.run_scenarios(rep, "classes", progs, bins, PROP)
    # where `self`, `Self` and `super` may be used at all: Parser.tla decides it for every chain of up to three enclosing constructs (functions,
    # lambdas, loops, methods / static methods / constructors of classes with and without a superclass, declared inside one another)
    import parsertwin
    ctx = parsertwin.context_sources(3)
    nctx, sctx = parsertwin.check(rep, bins[0][1], ctx, "context rules (self / Self / super / return / break / continue under every chain of enclosing constructs)", tag="c07ctx")
    rep.coverage["context_rule_sources"] = nctx
    rep.coverage["states"] = rep.coverage.get("states", 0) + sctx
    rep.coverage["traces_validated_against_impl"] = rep.coverage.get("traces_validated_against_impl", 0) + nctx
    rep.coverage["exhaustive"] = False
    rep.sample({"kind": "class scenario", "source": yprog.program_src(progs[0][1])})
    rep.coverage["rule"] = ("seeded products over hierarchies of depth 1-3 (optionally deriving the built-in Error, optionally declared inside a "
                            "function): per level and method name define / override / call super / take super.m as a value / omit, dynamic dispatch "
                            "through self, static methods with Self, default and explicit constructors chained through super, fields shadowing "
                            "methods, bound methods kept in variables and fields, rebinding of the superclass name, all arities; every program is "
                            "executed by the reference machine under TLC and replayed on checked and optimised builds")
    return rep.finish()
