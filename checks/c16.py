"""C16  Garbage is reclaimed: heap size is bounded by live data  (Heap.tla pacing part, TraceHeap.tla)."""
import json
import os
import random

import vlib
from vlib import Report, run_tlc, Pool, build_harness, log
from checks.c01 import hist_to_case, compare_hist

PROP = "C16"

# Loop programs with a bounded live set (N = iteration count).  No strings are created in the loop
# bodies: interned strings are retained by design and would hide real growth in the byte counts.
LOOPS = {
 "containers": "var keep = nil; for i in 0..%(N)d { var t = (i, [i, i + 1]); var m = {i: t}; keep = [t, m]; } print(keep[0][0]);",
 "closures": "var keep = nil; for i in 0..%(N)d { var a = i; var f = || a; var g = |x| { a = x; }; g(i + 1); keep = f; } print(keep());",
 "instances": "#[constructor(new)] class P { fn get(self) { return self.v; } } var keep = nil; for i in 0..%(N)d { var p = P.new(); p.v = [i]; p.q = p.get; keep = p; } print(keep.get()[0]);",
 "class per iteration": "fn mk(i) { class B { fn hi(self) { return i; } } #[derive(B), constructor(new)] class C { #[static] fn s() { return 1; } } return C; } var keep = nil; for i in 0..%(N)d { keep = mk(i).new(); } print(keep.hi());",
 "abandoned fibers": "var keep = nil; for i in 0..%(N)d { var f = Fiber.new(|| { var w = [i]; Fiber.yield(w); return 0; }); keep = f.call(); } print(keep[0]);",
 "finished fibers": "var n = 0; for i in 0..%(N)d { var f = Fiber.new(|x| { return x + 1; }); n = f.call(i); } print(n);",
 "exceptions": "var n = 0; for i in 0..%(N)d { try { throw (i, [i]); } catch e { n = e[0]; } try { [1][i + 5]; } catch e { n = n + 1; } } print(n);",
 "iterators": "var n = 0; for i in 0..%(N)d { n = [i, i + 1, i + 2].iter().map(|x| x * 2).filter(|x| x > i).reduce(|a, b| a + b, 0); } print(n);",
 "bound methods": "var v = [0]; var n = 0; for i in 0..%(N)d { var b = v.len; var c = b.derives; n = b(); } print(n);",
 "maps grow and shrink": "var m = {}; for i in 0..%(N)d { m.insert(i, (i, i)); if m.len() > 10 { m.remove(i - 10); } } print(m.len());",
 "recursion": "fn depth(n) { if n == 0 { return [0]; } return [depth(n - 1)]; } var keep = nil; for i in 0..%(N)d { keep = depth(20); } print(keep.len());",
 "ranges": "var n = 0; for i in 0..%(N)d { for j in i..(i + 3) { n = j; } } print(n);",
 # stale internal pointers must not keep garbage alive: what a FINISHED fiber leaves behind (its stack, its argument, its captured
 # variables' former home), handled exceptions, exhausted or abandoned iterators, dropped bound methods, returned frames
 "closures escaping finished fibers (pipeline)": "var up = nil; var t = 0; for i in 0..%(N)d { var stage = Fiber.new(|previous| { var base = i; if previous { base = base + previous() - previous(); } return || base + 1; }); up = stage.call(up); t = t + up(); } print(t > 0);",
 "closure over a local of a finished fiber": "var keep = nil; for i in 0..%(N)d { keep = Fiber.new(|| { var w = [i]; var pad = [i, i]; return || w; }).call(); } print(keep()[0] >= 0);",
 "closure handed from fiber to fiber": "var keep = nil; for i in 0..%(N)d { var a = Fiber.new(|| { var w = [i]; Fiber.yield(|| w); return 0; }); var g = a.call(); var b = Fiber.new(|h| { var mine = h()[0]; return || mine; }); keep = b.call(g); } print(keep() >= 0);",
 "fiber calling a fiber": "var n = 0; for i in 0..%(N)d { var inner = Fiber.new(|x| { Fiber.yield([x]); return [x, x]; }); var outer = Fiber.new(|| { var a = inner.call(i); var b = inner.call(); return a[0] + b.len(); }); n = outer.call(); } print(n > 0);",
 "yield from nested frames then abandoned": "fn deep(k) { if k == 0 { Fiber.yield([k]); return 0; } var pad = [k]; return deep(k - 1) + pad[0]; } var keep = nil; for i in 0..%(N)d { var f = Fiber.new(|| deep(5)); keep = f.call(); } print(keep[0]);",
 "exceptions through finally": "var n = 0; for i in 0..%(N)d { try { try { throw (i, [i]); } finally { n = n + 1; } } catch e { n = e[0]; } try { try { [1][i + 5]; } finally { n = n + 1; } } catch e2 { n = n + 1; } } print(n > 0);",
 "error instances": "var n = 0; for i in 0..%(N)d { try { throw Error.new([i, i]); } catch e { n = e.context[0]; } try { (i, [i]).nosuch; } catch e2 { n = n + 1; } } print(n >= 0);",
 "abandoned iterators": "var keep = nil; for i in 0..%(N)d { var it = [[i], [i + 1], [i + 2]].iter(); it.next(); var mi = (i, i + 1).iter().map(|x| [x]); mi.next(); keep = [it, mi]; } print(keep.len());",
 "returned frames with wide locals": "fn wide(i) { var a = [i]; var b = [i, i]; var c = (i, [i]); var d = {i: a}; var e = || a; return 0; } var n = 0; for i in 0..%(N)d { n = wide(i); } print(n);",
 "closures returning closures": "fn mk(i) { var a = [i]; return || { var b = [a]; return || b; }; } var keep = nil; for i in 0..%(N)d { keep = mk(i)(); } print(keep().len());",
 "bound methods of dropped instances": "#[constructor(new)] class Q { fn get(self) { return self.v; } } var keep = nil; for i in 0..%(N)d { var q = Q.new(); q.v = [i]; keep = q.get; var bn = [i].len; keep = bn; } print(keep());",
 "temporaries above the stack top": "fn args(a, b, c, d, e, f) { return f; } var n = 0; for i in 0..%(N)d { n = args([i], [i, i], (i, [i]), {i: [i]}, [[i]], 0); var t = [[i], [i], [i], [i], [i], [i], [i], [i]][7]; } print(n);",
}


def apalache_pacing(rep):
    """spec/Pacing.tla: the pacing rule over unbounded integers (any budget, any growth factor >= 1, any sizes, any length).
    IndInv is inductive and implies Pacing: three Apalache (SMT) obligations, and the same theorem proved by TLAPS (PacingProof.tla).
    Heap.tla and TraceHeap.tla step-refine Pacing.tla (PROPERTY RefinesPacing in their configurations, checked by TLC).
    Self-test: the same obligations on a copy whose AllocStep may skip a due collection must be refuted."""
    import shutil
    import subprocess
    out = os.path.join(vlib.WORK, "apalache")
    shutil.rmtree(out, ignore_errors=True)
    os.makedirs(out, exist_ok=True)
    for f in ("Pacing.tla", "PacingProof.tla"):
        shutil.copy(os.path.join(vlib.SPEC, f), out)
    broken = os.path.join(out, "broken")
    os.makedirs(broken, exist_ok=True)
    src = open(os.path.join(vlib.SPEC, "Pacing.tla")).read()
    guard = "    /\\ pendingCollect \\/ bytes < threshold    \\* no due collection was skipped\n"
    assert guard in src, "Pacing.tla: the guard of AllocStep was not found"
    open(os.path.join(broken, "Pacing.tla"), "w").write(src.replace(guard, ""))
    steps = [("base case Init => IndInv", ["--init=Init", "--inv=IndInv", "--length=0"]),
             ("inductive step IndInv /\\ Next => IndInv'", ["--init=IndInit", "--inv=IndInv", "--length=1"]),
             ("IndInv => Pacing", ["--init=IndInit", "--inv=Pacing", "--length=0"])]
    done = []

    def apalache(cwd, args):
        return subprocess.run(["timeout", "600", "apalache-mc", "check", "--cinit=ConstInit", "--out-dir=" + os.path.join(out, "run")] + args + ["Pacing.tla"],
                              cwd=cwd, capture_output=True, text=True)
    for what, args in steps:
        try:
            p = apalache(out, args)
        except Exception as e:  # noqa
            rep.assumptions.append("Apalache could not be run (%s); the unbounded pacing argument was skipped" % e)
            return done
        if "EXITCODE: OK" in p.stdout:
            done.append("apalache: " + what)
        elif "EXITCODE: ERROR (12)" in p.stdout:
            rep.violation("Pacing.tla: Apalache refutes '%s'\n%s" % (what, p.stdout[-1500:]), {"apalache": p.stdout[-4000:]})
        else:
            rep.assumptions.append("Apalache ended abnormally on '%s' (exit %s); the unbounded pacing argument was skipped" % (what, p.returncode))
            return done
    p = apalache(broken, steps[1][1])
    if "EXITCODE: ERROR (12)" in p.stdout:
        done.append("apalache self-test: without AllocStep's guard (a due collection may be skipped) the inductive step is refuted")
    elif "EXITCODE: OK" in p.stdout:
        raise vlib.ToolError("Pacing.tla self-test: Apalache accepts the inductive step although a due collection may be skipped")
    try:
        p = subprocess.run(["timeout", "600", "tlapm", "--threads", "4", "PacingProof.tla"], cwd=out, capture_output=True, text=True)
        txt = p.stdout + p.stderr
        import re
        m = re.search(r"All (\d+) obligations? proved", txt)
        if m:
            done.append("tlaps: THEOREM Spec => []Pacing, %s obligations proved" % m.group(1))
        elif re.search(r"obligations? failed", txt):
            # a back-end prover that runs out of its time slice on a busy machine also reports "failed": try once more with longer slices; the
            # proof is about Pacing.tla, not about the code (which is bound to Pacing.tla by TraceHeap.tla), so a failure here is reported as a
            # limitation of this run, never as a violation of the property
            p2 = subprocess.run(["timeout", "900", "tlapm", "--threads", "4", "--stretch", "5", "PacingProof.tla"], cwd=out, capture_output=True, text=True)
            m2 = re.search(r"All (\d+) obligations? proved", p2.stdout + p2.stderr)
            if m2:
                done.append("tlaps: THEOREM Spec => []Pacing, %s obligations proved (second attempt with longer prover time slices)" % m2.group(1))
            else:
                rep.assumptions.append("tlapm did not discharge every obligation of PacingProof.tla in this run (prover time-outs?); the Apalache result stands")
        else:
            rep.assumptions.append("tlapm ended abnormally (exit %s); the TLAPS proof of the pacing theorem was skipped" % p.returncode)
    except Exception as e:  # noqa
        rep.assumptions.append("tlapm could not be run (%s); the TLAPS proof of the pacing theorem was skipped" % e)
    return done


def main(tier, seed):
    rep = Report(PROP, tier, seed, "model_checking")
    rng = random.Random(seed)
    dev = build_harness("dev")
    rel = build_harness("release")

    # ---- 1. pacing of the collector core, exhaustive over alloc/drop histories -------------------
    def explore(cfg, tag):
        hists = []
        res = run_tlc("MC_Heap", cfg, workers=12, timeout=3000, keep_lines=False, tag=tag,
                      on_line=lambda t, o: hists.append(o) if t == "HIST" else None)
        if res.violation:
            rep.violation("Heap.tla (%s): TLC reports\n%s" % (cfg, res.violation[:2000]), {"tlc": res.violation})
        log("[c16] %s: %d generated, %d distinct, %d histories, %.1fs" % (cfg, res.generated, res.distinct, len(hists), res.wall))
        return res, hists

    rep.coverage["apalache_unbounded_pacing"] = apalache_pacing(rep)
    res, hists = explore("Heap_c16_%s.cfg" % tier, "c16")
    rep.coverage["states"] = res.distinct
    rep.coverage["transitions"] = res.generated
    rep.coverage["exhaustive"] = True
    # only maximal histories matter here (every prefix is checked step by step inside its extensions)
    hists.sort(key=lambda h: -len(h["ops"]))
    keep = hists[: (4000 if tier == "quick" else 40000)]
    rng.shuffle(hists)
    keep += hists[: (2000 if tier == "quick" else 20000)]

    def replay(binary, hs, big, what):
        pool = Pool(binary, "heap-replay")
        cases = []
        for i, h in enumerate(hs):
            c = hist_to_case(i, h, 1, big=big, asbuilt=True)
            for j, op in enumerate(c["ops"]):
                if op[0] == "new" and j % 2 == 1:
                    op.append(1)          # every other allocation goes through UniqueRoot::new + Root::from
            cases.append(c)
        for h, c, r in zip(hs, cases, pool.map(cases)):
            msg = compare_hist(h, r, True)
            if msg:
                rep.violation("%s: %s" % (what, msg), {"ops": c["ops"], "spec": h, "impl": r})
        return len(cases)

    nrep = replay(rel, keep, True, "pacing replay on the optimised build (16 KiB objects, budget = 4 objects)")
    res2, hists2 = explore("Heap_c16_always.cfg", "c16a")
    nrep += replay(dev, hists2, True, "collect-always replay on the checked build")
    rep.sample({"kind": "alloc/drop history replayed with as-built pacing", "ops": [s["op"] for s in keep[0]["ops"]],
                "expected_bytes_after_each": [s["obs"]["bytes"] for s in keep[0]["ops"]],
                "expected_threshold_after_each": [s["obs"]["thr"] for s in keep[0]["ops"]]})

    # ---- 2. pacing of whole programs: recorded Alloc/Collect events validated by TraceHeap.tla --
    items, modules = vlib.corpus()
    progs = [("loop:" + k, v % {"N": 3000 if tier == "quick" else 20000}) for k, v in LOOPS.items()]
    progs += [("corpus:" + n, s) for n, s, e in items if n.split("/")[0] in ("closure", "class", "fibers", "for", "hash_map", "core", "exceptions", "vec", "tuple", "inheritance")]
    ntr = 0
    nev = 0
    for bname, binary, policy in (("release", rel, "paced"), ("dev", dev, "always")):
        sel = progs if policy == "paced" else progs[:12] + progs[12::6]
        if policy == "always":
            sel = [(n, s.replace("0..3000", "0..150").replace("0..20000", "0..300")) for n, s in sel]
        cases = [{"id": n, "main": s, "modules": modules, "gc": "default", "events": 1 | 16, "boot_events": True} for n, s in sel]
        replies = Pool(binary, "run", timeout=300).map(cases)
        path = os.path.join(vlib.WORK, "traces", "c16-%s-%d.ndjson" % (bname, os.getpid()))
        os.makedirs(os.path.dirname(path), exist_ok=True)
        with open(path, "w") as f:
            for c, r in zip(cases, replies):
                if "events" not in r:
                    rep.violation("program %s did not finish normally on the %s build: %r" % (c["id"], bname, r), {"case": c})
                    continue
                f.write(json.dumps({"e": "Reset"}) + "\n")
                for ev in r["events"]:
                    if ev.get("e") == "Alloc":
                        f.write(json.dumps({"e": "Alloc", "size": ev["size"], "gc": ev["gc"], "bytes": ev["bytes"], "thr": ev["thr"]}) + "\n")
                        nev += 1
                    elif ev.get("e") == "Collect":
                        f.write(json.dumps({k: ev[k] for k in ("e", "before", "freed", "after", "thr")}) + "\n")
                        nev += 1
                ntr += 1
        tr = run_tlc("TraceHeap", "TraceHeap_%s.cfg" % policy, workers=1, timeout=2400, env_extra={"TRACE": path},
                     jvm=["-Dtlc2.tool.queue.IStateQueue=StateDeque"], tag="c16trace", xmx="8g")
        if tr.violation or "REJECT" in tr.stdout:
            rep.violation("TraceHeap.tla (%s policy, %s build) rejects the recorded allocation history:\n%s"
                          % (policy, bname, (tr.violation or tr.stdout)[-1500:]), {"trace": path})
        else:
            os.remove(path)
        log("[c16] TraceHeap %s: %d programs, %d events so far, TLC %.1fs" % (policy, len(cases), nev, tr.wall))

    # ---- 3. running a loop twice as long leaves nothing more behind ------------------------------
    n1 = 400 if tier == "quick" else 3000
    cases = []
    for k, v in LOOPS.items():
        for n in (n1, 2 * n1):
            for bname in ("release", "dev"):
                if bname == "dev" and n > 800:
                    continue
                cases.append({"id": [k, n, bname], "main": v % {"N": n}, "gc": "default", "stats": True})
    out = {}
    for bname, binary in (("release", rel), ("dev", dev)):
        sub = [c for c in cases if c["id"][2] == bname]
        for c, r in zip(sub, Pool(binary, "run", timeout=300).map(sub)):
            if "stats" not in r:
                rep.violation("loop program %r did not finish: %r" % (c["id"], r), {"case": c})
                continue
            st = r["stats"]
            live = {t: n for t, n in st["by_type"] if "ObjString" not in t}
            out[tuple(c["id"])] = (live, st["bytes"], st["objects"])
    nloops = 0
    for (k, n, b), (live, nbytes, nobj) in out.items():
        other = out.get((k, 2 * n, b))
        if other is None:
            continue
        nloops += 1
        if other[0] != live or other[1] != nbytes:
            rep.violation("loop '%s' (%s build): %d iterations leave %r objects / %d bytes after a full collection, %d iterations leave %r / %d"
                          % (k, b, n, sum(live.values()), nbytes, 2 * n, sum(other[0].values()), other[1]),
                          {"program": LOOPS[k], "n": n, "live_n": live, "live_2n": other[0], "bytes": [nbytes, other[1]]})
    # ---- 4. what survives a full collection is exactly what the specification says is reachable --------------------------------
    # Machine.tla computes, for every scenario program, the set of objects still reachable when the last run has ended (Live: from the
    # module globals, the module table and the range cache, through containers, fields, captured variables - only those a closure's code
    # mentions -, bound methods, iterators and the frames of suspended fibers).  The harness forces a collection after the run and counts
    # the surviving objects by kind; the counts must be equal, so garbage that is kept (C16) and reachable objects that are
    # reclaimed (C01) both show, with the expectation coming from the specification rather than from a second run.
    import profcheck
    import scenarios
    nsc = 300 if tier == "quick" else 4000
    r2 = random.Random(seed + 16)
    fams = [("fibers", scenarios.fiber_scenarios(r2, nsc, nfib=3)), ("classes", scenarios.class_scenarios(r2, nsc)),
            ("iteration", scenarios.iteration_scenarios(r2, nsc, exhaustive=False)), ("capture", scenarios.capture_scenarios()[::4] + scenarios.capture_order_scenarios()),
            ("switchcontexts", scenarios.fiber_switch_context_scenarios()), ("handlerintact", scenarios.handler_intact_scenarios()),
            ("loopstate", scenarios.loop_state_scenarios()), ("rangecache", scenarios.range_cache_scenarios()),
            ("retention", scenarios.closure_retention_scenarios()), ("thrownvalues", scenarios.thrown_value_scenarios()), ("fiberlifetimes", scenarios.fiber_lifetime_scenarios()), ("snippets", scenarios.snippet_scenarios(r2, nsc // 2))]
    nsc_cmp = 0
    # ... and for programs TLC generates (Gen.tla: loops, per-iteration variables, closures, containers, functions, fibers, blocks):
    # every behaviour's reachable set at the end against the surviving objects
    import profiles
    cfg = profcheck.make_cfg("c16g", ["print", "var", "set", "block", "if", "else", "fn", "call", "call1", "lam", "return", "while", "for", "break",
                                      "continue", "exprstmt", "arith", "fiber"], 14, names=("a", "b"), fnnames=("f",))
    gruns, gstats = profiles.generate(cfg, simulate=3000 if tier == "quick" else 40000, seed=seed + 16, module="MC_Gen", tag="c16gen")
    if gstats.get("violation"):
        rep.violation("generated loop programs: TLC reports\n%s" % gstats["violation"][:2000], {"tlc": gstats["violation"]})
    gruns = [r for r in gruns if not r["trig"]]
    gn, gu = profiles.replay(rep, gruns, [("release", rel), ("dev", dev)], "generated program (loops, closures, fibers)", PROP)
    rep.coverage["tlc_generated_programs"] = gu
    nsc_cmp += gn
    for name, progs in fams:
        nsc_cmp += profcheck.run_scenarios(rep, name, progs, [("release", rel), ("dev", dev)], PROP, trace=False)
    rep.coverage["traces_validated_against_impl"] = nrep + ntr + nloops + nsc_cmp
    rep.coverage["replayed_histories"] = nrep
    rep.coverage["programs_trace_validated"] = ntr
    rep.coverage["trace_events_validated"] = nev
    rep.coverage["loop_pairs_compared"] = nloops
    rep.coverage["rule"] = ("Heap.tla with the paced policy explored exhaustively over alloc/drop histories (budget 4 objects); "
                            "histories replayed on the optimised build with 16 KiB objects comparing bytes_allocated, "
                            "collection_threshold and the reclaimed set after every step; Alloc/Collect events of loop programs and "
                            "repository scripts validated by TraceHeap.tla at every allocation; n vs 2n iterations compared after a full collection")
    rep.assumptions += ["the amount reclaimed by a collection is taken from the trace; which objects must go is decided by C01's and this check's core replay",
                        "interned strings and compiled chunks are excluded from the n-vs-2n comparison (retained by design)"]
    return rep.finish()
