"""C11  Strings are equal exactly when their contents are equal  (InternTable.tla)."""
import json
import os
import random

import vlib
from vlib import Report, run_tlc, Pool, build_harness, log

PROP = "C11"


def fnv(text):
    h = 2166136261
    for c in text.encode("utf-8") + b"\xff":     # str::hash writes the bytes and a 0xff terminator
        h ^= c
        h = (h * 16777619) & 0xFFFFFFFFFFFFFFFF
    return h


def expected_ids(ops):
    order = {}
    for h, t in ops:
        order.setdefault((h, t), len(order) + 1)
    return order


def compare_edge(edge, reply):
    """edge: TLC's expectation for a history; reply: what the real table did."""
    if "steps" not in reply:
        return "harness reply without steps: %r" % (reply,)
    last = reply["steps"][-1]
    exp_entries = [None if e == [] else e for e in edge["entries"]]
    if last.get("entries") != exp_entries:
        return "slot array differs: spec %r impl %r" % (exp_entries, last.get("entries"))
    if last.get("size") != edge["size"]:
        return "size differs: spec %r impl %r" % (edge["size"], last.get("size"))
    if last.get("hit") != edge["hit"]:
        return "hit differs: spec %r impl %r" % (edge["hit"], last.get("hit"))
    if last.get("id") != edge["id"]:
        return "identity differs: spec %r impl %r" % (edge["id"], last.get("id"))
    if last.get("mask") != len(edge["entries"]) - 1:
        return "mask differs: spec %r impl %r" % (len(edge["entries"]) - 1, last.get("mask"))
    return None


def replay_edges(rep, binary, edges, what):
    pool = Pool(binary, "intern-replay")
    items = [{"id": i, "ops": e["ops"]} for i, e in enumerate(edges)]
    replies = pool.map(items)
    bad = 0
    for e, r in zip(edges, replies):
        msg = compare_edge(e, r)
        if msg:
            bad += 1
            rep.violation("%s: %s" % (what, msg), {"ops": e["ops"], "spec": e, "impl": r})
    return bad


def real_path_texts(rng, n_fill, tier):
    """Strings for the real FNV path: growth at every size, low-bit colliders, duplicates."""
    texts = []
    # (a) colliders: strings whose hashes agree in the low b bits for several b
    cands = ["k%d" % i for i in range(60000)]
    for bits in (2, 4, 6, 8, 10, 12):
        target = rng.randrange(1 << bits)
        group = [c for c in cands if fnv(c) & ((1 << bits) - 1) == target][:12 if bits < 10 else 6]
        texts += group
    # (b) filler forcing growth through every capacity up to >= 4096 slots
    texts += ["s%x" % rng.randrange(1 << 40) for _ in range(n_fill)]
    # (c) equal content produced again later (must hit), unicode, empty, long
    again = rng.sample(texts, min(200, len(texts)))
    texts += ["", "é", "€€", "\U0001f600", "a" * 300, "line\nbreak", "q\"uote\\"]
    texts += again + ["", "é"]
    rng.shuffle(texts)
    return texts


# ---- strings built by different producers inside programs (StrIdent.tla) ------------------------------------
def route_expr(route, bs, off):
    text = bytes(bs).decode()
    n = len(text)
    q = lambda t: '"%s"' % t
    if route == "lit" or n == 0 and route in ("replace",):
        return q(text)
    if route == "cat":
        k = off % (n + 1)
        return "(%s + %s)" % (q(text[:k]), q(text[k:]))
    if route == "slice":
        return "%s[%d..%d]" % (q("X" * off + text + "YY"), off, off + n)
    if route == "interp":
        k = off % (n + 1)
        return '"${%s}%s"' % (q(text[:k]), text[k:])
    if route == "split":
        return '%s.split(",")[1]' % q("X" * off + "," + text + ",Z")
    if route == "replace":
        return '%s.replace("#", %s)' % (q("#" + text[1:]), q(text[0]))
    if route == "utf8":
        if n > 200:      # a vector literal holds at most 255 elements: the bytes come from rebuilding the text character by character
            return "String.from_utf8(rebuild(%s, %d).to_bytes())" % (q("X" * off + text), off) if off else "String.from_utf8(%s.to_bytes())" % q(text)
        return "String.from_utf8([%s])" % ", ".join(map(str, bs))
    if route == "join":
        return "rebuild(%s, %d)" % (q("X" * off + text), off)
    raise ValueError(route)


IDENT_PRELUDE = "fn rebuild(s, skip) { var out = \"\"; var i = 0; for ch in s { if i >= skip { out = out + ch; } i = i + 1; } return out; }\n"


def ident_part(rep, binaries, tier):
    cases = []
    res = run_tlc("StrIdent", "StrIdent_%s.cfg" % tier, workers=6, timeout=3000, keep_lines=False, tag="c11ident",
                  on_line=lambda t, o: cases.append(o) if t == "IDENT" else None)
    if res.violation:
        rep.violation("StrIdent.tla: TLC reports\n" + res.violation[:1500], {"tlc": res.violation})
    progs = []
    short = [x for x in cases if x["c"]["len"] <= 200]
    long_ = [x for x in cases if x["c"]["len"] > 200]
    chunks = [short[i:i + 150] for i in range(0, len(short), 150)] + [long_[i:i + 12] for i in range(0, len(long_), 12)]
    for chunk in chunks:
        lines = [IDENT_PRELUDE]
        for x in chunk:
            c = x["c"]
            lines.append("{ var a = %s; var b = %s; var m = {a: 1}; print(a == b); print(m.has_key(b)); print(b == a); }"
                         % (route_expr(c["r1"], x["b1"], c["o1"]), route_expr(c["r2"], x["b2"], c["o2"])))
        progs.append(("\n".join(lines) + "\n", chunk))
    n = 0
    for bname, binary in binaries:
        items = [{"id": i, "main": src, "gc": "default"} for i, (src, _) in enumerate(progs)]
        for (src, chunk), r in zip(progs, Pool(binary, "run", timeout=120).map(items)):
            if "runs" not in r or not r["runs"][0].get("ok") or len(r["runs"][0]["out"]) != 3 * len(chunk):
                rep.violation("string identity program did not run to its end (%s build): %r" % (bname, {k: r[k] for k in r if k != "events"}), {"source": src})
                continue
            out = r["runs"][0]["out"]
            for j, x in enumerate(chunk):
                n += 1
                want = ["true" if x["equal"] else "false"] * 3
                if out[3 * j:3 * j + 3] != want:
                    c = x["c"]
                    rep.violation("%s build: strings of %d bytes built by %s (offset %d) and %s (offset %d) with %s bytes: ==, map lookup, == reversed give %r, expected %r"
                                  % (bname, c["len"], c["r1"], c["o1"], c["r2"], c["o2"], "the same" if c["same"] else "different", out[3 * j:3 * j + 3], want),
                                  {"case": x, "a": route_expr(c["r1"], x["b1"], c["o1"]), "b": route_expr(c["r2"], x["b2"], c["o2"])})
    log("[c11] StrIdent.tla: %d producer pairs (TLC %d states)" % (len(cases), res.distinct))
    return n, res.distinct


def main(tier, seed):
    rep = Report(PROP, tier, seed, "model_checking")
    rng = random.Random(seed)
    binary = build_harness("dev")
    cfg = "InternTable_%s.cfg" % tier
    # 1. exhaustive: every history over the key pool; invariants + one replay per transition
    edges = []
    res = run_tlc("MC_InternTable", cfg, workers=8, timeout=3000,
                  on_line=lambda tag, obj: edges.append(obj) if tag == "EDGE" else None, keep_lines=False,
                  coverage=False, tag="c11")
    if res.violation:
        rep.violation("InternTable.tla: TLC reports\n" + res.violation[:1500], {"tlc": res.violation})
    # the same exhaustively over a pool whose probe chains run through the last two slots during rehashing
    rest = run_tlc("MC_InternTable", "InternTable_top.cfg", workers=8, timeout=3000,
                   on_line=lambda tag, obj: edges.append(obj) if tag == "EDGE" else None, keep_lines=False, tag="c11top")
    if rest.violation:
        rep.violation("InternTable.tla (top-of-table pool): TLC reports\n" + rest.violation[:1500], {"tlc": rest.violation})
    res.distinct += rest.distinct
    res.generated += rest.generated
    log("[c11] TLC exhaustive: %d generated, %d distinct, %d edges, %.1fs" % (res.generated, res.distinct, len(edges), res.wall))
    rep.coverage["states"] = res.distinct
    rep.coverage["transitions"] = res.generated
    rep.coverage["exhaustive"] = True
    bad = replay_edges(rep, binary, edges, "replay of TLC history on the real string store")
    nrep = len(edges)
    for e in edges[:: max(1, len(edges) // 3)][:3]:
        rep.sample({"kind": "history replayed on vm::string_store", "ops": e["ops"], "final_slots": e["entries"]})
    if tier == "thorough":
        rbin = build_harness("release")
        replay_edges(rep, rbin, edges[::7], "replay (release build)")
        nrep += len(edges[::7])
    # 2. deep simulation: 26-key pool, growth to 32/64 slots, histories of 34 operations
    hists = []
    nsim = 300 if tier == "quick" else 4000
    res2 = run_tlc("MC_InternTable", "InternTable_sim.cfg", simulate=nsim, depth=40, seed=seed, timeout=1200,
                   on_line=lambda tag, obj: hists.append(obj) if tag == "HIST" else None, keep_lines=False, tag="c11sim")
    if res2.violation:
        rep.violation("InternTable.tla (simulation): TLC reports\n" + res2.violation[:1500], {"tlc": res2.violation})
    replay_edges(rep, binary, hists, "replay of simulated history")
    nrep += len(hists)
    log("[c11] simulation: %d histories of 34 ops" % len(hists))
    rep.coverage["simulated_histories"] = len(hists)
    # 2b. producers of equal strings inside programs
    nid, sid = ident_part(rep, [("dev", binary), ("release", build_harness("release"))], tier)
    nrep += nid
    rep.coverage["states"] += sid
    rep.coverage["producer_pairs"] = nid
    # 3. the real interning path, trace-validated by TraceIntern.tla
    ntraces = 0
    nevents = 0
    fills = [900, 300] if tier == "quick" else [3300, 700, 1700, 3300, 100, 1000]
    runs = len(fills)
    pool = Pool(binary, "intern-vm", workers=runs, timeout=120)
    cases = [{"id": i, "texts": real_path_texts(rng, fills[i], tier)} for i in range(runs)]
    replies = pool.map(cases)
    os.makedirs(os.path.join(vlib.WORK, "traces"), exist_ok=True)
    for case, r in zip(cases, replies):
        if "events" not in r:
            rep.violation("interning through Vm::new_gc_obj_string did not complete: %r" % (r,), {"texts": case["texts"][:50]})
            continue
        # identity: same text <=> same object
        seen = {}
        for t, (k, same) in zip(case["texts"], r["idents"]):
            if not same:
                rep.violation("interned string does not have the requested content", {"text": t})
            if t in seen and seen[t] != k:
                rep.violation("equal contents yielded two different string objects", {"text": t})
            seen.setdefault(t, k)
        if len(set(seen.values())) != len(seen):
            rep.violation("different contents yielded one string object", {"n": len(seen)})
        path = os.path.join(vlib.WORK, "traces", "c11-%d-%d.ndjson" % (os.getpid(), case["id"]))
        with open(path, "w") as f:
            for ev in r["events"]:
                f.write(json.dumps({"h": ev["h"], "text": ev["text"], "hit": ev["hit"], "idx": ev["idx"],
                                    "cap": ev["cap"], "size": ev["size"]}) + "\n")
        nevents += len(r["events"])
        tr = run_tlc("TraceIntern", "TraceIntern.cfg", workers=1, timeout=1500, env_extra={"TRACE": path},
                     jvm=["-Dtlc2.tool.queue.IStateQueue=StateDeque"], tag="c11trace", xmx="6g")
        if tr.violation or "REJECT" in tr.stdout:
            rep.violation("TraceIntern.tla rejects the recorded trace:\n%s" % ((tr.violation or tr.stdout)[-1500:]),
                          {"trace": path})
        else:
            ntraces += 1
            os.remove(path)
        maxcap = max(ev["cap"] for ev in r["events"])
        rep.sample({"kind": "trace validated", "events": len(r["events"]), "max_capacity": maxcap,
                    "first_events": r["events"][:3]})
    rep.coverage["traces_validated_against_impl"] = nrep + ntraces
    rep.coverage["replayed_histories"] = nrep
    rep.coverage["trace_events_validated"] = nevents
    rep.coverage["rule"] = ("every transition of the exhaustive state graph (history -> slot array, hit, identity) "
                            "replayed on vm::string_store; simulated 34-op histories over 26 keys; recorded "
                            "Intern events of the real FNV path validated by TraceIntern.tla")
    rep.assumptions += ["full-hash collisions are reached only through the hook wrapper verif_intern::Table "
                        "(same get/insert code, caller-chosen hash)",
                        "TLC state graph complete for the configured key pool (fingerprint collision probability < 1e-9)"]
    return rep.finish()
