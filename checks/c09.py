"""C09  Fibers transfer control and values faithfully and keep their own state  (Machine.tla fibers)."""
import random

import profcheck
import scenarios
import vlib
from vlib import Report

PROP = "C09"


def main(tier, seed):
    # programs generated token by token by TLC (Gen.tla, vocabulary "fiber"): fibers created from the functions declared so far, resumed
    # with / without a value from any statement position (also from inside functions, loops, try / catch / finally blocks and other
    # fibers), yields with / without a value from any function - executed by the reference machine and replayed on both builds
    FIB = ["print", "var", "set", "fn", "call", "call1", "return", "try", "catch", "finally", "throw", "while", "fiber", "exprstmt"]
    q = tier == "quick"
    plan = [
        {"name": "fibers-exhaustive", "cfg": profcheck.make_cfg("c09x", ["print", "fn", "call1", "fiber", "exprstmt", "return"], 5 if q else 7, names=("a",), fnnames=("f",)),
         "trigger_free": True},
        {"name": "fibers-simulated", "cfg": profcheck.make_cfg("c09s", FIB, 13, names=("a",), fnnames=("f", "g")), "simulate": 12000 if q else 150000,
         "trigger_free": True},
    ]
    rep = profcheck.run(PROP, tier, seed, plan, feature=lambda r: "Fiber" in str(r["prog"]), release_too=True, what="generated fiber program")
    rng = random.Random(seed)
    bins = [("dev", vlib.build_harness("dev")), ("release", vlib.build_harness("release"))]
    progs = scenarios.fiber_scenarios(rng, 1500 if tier == "quick" else 25000, nfib=3)
    profcheck.run_scenarios(rep, "fibers", progs, bins, PROP)
    profcheck.run_scenarios(rep, "switchcontexts", scenarios.fiber_switch_context_scenarios(), bins, PROP)
    # misuse: a fiber anywhere up the chain of waiting fibers is called again from the innermost one
    profcheck.run_scenarios(rep, "reentry", scenarios.fiber_reentry_scenarios(), bins, PROP)
    # "each fiber keeps its own ... variables": closures over a suspended scope's variables, written and read from both sides of the switch
    profcheck.run_scenarios(rep, "captureswitch", scenarios.capture_across_switch_scenarios(), bins, PROP)
    # a completion waiting in a finally block belongs to the fiber that is suspended there (its exception, where it was raised, its handlers)
    profcheck.run_scenarios(rep, "interleaved", scenarios.interleaved_failure_scenarios(("uncaught", "caught-by-caller")), bins, PROP)
    # fibers nest to any depth, also after runs that died deep inside nested fibers (StackBudget.tla: a fiber call spends none of the caller's
    # budget, and an aborted run leaves no count behind)
    from checks import c02 as _c02
    _lim, _nest, _st = _c02.stack_budget(rep, True, tier)
    fn = 0
    for o in list(_c02.FNESTS):
        for aborted in ((), (40, 40), (600, 600)):
            snips = _c02.fiber_nest_src(o["nest"], aborted)
            for bname, binary in bins:
                r = vlib.Pool(binary, "run", timeout=300).map([{"id": "fnest", "snippets": [{"src": s_} for s_ in snips], "gc": "never", "stack_mb": 256}])[0]
                fn += 1
                last = r["runs"][-1] if "runs" in r else None
                good = last is not None and last.get("ok") and vlib.run_output_lines(last) == [str(o["nest"]), "(1, 2)"]
                if not good:
                    rep.violation("fibers nested %d deep after aborted runs %r (%s build): expected %r and (1, 2), got %r"
                                  % (o["nest"], aborted, bname, o["nest"], (last or {k: r[k] for k in r if k != "events"})), {"snippets": snips})
    rep.coverage["fiber_nesting_cases"] = fn
    # lifetimes: fibers that returned / were abandoned / resumed / failed, run from the script, a fiber or a nested fiber, kept or dropped
    profcheck.run_scenarios(rep, "fiberlifetimes", scenarios.fiber_lifetime_scenarios(), bins, PROP)
    # fibers whose code lives in another module than their caller's: after every switch each side is back in its own module
    profcheck.run_scenarios(rep, "crossmodule", [p for p in scenarios.cross_module_scenarios() if "fiber" in p[0]], bins, PROP)
    # every operation on a fiber / on the Fiber class with every kind and number of arguments (Natives.tla): the outcome, and that a
    # rejected call or yield leaves the caller's variables untouched
    from checks import c02
    cases = []
    nstates = 0
    for form in ("fiberops",):
        cs, n_ = c02.tlc_cases(rep, form, tier)
        nstates += n_
        cases += [c for c in cs if c["r"]["c"] != "trigger"]
    for c in list(cases):
        if c["f"] == "invoke" and len(c["ops"]) == 2 and c["name"] not in ("call", "yield", "new"):     # stateless operations only
            cases.append(dict(c, repeat=True))          # the same call twice on the same fiber object
    save = c02.PROP
    c02.PROP = PROP
    try:
        nn, _k = c02.run_natives(rep, bins, cases)
    finally:
        c02.PROP = save
    rep.coverage["fiber_operation_cases"] = nn
    rep.coverage["states"] += nstates
    rep.coverage["traces_validated_against_impl"] += nn
    rep.coverage["exhaustive"] = False
    rep.sample({"kind": "fiber scenario", "source": __import__("yprog").program_src(progs[-1][1])})
    rep.coverage["rule"] = ("every one-fiber program with a body of <= 2 actions (10 action kinds) under two call schedules, plus seeded "
                            "random products of 2-3 fibers x bodies of <= 3 actions (13 kinds: yields with/without value, use of the resume "
                            "value, calls of other fibers, yields from nested frames, try/catch/finally around a switch, throws, captures) x "
                            "main schedules of <= 6 calls (with / without / too many arguments, finished and running fibers); the reference "
                            "machine keeps one frame stack per fiber and supplies the expected output")
    return rep.finish()
