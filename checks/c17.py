"""C17  Errors carry the right class, message and source lines  (Machine.tla error delivery and traces)."""
import random

import profcheck
import scenarios
import vlib
import yprog
from vlib import Report, Pool

PROP = "C17"

SYNTAX_ERRORS = [          # (text of the offending line, fragment expected in the message)
    ("var = 3;", "Expected variable name."),
    ("print(1 + );", "Expected expression."),
    ("var q = (1, 2;", "Expected ')' after elements."),
    ("fn () { }", "Expected function name."),
    ("x.;", "Expected property name after '.'."),
    ("return 1;", "Cannot return from top-level code."),
    ("break;", "Cannot use 'break' statement outside of loop body."),
    ("print(\"abc);", "Unterminated string."),
    ("var s = \"\\q\";", "Invalid escape sequence."),
    ("print(1) print(2);", "Expected ';' after expression."),
    ("@;", "Unexpected character: '@'."),
    ("class { }", "Expected class name."),
]


MISSING_TERMINATOR = [
    ("var unterminated = 1", "Expected ';' after variable declaration."),
    ("var unterminated", "Expected ';' after variable declaration."),
    ("print(1)", "Expected ';' after expression."),
    ("1 + 2", "Expected ';' after expression."),
    ("throw 1", "Expected ';' after throw value."),
    ("while true { break }", None),
    ("fn early() { return 1 }", None),
    ("import \"lib\" as lib", "Expected ';' after module import."),
]
MISSING_TERMINATOR = [m for m in MISSING_TERMINATOR if m[1]]


def compile_error_cases(rng, count):
    """a valid multi-line program with one offending line: the reported line must be that line"""
    cases = []
    filler = ["var a%d = %d;", "print(%d + %d);", "fn f%d() { return %d; }", "// comment %d %d", "", "var s%d = \"two\nlines %d\";",
              "var e%d = \"escaped\\nnewline\\x0a%d\\u000a\";", "var i%d = \"${%d}\\n${1}\";"]
    for k in range(count):
        nlines = rng.randint(1, 12)
        lines = []
        for i in range(nlines):
            f = rng.choice(filler)
            lines.append(f % ((i, i) if f.count("%d") == 2 else ()))
        if k % 3 == 2:
            # a statement whose terminator is missing: the offending token is the FIRST TOKEN OF A LATER LINE (blank and comment lines
            # in between), and that is the line the error has to name
            bad, what = rng.choice(MISSING_TERMINATOR)
            gap = rng.choice([[], [""], ["// note"], ["", "// note", ""]])
            nxt = rng.choice([("var after%d = 0;" % k, "var"), ("print(0);", "print"), ("fn later%d() { }" % k, "fn"), ("{ }", "{")])
            pos = rng.randint(0, len(lines))
            line_no = sum(l.count("\n") + 1 for l in lines[:pos]) + 1 + bad.count("\n") + 1 + len(gap)
            lines[pos:pos] = [bad] + gap + [nxt[0]]
            src = "\n".join(lines) + "\n"
            cases.append({"id": k, "main": src, "compile_only": True, "line": line_no, "frag": "Error at '%s': %s" % (nxt[1], what), "bad": bad})
            continue
        bad, frag = rng.choice(SYNTAX_ERRORS)
        pos = rng.randint(0, len(lines))
        # the physical line of the offending text (multi-line string literals in the filler shift it)
        line_no = sum(l.count("\n") + 1 for l in lines[:pos]) + 1
        lines.insert(pos, bad)
        src = "\n".join(lines) + "\n"
        cases.append({"id": k, "main": src, "compile_only": True, "line": line_no, "frag": frag, "bad": bad})
    return cases


def main(tier, seed):
    rep = Report(PROP, tier, seed, "model_checking")
    rng = random.Random(seed)
    bins = [("dev", vlib.build_harness("dev")), ("release", vlib.build_harness("release"))]
    progs = scenarios.error_scenarios(rng, 2000 if tier == "quick" else 30000)
    profcheck.run_scenarios(rep, "errors", progs, bins, PROP)
    # the same errors as the shipped command-line program reports them: messages on stderr, exit status 65 / 70 / 0
    import cli
    usable = [r for r in rep.last_runs if r["done"] and not r["oom"] and not r["trig"] and ":host-" not in str(r.get("id", ""))
              and "host_fail" not in yprog.program_src(r["prog"])]
    usable = usable[:: max(1, len(usable) // (400 if tier == "quick" else 4000))]
    ncli = 0
    for prof in ("dev", "release"):
        ncli += cli.run_files(rep, cli.build_cli(prof), prof, usable, "error scenario")
    rep.coverage["programs_run_by_the_command_line_program"] = ncli
    # compile errors name the line of the offending token
    cases = compile_error_cases(rng, 600 if tier == "quick" else 6000)
    ncomp = 0
    for c, r in zip(cases, Pool(bins[0][1], "run").map(cases)):
        ncomp += 1
        if "runs" not in r:
            rep.violation("compiling a program with a syntax error crashed: %r" % (r,), {"source": c["main"]})
            continue
        run = r["runs"][0]
        if run["ok"] or run.get("kind") != "CompileError":
            rep.violation("a program with a syntax error (%s) was not rejected with a compile error: %r" % (c["bad"], run), {"source": c["main"]})
            continue
        first = run["messages"][0]
        want = "[module \"main\", line %d] Error" % c["line"]
        if c["bad"].startswith("print(\"abc"):
            continue           # location of an unterminated string depends on what follows; only rejection is required
        if not first.startswith(want) or c["frag"] not in first:
            rep.violation("compile error for %r should be reported at line %d (%s), got %r" % (c["bad"], c["line"], c["frag"], first),
                          {"source": c["main"], "messages": run["messages"]})
    # the command-line program on programs that do not compile: exit status 65 and exactly the compiler's messages on stderr
    import os, tempfile, shutil
    cdir = tempfile.mkdtemp(prefix="clice", dir=vlib.WORK)
    clibin = cli.build_cli("dev")
    replies = Pool(bins[0][1], "run").map(cases[:150])
    for k, (c, r) in enumerate(zip(cases[:150], replies)):
        if "runs" not in r or r["runs"][0].get("ok"):
            continue
        with open(os.path.join(cdir, "p%d.yl" % k), "w") as f:
            f.write(c["main"])
        rc, so, se = cli._run(clibin, ["p%d.yl" % k], cdir)
        ncli += 1
        want = "".join(m + "\n" for m in r["runs"][0]["messages"])
        if rc != 65 or se != want or so != "":
            rep.violation("a program that does not compile: the command-line program exits %r with stderr %r (stdout %r); expected exit 65 and %r"
                          % (rc, se[-400:], so[-100:], want[-400:]), {"source": c["main"]})
    shutil.rmtree(cdir, ignore_errors=True)
    rep.coverage["programs_run_by_the_command_line_program"] = ncli
    rep.coverage["compile_error_cases"] = ncomp
    rep.coverage["traces_validated_against_impl"] += ncomp + ncli
    rep.coverage["exhaustive"] = False
    rep.sample({"kind": "error scenario", "source": yprog.program_src(progs[1][1])})
    rep.coverage["rule"] = ("seeded products: 23 failure kinds (every built-in failure class, thrown string / number / Error / user subclass, a host "
                            "native failing with each ErrorKind, wrong arity, call-depth exhaustion) x call chains of depth 0-4 through functions, "
                            "methods, bound methods, static methods, constructors, lambdas and fibers x caught at the top / at the raise site / "
                            "not at all x an earlier caught throw; the reference machine supplies class, message and one trace line per active "
                            "call (one statement per line); plus programs with one syntax error at a random line")
    return rep.finish()
