"""C17  Errors carry the right class, message and source lines  (Machine.tla error delivery and traces)."""
import random
import re

import profcheck
import scenarios
import vlib
import yprog
from vlib import Report, Pool

PROP = "C17"

SYNTAX_ERRORS = [          # (text of the offending line, fragment expected in the message)
    ("var = 3;", "Expected variable name."),
    ("print(1 + );", "Expected expression."),
    ("var q = (1, 2;", "Expected ')' after elements."),
    ("fn () { }", "Expected function name."),
    ("x.;", "Expected property name after '.'."),
    ("return 1;", "Cannot return from top-level code."),
    ("break;", "Cannot use 'break' statement outside of loop body."),
    ("print(\"abc);", "Unterminated string."),
    ("var s = \"\\q\";", "Invalid escape sequence."),
    ("print(1) print(2);", "Expected ';' after expression."),
    ("@;", "Unexpected character: '@'."),
    ("class { }", "Expected class name."),
]


MISSING_TERMINATOR = [
    ("var unterminated = 1", "Expected ';' after variable declaration."),
    ("var unterminated", "Expected ';' after variable declaration."),
    ("print(1)", "Expected ';' after expression."),
    ("1 + 2", "Expected ';' after expression."),
    ("throw 1", "Expected ';' after throw value."),
    ("while true { break }", None),
    ("fn early() { return 1 }", None),
    ("import \"lib\" as lib", "Expected ';' after module import."),
]
MISSING_TERMINATOR = [m for m in MISSING_TERMINATOR if m[1]]


def compile_error_cases(rng, count):
    """a valid multi-line program with one offending line: the reported line must be that line"""
    cases = []
    filler = ["var a%d = %d;", "print(%d + %d);", "fn f%d() { return %d; }", "// comment %d %d", "", "var s%d = \"two\nlines %d\";",
              "var e%d = \"escaped\\nnewline\\x0a%d\\u000a\";", "var i%d = \"${%d}\\n${1}\";"]
    for k in range(count):
        nlines = rng.randint(1, 12)
        lines = []
        for i in range(nlines):
            f = rng.choice(filler)
            lines.append(f % ((i, i) if f.count("%d") == 2 else ()))
        if k % 3 == 2:
            # a statement whose terminator is missing: the offending token is the FIRST TOKEN OF A LATER LINE (blank and comment lines
            # in between), and that is the line the error has to name
            bad, what = rng.choice(MISSING_TERMINATOR)
            gap = rng.choice([[], [""], ["// note"], ["", "// note", ""]])
            nxt = rng.choice([("var after%d = 0;" % k, "var"), ("print(0);", "print"), ("fn later%d() { }" % k, "fn"), ("{ }", "{")])
            pos = rng.randint(0, len(lines))
            line_no = sum(l.count("\n") + 1 for l in lines[:pos]) + 1 + bad.count("\n") + 1 + len(gap)
            lines[pos:pos] = [bad] + gap + [nxt[0]]
            src = "\n".join(lines) + "\n"
            cases.append({"id": k, "main": src, "compile_only": True, "line": line_no, "frag": "Error at '%s': %s" % (nxt[1], what), "bad": bad})
            continue
        bad, frag = rng.choice(SYNTAX_ERRORS)
        pos = rng.randint(0, len(lines))
        # the physical line of the offending text (multi-line string literals in the filler shift it)
        line_no = sum(l.count("\n") + 1 for l in lines[:pos]) + 1
        lines.insert(pos, bad)
        src = "\n".join(lines) + "\n"
        cases.append({"id": k, "main": src, "compile_only": True, "line": line_no, "frag": frag, "bad": bad})
    return cases


# programs whose first compile error names a token that is NOT where the statement starts (one token per line where it matters)
LOCATED_ERRORS = [
    "#[\nconstructor\n]\nclass\nA\n{\n}\n", "#[\nderive\n]\nclass A {}\n", "#[constructor(a, b)]\n\nclass A {}\n", "#[derive(A,\nB)]\nclass C {}\n",
    "#[\nconstructor(new),\nderive\n]\nclass A {}\n", "#[\nderive(B),\nconstructor\n]\nclass A {}\n",
    "#[\nstatic\n]\nfn f() {}\n", "#[\nwhatever(x)\n]\nclass A {}\n", "class A {\n#[\nstatic(x)\n]\nfn m() {}\n}\n",
    "class A {\n#[constructor,\nstatic]\nfn m(self) {}\n}\n", "class A {\n#[static,\nconstructor]\nfn m(self) {}\n}\n",
    "class A {\n#[constructor(x)]\nfn m(self) {}\n}\n", "class A {\n#[\nother\n]\nfn m(self) {}\n}\n", "#[derive(A)]\nvar x;\n", "#[derive(A)]\n\n1;\n",
    "#[a]\n#[b]\nclass C {}\n", "#[a,\na]\nclass C {}\n", "#[a(x),\nb,\na(\ny)]\nclass C {}\n", "#[a(\n1)]\nclass C {}\n", "#[a(x\ny)]\n", "#[\n]\n", "#\nclass\n", "#[a]\n",
    "#[a\nb]\nclass C {}\n", "class A {\n#[static]\n}\n", "#[derive(\nA)]\nclass\nA {}\n", "fn f() {\n #[derive(\nA)]\n class\n A {}\n}\n",
    "fn f() {\n}\nreturn\n1;\n", "fn f() {\n}\nreturn\n;\n", "class A {\nfn m(self) {\n}\n#[static]\nfn s() {\nreturn\nself\n;\n}\n}\n",
    "class A {\n#[static]\nfn s() {\nreturn || \nself;\n}\n}\n", "while true {\n}\nbreak\n;\n", "while true {\nfn f() {\ncontinue\n;\n}\n}\n",
    "for x in [1] {\nvar f = || {\nbreak\n;\n};\n}\n", "{\nvar a = 1;\nvar\na\n= 2;\n}\n", "fn f(a,\nb,\na) {}\n", "var f = |a,\nb,\na| 1;\n",
    "{ var a =\n a; }\n", "{ var a = 1; { var a =\n a\n; } }\n", "fn f() { var g = || {\nvar a =\na;\n}; }\n", "import\n\"main\"\n;\n",
    "{\nimport \"x/util\";\nimport\n\"y/util\"\n;\n}\n", "{\nimport \"x/util\" as u;\nimport \"y/other\" as\nu\n;\n}\n", "import \"lib\" as\n1;\n",
    "class A {\nfn m(self) {\nreturn super\n.x;\n}\n}\n", "fn f() {\nreturn super\n.x;\n}\n", "var x = Self\n;\n", "var y =\nself\n;\n",
    "#[constructor(new)]\nclass A {\n#[constructor]\nfn init(self) {\nreturn\n1;\n}\n}\n", "#[derive(B)]\nclass A {\nfn m(self) {\nreturn super\n;\n}\n}\n",
    "#[derive(B)]\nclass A {\nfn m(self) {\nreturn super.\n1;\n}\n}\n", "class A {\nfn\nm(\n) {}\n}\n", "class A {\nfn m(self\nx) {}\n}\n", "fn f(\nself) {}\n",
    "class A {\n#[static]\nfn s(\nself) {}\n}\n", "for\n1 in x {}\n", "for x\nof y {}\n", "for x in x\n{}\n", "{ var x = 1; for x in\nx {} }\n", "try {\n}\nprint(1);\n",
    "try {\n} catch\n{\n}\n", "try {\n} catch e\nprint(e);\n", "try {\n} finally\nprint(1);\n", "if x {\n} else\nprint(1);\n", "a.b\n.1;\n", "x[1\n;\n", "f(1,\n2;\n",
    "var m = {1:\n2,\n3};\n", "(1,\n2;\n", "(1\n;\n", "1 +\n= 2;\n", "a + b\n= 2;\n", "a.b = c\n= ;\n", "x +=\ny += 1;\n", "x += |a| {\nb\n+= 1; };\n",
    "import \"\" as\nodd;\nprint(1);\n", "import \"/\" as odd;\n", "import \"..\" as odd;\n", "import\n\"\"\n;\n", "import \"..\"\n;\n", "{ import \"/\"; }\n",
    "var s = \"a${\n}b\";\n", "var s = \"a${1\n2}b\";\n", "print(\"${1}\"\n\"x\");\n", "var x = 1\n@ 2;\n", "var x =\n$;\n",
]


def main(tier, seed):
    rep = Report(PROP, tier, seed, "model_checking")
    rng = random.Random(seed)
    bins = [("dev", vlib.build_harness("dev")), ("release", vlib.build_harness("release"))]
    # what is pending belongs to the fiber: two fibers fail inside try / finally and give control away from the finally block; the one that
    # is resumed reports (or hands to its caller) ITS failure, at its own line
    profcheck.run_scenarios(rep, "interleaved", scenarios.interleaved_failure_scenarios(("uncaught", "caught-by-caller")), bins, PROP)
    progs = scenarios.error_scenarios(rng, 2000 if tier == "quick" else 30000)
    profcheck.run_scenarios(rep, "errors", progs, bins, PROP)
    # the same errors as the shipped command-line program reports them: messages on stderr, exit status 65 / 70 / 0
    import cli
    usable = [r for r in rep.last_runs if r["done"] and not r["oom"] and not r["trig"] and ":host-" not in str(r.get("id", ""))
              and "host_fail" not in yprog.program_src(r["prog"])]
    usable = usable[:: max(1, len(usable) // (400 if tier == "quick" else 4000))]
    ncli = 0
    for prof in ("dev", "release"):
        ncli += cli.run_files(rep, cli.build_cli(prof), prof, usable, "error scenario")
    rep.coverage["programs_run_by_the_command_line_program"] = ncli
    # the same programs moved far down the file: K blank lines in front shift every line of module main by K - beyond 2^15, 2^16 and 2^17
    # (the line table of a chunk must hold any line a source file can have)
    import copy, mrun
    far = [r for r in usable if not r["result"]["ok"]][: (24 if tier == "quick" else 200)]
    nfar = 0
    for K in (32766, 65534, 65536, 131075):
        def shift(text):
            return re.sub(r'\[module "main", line (\d+)\]', lambda m_: '[module "main", line %d]' % (int(m_.group(1)) + K), text)
        fcases = [{"id": i, "main": "\n" * K + yprog.program_src(r["prog"]), "gc": "never", "modules": {}, "natives": True} for i, r in enumerate(far)]
        for bname, binary in bins:
            for r, reply in zip(far, Pool(binary, "run", timeout=60).map(fcases)):
                nfar += 1
                model = copy.deepcopy(r)
                model["result"]["messages"] = [shift(x) for x in model["result"]["messages"]]
                model["out"] = [shift(x) if isinstance(x, str) else x for x in model["out"]]
                msg = mrun.compare(model, reply) if hasattr(mrun, "compare") else None
                if msg:
                    rep.violation("error scenario moved %d lines down the file (%s build): %s" % (K, bname, msg),
                                  {"source": "<%d blank lines>\n%s" % (K, yprog.program_src(r["prog"])), "spec": model["result"], "impl": reply})
    rep.coverage["error_scenarios_replayed_far_down_the_file"] = nfar
    # line counting itself: Scanner.tla's token lines (comments, line breaks inside strings, the end-of-input token after a final comment
    # without a line break) against the real scanner, for every source of the Broad alphabet
    from checks import c03 as _c03
    nscan, sscan = _c03.scanner_part(rep, bins[0][1], tier, groups=["Broad", "Lines"])
    rep.coverage["scanner_sources_for_line_counting"] = nscan
    # compile errors name the line of the offending token
    cases = compile_error_cases(rng, 600 if tier == "quick" else 6000)
    ncomp = 0
    for c, r in zip(cases, Pool(bins[0][1], "run").map(cases)):
        ncomp += 1
        if "runs" not in r:
            rep.violation("compiling a program with a syntax error crashed: %r" % (r,), {"source": c["main"]})
            continue
        run = r["runs"][0]
        if run["ok"] or run.get("kind") != "CompileError":
            rep.violation("a program with a syntax error (%s) was not rejected with a compile error: %r" % (c["bad"], run), {"source": c["main"]})
            continue
        first = run["messages"][0]
        want = "[module \"main\", line %d] Error" % c["line"]
        if c["bad"].startswith("print(\"abc"):
            continue           # location of an unterminated string depends on what follows; only rejection is required
        if not first.startswith(want) or c["frag"] not in first:
            rep.violation("compile error for %r should be reported at line %d (%s), got %r" % (c["bad"], c["line"], c["frag"], first),
                          {"source": c["main"], "messages": run["messages"]})
    # ... for EVERY first error the parser can record: Parser.tla predicts the offending token, its line and the message for the
    # catalogue above, for programs whose offending token (an attribute name, a duplicate declaration, a misplaced return / break /
    # self / super, a class deriving itself ...) sits on a line of its own, and for mutations of the repository's multi-line scripts
    import parsertwin
    from checks import c03
    items, _modules = vlib.corpus()
    twin_sources = [c["main"] for c in cases] + LOCATED_ERRORS + parsertwin.context_sources(2) + c03.mutations(random.Random(seed + 3), items, tier)[: (1500 if tier == "quick" else 15000)]
    ntwin, stwin = parsertwin.check(rep, bins[0][1], twin_sources, "compile errors (offending token, line, message)", tag="c17twin")
    rep.coverage["states"] = rep.coverage.get("states", 0) + stwin
    rep.coverage["transitions"] = rep.coverage.get("transitions", 0) + stwin
    rep.coverage["traces_validated_against_impl"] += ntwin
    # the command-line program on programs that do not compile: exit status 65 and exactly the compiler's messages on stderr
    import os, tempfile, shutil
    cdir = tempfile.mkdtemp(prefix="clice", dir=vlib.WORK)
    clibin = cli.build_cli("dev")
    replies = Pool(bins[0][1], "run").map(cases[:150])
    for k, (c, r) in enumerate(zip(cases[:150], replies)):
        if "runs" not in r or r["runs"][0].get("ok"):
            continue
        with open(os.path.join(cdir, "p%d.yl" % k), "w") as f:
            f.write(c["main"])
        rc, so, se = cli._run(clibin, ["p%d.yl" % k], cdir)
        ncli += 1
        want = "".join(m + "\n" for m in r["runs"][0]["messages"])
        if rc != 65 or se != want or so != "":
            rep.violation("a program that does not compile: the command-line program exits %r with stderr %r (stdout %r); expected exit 65 and %r"
                          % (rc, se[-400:], so[-100:], want[-400:]), {"source": c["main"]})
    shutil.rmtree(cdir, ignore_errors=True)
    rep.coverage["programs_run_by_the_command_line_program"] = ncli
    rep.coverage["compile_error_cases"] = ncomp
    rep.coverage["traces_validated_against_impl"] += ncomp + ncli
    rep.coverage["exhaustive"] = False
    rep.sample({"kind": "error scenario", "source": yprog.program_src(progs[1][1])})
    rep.coverage["rule"] = ("seeded products: 23 failure kinds (every built-in failure class, thrown string / number / Error / user subclass, a host "
                            "native failing with each ErrorKind, wrong arity, call-depth exhaustion) x call chains of depth 0-4 through functions, "
                            "methods, bound methods, static methods, constructors, lambdas and fibers x caught at the top / at the raise site / "
                            "not at all x an earlier caught throw; the reference machine supplies class, message and one trace line per active "
                            "call (one statement per line); plus programs with one syntax error at a random line")
    return rep.finish()
