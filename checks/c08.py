"""C08  Exceptions reach the innermost active handler; finally always runs  (Machine.tla structural completions)."""
import profcheck
import scenarios
import vlib

PROP = "C08"
EXC = ["print", "var", "try", "catch", "finally", "throw", "while", "break", "continue", "fn", "call", "return", "exprstmt"]


def throws(r):
    return any(t.get("t") in ("try", "throw") for t in r["prog"])


def main(tier, seed):
    q = tier == "quick"
    plan = [
        {"name": "exceptions-exhaustive", "cfg": profcheck.make_cfg("c08x", ["print", "try", "catch", "finally", "throw", "fn", "call", "exprstmt"],
                                                                  6 if q else 7, names=("a",), fnnames=("f",))},
        {"name": "exceptions-simulated", "cfg": profcheck.make_cfg("c08s", EXC, 14, names=("a",), fnnames=("f",)),
         "simulate": 10000 if q else 120000},
        {"name": "exceptions-builtin-failures", "cfg": profcheck.make_cfg("c08b", EXC + ["arith", "for", "set"], 14, names=("a", "b"), fnnames=("f",)),
         "simulate": 4000 if q else 50000, "seed_offset": 5},
    ]
    rep = profcheck.run(PROP, tier, seed, plan, feature=throws)
    bins = [("dev", vlib.build_harness("dev")), ("release", vlib.build_harness("release"))]
    import tracevm
    rep.coverage["tracevm_selftest_rejected"] = tracevm.selftest(bins[0][1])
    profcheck.run_scenarios(rep, "exception", scenarios.exception_scenarios(), bins, PROP)
    profcheck.run_scenarios(rep, "exitpaths", scenarios.exit_path_scenarios(), bins, PROP)
    # "with the handling function's variables intact": closures over variables above the handler's stack height escaped before
    # the exception; the handler's own locals reuse those slots while the closures are still being called
    profcheck.run_scenarios(rep, "handlerintact", scenarios.handler_intact_scenarios(), bins, PROP)
    # any value can be thrown (nil, false, 0, "", containers, classes, closures, instances): delivery and re-raising after finally
    # blocks must not depend on what the value is
    profcheck.run_scenarios(rep, "thrownvalues", scenarios.thrown_value_scenarios(), bins, PROP)
    # handlers and finally blocks of LATER runs on the same interpreter: a run that ended with an uncaught exception (thrown at top level, through
    # finally blocks, inside a fiber, inside a module) must leave nothing behind that makes a later try statement misbehave
    import random
    profcheck.run_scenarios(rep, "acrossruns", scenarios.snippet_scenarios(random.Random(seed + 8), 300 if q else 3000), bins, PROP)
    # "or by a failing built-in operation (as an instance of the matching error class)": every kind of built-in failure the VM raises (operand
    # types, undefined names and members, indices, calls of non-functions, wrong arities, the 65th call frame, failing host functions,
    # failures inside finally blocks ...) raised at the end of call chains through functions, methods, constructors, lambdas and fibers and
    # caught at the failing level or at the outermost one, with finally blocks in between
    profcheck.run_scenarios(rep, "caughtfailures", [p for p in scenarios.error_scenarios(random.Random(seed + 9), 500 if q else 6000)
                                                    if not p[0].endswith(":None")], bins, PROP)
    # handlers in the presence of the other control transfers: a fiber switch made from inside try / catch / finally blocks (with a
    # completion pending), and exceptions that cross a module boundary on their way to the handler (whose globals must be its own)
    profcheck.run_scenarios(rep, "switchcontexts", scenarios.fiber_switch_context_scenarios(), bins, PROP)
    profcheck.run_scenarios(rep, "crossmodule", scenarios.cross_module_scenarios(), bins, PROP)
    # two fibers suspended inside finally blocks with their exceptions waiting (the ending in which one of them runs a catch clause meanwhile
    # is the recorded finding about the interpreter-wide flag, attributed by its trigger)
    profcheck.run_scenarios(rep, "interleaved", scenarios.interleaved_failure_scenarios(), bins, PROP)
    # implementation -> specification on the repository's OWN scripts: the control events of all of them (handler pushes / pops,
    # landings, frame and fiber changes) must be a behaviour TraceVm.tla allows, on both builds
    items, modules = vlib.corpus()
    for bname, binary in bins:
        cs = [{"id": ["corpus", n], "main": s, "modules": modules, "gc": "default"} for n, s, e in items]
        np_, nev = tracevm.validate(rep, binary, bname, cs, "the repository's scripts", tag="c08corpus")
        rep.coverage["corpus_traces_validated_by_TraceVm_" + bname] = np_
        rep.coverage["corpus_events_validated_by_TraceVm_" + bname] = nev
    rep.coverage["exhaustive"] = True
    rep.coverage["rule"] = ("programs nesting try/catch/finally with loops and functions, explicit throws, failing built-in operations and throws "
                            "from callees, every exit path from every block; the reference machine delivers completions structurally (innermost "
                            "active try, finally exactly once); behaviours in which the ideal run uses a construct of a recorded finding are "
                            "attributed to that finding when they differ, all others must agree exactly")
    rep.assumptions += ["six recorded findings about try/finally compilation (known_findings.json) are attributed by trigger events of the ideal run"]
    return rep.finish()
