"""C19  Numbers survive text: printing and parsing round-trip exactly  (NumFormat.tla, Scanner.tla)."""
import os
import random
import re
from concurrent.futures import ThreadPoolExecutor

import vlib
from vlib import Report, run_tlc, Pool, build_harness, log
from checks import c03

PROP = "C19"
CFG = """SPECIFICATION Spec
CONSTANTS
  Part = "%(part)s"
  MaxMant = %(maxmant)d
  DownExp = %(downexp)d
  MaxExp = %(maxexp)d
  NRandom = %(nrandom)d
  TextAlphabet = {%(alphabet)s}
  MaxText = %(maxtext)d
  Shard = %(shard)d
  NShards = %(nshards)d
INVARIANTS PrintedReadsBack IntegralHasNoPoint LiteralsAreRead Emit
CHECK_DEADLOCK FALSE
"""


def tlc_cases(rep, name, seed=None, timeout=3000, workers=2, **kw):
    p = dict(part="lattice", maxmant=0, downexp=0, maxexp=0, nrandom=0, alphabet='"0"', maxtext=0, shard=0, nshards=1)
    p.update(kw)
    d = os.path.join(vlib.WORK, "cfg")
    os.makedirs(d, exist_ok=True)
    path = os.path.join(d, "NumFormat_%s_%d.cfg" % (name, os.getpid()))
    with open(path, "w") as f:
        f.write(CFG % p)
    cases = []
    res = run_tlc("NumFormat", path, workers=workers, timeout=timeout, keep_lines=False, tag="c19" + name, seed=seed, xmx="3g",
                  on_line=lambda t, o: cases.append(o) if t == "CASE" else None)
    os.remove(path)
    log("[c19] TLC %s: %d cases in %.0fs" % (name, len(cases), res.wall))
    if res.violation:
        rep.violation("NumFormat.tla (%s): TLC reports\n%s" % (name, res.violation[:1500]), {"tlc": res.violation})
    elif res.rc != 0:
        raise vlib.ToolError("TLC failed on NumFormat (%s): rc=%s\n%s" % (name, res.rc, res.stdout[-1500:]))
    return cases, res.distinct


PRELUDE = "var p10 = [1];\nvar i = 0;\nwhile i < 22 { p10.push(p10[i] * 10); i = i + 1; }\n"


def number_lines(c):
    """-> (source lines, [(expected text or None, what)]) for one double of the specification"""
    r = c["r"]
    bits, e, neg = r["bits"], r["e"], r["neg"]
    fmt, ar = r["fmt"], r["around"]
    src = ["{", "var m = 0;", 'for c in "%s" { m = m * 2; if c == "1" { m = m + 1; } }' % "".join(map(str, bits)),
           "var x = m; var u = 1; i = 0;",
           "while i < %d { x = x %s 2; u = u %s 2; i = i + 1; }" % (abs(e), "*" if e >= 0 else "/", "*" if e >= 0 else "/"),
           "var nx = x + u;"]
    if neg:
        src.append("x = -x; nx = -nx;")
    sg = "-" if neg else ""
    exp = []
    zero = not bits

    def lit(t):
        return "-(%s)" % t if neg else "(%s)" % t

    def line(expr, want, what):
        src.append("print(%s);" % expr)
        exp.append((want, what))

    line("x", fmt["text"] if fmt["known"] else None, "printed text")
    line('String.from(x) == "${x}"', "true", "String.from and interpolation print the same text")
    line('"a${x}b" == "a" + String.from(x) + "b"', "true", "interpolation embeds the printed text")
    if zero:
        line("1 / String.from(x).to_num() == 1 / x", "true", "printing and reading back keeps the sign of zero")
        line('1 / "%s0".to_num() == 1 / x' % sg, "true", "the text of zero reads back with its sign")
        line('1 / %s == 1 / x' % lit("0"), "true", "the literal 0 (negated or not) keeps its sign")
    else:
        line("String.from(x).to_num() == x", "true", "printing and reading back yields the identical number")
        line('"${x}".to_num() == x', "true", "interpolating and reading back yields the identical number")
        line('"%s%s".to_num() == x' % (sg, ar["exact"]), "true", "the exact decimal expansion reads as the number")
        line('%s == x' % lit(ar["exact"]), "true", "the exact decimal expansion as a literal denotes the number")
    # the gap above x: ties to even, anything above the midpoint is the successor, anything below is x
    tie, other = ("x", "nx") if ar["tie_to_x"] else ("nx", "x")
    line('"%s%s".to_num() == %s' % (sg, ar["mid"], tie), "true", "a tie reads as the neighbour with the even mantissa")
    line('"%s%s".to_num() == %s' % (sg, ar["mid"], other), "false", "a tie does not read as the odd neighbour")
    line('%s == %s' % (lit(ar["mid"]), tie), "true", "a tie literal denotes the even neighbour")
    line('"%s%s".to_num() == nx' % (sg, ar["above"]), "true", "just above the midpoint reads as the successor")
    line('%s == nx' % lit(ar["above"]), "true", "a literal just above the midpoint denotes the successor")
    if ar["below"]:
        line('"%s%s".to_num() == x' % (sg, ar["below"]), "true", "just below the midpoint reads as the number")
        line('%s == x' % lit(ar["below"]), "true", "a literal just below the midpoint denotes the number")
    line('"%s%s".to_num() == x' % (sg, ar["q1"]), "true", "the lower quarter point reads as the number")
    line('%s == nx' % lit(ar["q3"]), "true", "the upper quarter point literal denotes the successor")
    line('"%s%s".to_num() == nx' % (sg, ar["q3"]), "true", "the upper quarter point reads as the successor")
    src.append("}")
    return src, exp, r["integral"]


def text_lines(c):
    r = c["r"]
    text, rd = r["text"], r["reads"]
    q = '"%s"' % text
    src, exp = [], []
    if not rd["ok"]:
        src.append("try { print(%s.to_num()); } catch e { print(type(e) == ValueError); }" % q)
        exp.append(("true", "%r is not a number: ValueError" % text))
        return src, exp
    sign = "-" if rd["neg"] else ""
    if rd["special"] == "inf":
        want = "%s1 / 0" % sign
        src.append("try { print(%s.to_num() == %s); } catch e { print(type(e)); }" % (q, want))
    elif rd["special"] == "nan":
        src.append("try { var v = %s.to_num(); print(v != v); } catch e { print(type(e)); }" % q)
    else:
        n, k = rd["n"], rd["k"]
        if abs(k) > 22:
            src.append("try { var v = %s.to_num(); print(v == v); } catch e { print(type(e)); }" % q)
        else:
            val = "%s(%d %s p10[%d])" % (sign, n, "*" if k >= 0 else "/", abs(k))
            if n == 0:
                src.append("try { print(1 / %s.to_num() == 1 / %s); } catch e { print(type(e)); }" % (q, val))
            else:
                src.append("try { print(%s.to_num() == %s); } catch e { print(type(e)); }" % (q, val))
            if r["literal"]:
                src.append("print(%s == %s);" % (text, val))
                exp.append(("true", "%r reads as %d * 10^%d" % (text, n, k)))
                exp.append(("true", "the literal %s denotes %d * 10^%d" % (text, n, k)))
                return src, exp
    exp.append(("true", "%r is read as the number the grammar says" % text))
    return src, exp


def run_batches(rep, binaries, items, what, per):
    """items: [(src lines, expectations, integral or None, case)]; several cases per program"""
    progs = []
    for i in range(0, len(items), per):
        chunk = items[i:i + per]
        src = PRELUDE + "\n".join("\n".join(it[0]) for it in chunk) + "\n"
        progs.append((src, chunk))
    n = 0
    for bname, binary in binaries:
        cases = [{"id": i, "main": src, "gc": "default", "stack_mb": 64} for i, (src, _) in enumerate(progs)]
        for (src, chunk), r in zip(progs, Pool(binary, "run", timeout=120).map(cases)):
            if "runs" not in r or not r["runs"][0].get("ok"):
                rep.violation("%s (%s build): the program did not run to its end: %r" % (what, bname, {k: r[k] for k in r if k != "events"}),
                              {"source": src, "reply": r})
                continue
            out = r["runs"][0]["out"]
            want = [e for it in chunk for e in it[1]]
            if len(out) != len(want):
                rep.violation("%s (%s build): %d lines printed, %d expected" % (what, bname, len(out), len(want)), {"source": src, "out": out})
                continue
            pos = 0
            for lines, exps, integral, case in chunk:
                for j, (w, desc) in enumerate(exps):
                    got = out[pos + j]
                    n += 1
                    if w is not None and got != w:
                        rep.violation("%s (%s build): %s: expected %s, printed %s; case %r" % (what, bname, desc, w, got, case["c"]),
                                      {"case": case, "source": PRELUDE + "\n".join(lines), "line": j, "expected": w, "printed": got})
                        break
                    if w is None:
                        # no closed form for the shortest text in the specification: the printed form must still be a plain
                        # decimal, without a fraction exactly when the value is integral (round trip is checked by the next lines)
                        if not re.fullmatch(r"-?\d+(\.\d+)?", got) or (("." not in got) != bool(integral)):
                            rep.violation("%s (%s build): printed text %r is not a plain decimal / has a fraction iff not integral; case %r"
                                          % (what, bname, got, case["c"]), {"case": case, "printed": got})
                            break
                pos += len(exps)
    return n


def build_x(bits, e, neg):
    src = ["var m = 0;", 'for c in "%s" { m = m * 2; if c == "1" { m = m + 1; } }' % "".join(map(str, bits)),
           "var x = m; i = 0;",
           "while i < %d { x = x %s 2; i = i + 1; }" % (abs(e), "*" if e >= 0 else "/")]
    if neg:
        src.append("x = -x;")
    return src


def printed_literal_layer(rep, binaries, seed, n, shards=4):
    """Two phases.  1: numbers built from TLC-drawn bit patterns are printed.  2: the printed text comes back as a SOURCE LITERAL and as the
    argument of to_num in a second program and must be the number (the property's round trip, plus "a literal denotes the double nearest to
    its decimal text": the double nearest to a text that reads back as x is x).  This is the only place where literals of 16-17 significant
    digits - the length the shortest-round-trip printer produces - are compiled."""
    jobs = []
    with ThreadPoolExecutor(max_workers=shards) as ex:
        for s_ in range(shards):
            jobs.append(ex.submit(tlc_cases, rep, "patterns%d" % s_, seed=seed * 100 + 70 + s_, part="patterns", nrandom=n // shards))
        results = [j.result() for j in jobs]
    cases = [c for cs, _ in results for c in cs]
    states = sum(d for _, d in results)
    ncmp = 0
    per = 40
    for bname, binary in binaries:
        chunks = [cases[i:i + per] for i in range(0, len(cases), per)]
        progs1 = []
        for chunk in chunks:
            lines = [PRELUDE]
            for c in chunk:
                r = c["r"]
                lines += ["{"] + build_x(r["bits"], r["e"], r["neg"]) + ["print(x);", "print(String.from(x).to_num() == x);", "}"]
            progs1.append("\n".join(lines) + "\n")
        items = [{"id": i, "main": src, "gc": "default", "stack_mb": 64} for i, src in enumerate(progs1)]
        printed = []
        for chunk, src, r in zip(chunks, progs1, Pool(binary, "run", timeout=120).map(items)):
            out = r["runs"][0]["out"] if "runs" in r and r["runs"][0].get("ok") else None
            if out is None or len(out) != 2 * len(chunk):
                rep.violation("printed-literal round trip (%s build): the printing program did not run to its end: %r" % (bname, {k: r[k] for k in r if k != "events"}), {"source": src})
                printed.append(None)
                continue
            texts = []
            for j, c in enumerate(chunk):
                t, back = out[2 * j], out[2 * j + 1]
                ncmp += 1
                if back != "true":
                    rep.violation("printed-literal round trip (%s build): String.from(x).to_num() == x is %s for the number %r (printed %s)" % (bname, back, c["r"], t),
                                  {"case": c, "printed": t})
                if not re.fullmatch(r"-?\d+(\.\d+)?", t):
                    rep.violation("printed-literal round trip (%s build): the printed text %r of %r is not a plain decimal" % (bname, t, c["r"]), {"case": c, "printed": t})
                    t = None
                texts.append(t)
            printed.append(texts)
        progs2, keep = [], []
        for chunk, texts in zip(chunks, printed):
            if texts is None:
                continue
            lines = [PRELUDE]
            sel = []
            for c, t in zip(chunk, texts):
                if t is None:
                    continue
                r = c["r"]
                lines += ["{"] + build_x(r["bits"], r["e"], r["neg"]) + ["print((%s) == x);" % t, 'print("%s".to_num() == x);' % t, 'print("${(%s)}" == "%s");' % (t, t), "}"]
                sel.append((c, t))
            progs2.append("\n".join(lines) + "\n")
            keep.append(sel)
        items = [{"id": i, "main": src, "gc": "default", "stack_mb": 64} for i, src in enumerate(progs2)]
        for sel, src, r in zip(keep, progs2, Pool(binary, "run", timeout=120).map(items)):
            out = r["runs"][0]["out"] if "runs" in r and r["runs"][0].get("ok") else None
            if out is None or len(out) != 3 * len(sel):
                rep.violation("printed-literal round trip (%s build): the program holding the printed texts as literals did not run to its end: %r"
                              % (bname, {k: r[k] for k in r if k != "events"}), {"source": src})
                continue
            for j, (c, t) in enumerate(sel):
                for k, what in enumerate(("written as a source literal it denotes the number", "given to to_num it is the number", "the literal prints as the same text")):
                    ncmp += 1
                    if out[3 * j + k] != "true":
                        rep.violation("printed-literal round trip (%s build): the number %r prints as %s, but: %s -> %s" % (bname, c["r"], t, what, out[3 * j + k]),
                                      {"case": c, "printed": t, "which": what})
                        break
    log("[c19] printed text as literal: %d numbers, %d comparisons" % (len(cases), ncmp))
    return ncmp, states, len(cases)


def conversion_layer(rep, binaries, tier, seed):
    """String.to_num / String.from against NumFormat.tla without the lattice sweep: the boundary numbers (2^53 / 2^63 neighbours, powers of two
    across the range, subnormals - their exact expansions, midpoints and quarter points are long digit strings), a few TLC-drawn random
    patterns and every short text over a number alphabet.  Used by C13 ("conversion to and from numbers")."""
    quick = tier == "quick"
    nsh = 3 if quick else 6
    jobs = []
    with ThreadPoolExecutor(max_workers=8) as ex:
        for s in range(nsh):
            jobs.append(ex.submit(tlc_cases, rep, "cbounds%d" % s, part="bounds", shard=s, nshards=nsh))
        for s in range(2 if quick else 8):
            jobs.append(ex.submit(tlc_cases, rep, "crandom%d" % s, seed=seed * 100 + 50 + s, part="random", nrandom=6 if quick else 40))
        alphabet = ['0', '1', '9', '.', 'e', '-', ' ', 'n']
        jobs.append(ex.submit(tlc_cases, rep, "ctexts", part="texts", alphabet=", ".join('"%s"' % a for a in alphabet), maxtext=3 if quick else 4, timeout=20000))
        results = [j.result() for j in jobs]
    states = sum(d for _, d in results)
    numbers = [c for cs, _ in results for c in cs if c["c"]["kind"] != "texts"]
    texts = [c for cs, _ in results for c in cs if c["c"]["kind"] == "texts"]
    if not numbers or not texts:
        raise vlib.ToolError("NumFormat.tla produced no cases")
    items = []
    for c in numbers:
        src, exp, integral = number_lines(c)
        items.append((src, exp, integral, c))
    n = run_batches(rep, binaries, items, "number <-> text", 2)
    titems = []
    for c in texts:
        src, exp = text_lines(c)
        titems.append((src, exp, None, c))
    n += run_batches(rep, binaries, titems, "to_num text", 150)
    n4, pstates, npat = printed_literal_layer(rep, binaries, seed + 1, 600 if quick else 6000)
    n += n4
    states += pstates
    log("[c19] conversion layer: %d numbers, %d texts, %d comparisons" % (len(numbers), len(texts), n))
    return n, states, len(numbers), len(texts)


def main(tier, seed):
    rep = Report(PROP, tier, seed, "model_checking")
    dev = build_harness("dev")
    binaries = [("dev", dev)]
    if tier == "thorough":
        binaries.append(("release", build_harness("release")))
    quick = tier == "quick"
    jobs = []
    nsh = 6 if quick else 12
    with ThreadPoolExecutor(max_workers=12) as ex:
        if quick:
            for sh in range(4):
                jobs.append(ex.submit(tlc_cases, rep, "lattice%d" % sh, workers=1, part="lattice", maxmant=32, downexp=6, maxexp=8, shard=sh, nshards=4))
        else:
            for sh in range(8):
                jobs.append(ex.submit(tlc_cases, rep, "lattice%d" % sh, workers=1, part="lattice", maxmant=1024, downexp=8, maxexp=20, timeout=20000, shard=sh, nshards=8))
        for s in range(nsh):
            jobs.append(ex.submit(tlc_cases, rep, "bounds%d" % s, part="bounds", shard=s, nshards=nsh))
        for s in range(4 if quick else 16):
            jobs.append(ex.submit(tlc_cases, rep, "random%d" % s, seed=seed * 100 + s, part="random", nrandom=6 if quick else 40))
        alphabet = ['0', '1', '2', '.', 'e', 'E', '-', '+', ' ', 'n', '_'] if quick else ['0', '1', '2', '5', '.', 'e', 'E', '-', '+', ' ', 'n', 'i', '_', 'x']
        jobs.append(ex.submit(tlc_cases, rep, "texts", part="texts", alphabet=", ".join('"%s"' % a for a in alphabet), maxtext=4, timeout=20000))
        results = [j.result() for j in jobs]
    states = sum(d for _, d in results)
    numbers = [c for cs, _ in results for c in cs if c["c"]["kind"] != "texts"]
    texts = [c for cs, _ in results for c in cs if c["c"]["kind"] == "texts"]
    log("[c19] NumFormat.tla: %d numbers, %d texts" % (len(numbers), len(texts)))
    if not numbers or not texts:
        raise vlib.ToolError("NumFormat.tla produced no cases")
    items = []
    for c in numbers:
        src, exp, integral = number_lines(c)
        items.append((src, exp, integral, c))
    n1 = run_batches(rep, binaries, [it for it in items if it[3]["c"]["kind"] == "lattice"], "lattice number", 25)
    n2 = run_batches(rep, binaries, [it for it in items if it[3]["c"]["kind"] != "lattice"], "boundary / random number", 2)
    titems = []
    for c in texts:
        src, exp = text_lines(c)
        titems.append((src, exp, None, c))
    n3 = run_batches(rep, binaries, titems, "to_num text", 150)
    n4, pstates, npat = printed_literal_layer(rep, binaries, seed, 2000 if quick else 20000)
    states += pstates
    n3 += n4
    nscan, sstates = c03.scanner_part(rep, dev, tier, groups=["Numbers"])
    kinds = {}
    for c in numbers:
        kinds[c["c"]["kind"]] = kinds.get(c["c"]["kind"], 0) + 1
    rep.coverage["states"] = states + sstates
    rep.coverage["transitions"] = states + sstates
    rep.coverage["traces_validated_against_impl"] = n1 + n2 + n3 + nscan
    rep.coverage["numbers"] = kinds
    rep.coverage["texts"] = len(texts)
    rep.coverage["printed_texts_as_literals"] = npat
    rep.coverage["scanner_sources"] = nscan
    rep.coverage["exhaustive"] = True
    rep.sample({"kind": "number", "case": numbers[len(numbers) // 2]["c"], "printed": numbers[len(numbers) // 2]["r"]["fmt"]})
    rep.coverage["rule"] = ("NumFormat.tla models doubles exactly (sign, mantissa bits, binary exponent) and computes their exact decimal expansions with "
                            "unbounded decimal arithmetic.  For every number of a dyadic lattice, every listed boundary (zero, smallest / largest "
                            "subnormal, smallest normal, largest finite, 2^53 and 2^63 neighbours, powers of two across the range) and TLC-drawn "
                            "random 53-bit patterns with random exponents, of both signs, the real interpreter must: print the predicted text "
                            "(wherever the exact expansion has <= 15 significant digits it is the only shortest text; elsewhere a plain decimal with a "
                            "fraction iff the value is not integral); read its own output back to the identical number (sign of zero via 1/x); read "
                            "the exact expansion, the midpoint to the successor (tie: even mantissa; with a negative control), a text just above / "
                            "below the midpoint and the quarter points as the predicted neighbour, both through String.to_num and as a source "
                            "literal.  Every text up to 4 characters over a number alphabet (plus inf / nan / infinity words with signs and cases) "
                            "must be accepted or rejected (ValueError) as the grammar in the specification says and denote n * 10^k computed with "
                            "exactly rounded arithmetic.  Scanner.tla (Numbers alphabet, all sources up to 5 characters) decides `1.len`, `1..3`, `1.5`, "
                            "`1.` ... token by token.")
    rep.assumptions += ["doubles are built inside the program from their bits by exact operations (doubling, halving, adding 1)",
                        "for numbers whose exact expansion has more than 15 significant digits the specification does not predict the printed "
                        "digits (no model of the shortest-digit algorithm); it constrains them by the round trip and by the reading of texts around every gap",
                        "random doubles are TLC-drawn samples, not all 2^64 patterns"]
    return rep.finish()
