"""C01  GC safety: nothing a program can still reach is ever reclaimed  (Heap.tla)."""
import json
import os
import random

import vlib
from vlib import Report, run_tlc, Pool, build_harness, log, ToolError

PROP = "C01"
KINDNUM = {"node": 0, "bound": 0, "leaky": 2}   # "bound" behaves like "node" since the blacken fix


def hist_to_case(i, h, labels, big=False, asbuilt=False):
    ops = []
    for st in h["ops"]:
        op = list(st["op"])
        if op[0] == "new":
            op = ["new", KINDNUM[op[1]], 2 if asbuilt else op[2]]
        ops.append(op)
    return {"id": i, "labels": labels, "big": big, "ops": ops}


def compare_hist(h, reply, check_pacing):
    """The accounting unit is whatever the implementation charges for the first allocation; from then
    on bytes_allocated and (after the first collection) collection_threshold must be the model's
    numbers in that unit, exactly."""
    if "steps" not in reply:
        return "harness did not complete the history: %r" % (reply,)
    steps = reply["steps"]
    unit = steps[0]["raw_bytes"]
    if unit <= 0:
        return "first allocation accounted %r bytes" % unit
    seen_collect = False
    for n, st in enumerate(h["ops"]):
        obs, got = st["obs"], steps[n]
        if sorted(obs["freed"]) != got["freed"]:
            return "step %d %r: reclaimed set differs: spec %r impl %r" % (n + 1, st["op"], sorted(obs["freed"]), got["freed"])
        if obs["objects"] != got["objects"]:
            return "step %d %r: heap object count differs: spec %r impl %r" % (n + 1, st["op"], obs["objects"], got["objects"])
        if obs["bytes"] * unit != got["raw_bytes"]:
            return "step %d %r: bytes_allocated differs: spec %r units of %d impl %r" % (n + 1, st["op"], obs["bytes"], unit, got["raw_bytes"])
        if got["collections"] > 0:
            seen_collect = True
        if seen_collect and obs["thr"] * unit != got["raw_thr"]:
            return "step %d %r: collection_threshold differs: spec %r units of %d impl %r" % (n + 1, st["op"], obs["thr"], unit, got["raw_thr"])
    return None


def replay_hists(rep, binary, hists, labels, what, big=False, asbuilt=False, check_pacing=False):
    pool = Pool(binary, "heap-replay")
    cases = [hist_to_case(i, h, labels, big, asbuilt) for i, h in enumerate(hists)]
    replies = pool.map(cases)
    for h, c, r in zip(hists, cases, replies):
        msg = compare_hist(h, r, check_pacing)
        if msg:
            rep.violation("%s: %s" % (what, msg), {"ops": c["ops"], "spec": h, "impl": r})


def expect_tlc_violation(cfg, invariant, what):
    res = run_tlc("MC_Heap", cfg, workers=8, timeout=900, keep_lines=False, tag="selftest")
    if not res.violation or invariant not in res.violation:
        raise ToolError("self-test failed: %s - TLC did not report %s (the invariant would be vacuous)" % (what, invariant))
    return res


# ---- edge probes: each program makes one kind of pointer the ONLY path to a witness ------------
PRE = "fn junk() { var a = [1, 2, 3]; var b = (4, 5); var c = {1: 2}; return [a, b, c]; }\n"
WIT = '(7, [8, 9])'          # a tuple holding a vec: never interned, never cached
PROBES = {
 "vec element": PRE + "var v = [%s]; junk(); junk(); print(v[0]); print(v[0][1]);" % WIT,
 "tuple element": PRE + "var t = (%s, 1); junk(); junk(); print(t[0]); print(t[0][1][0]);" % WIT,
 "map value": PRE + "var m = {1: %s}; junk(); junk(); print(m.get(1)); print(m.values());" % WIT,
 "map key": PRE + "var m = {(7, (8, 9)): 1}; junk(); junk(); print(m.keys()); print(m.get((7, (8, 9)))); print(m.items());",
 "instance fields": PRE + "#[constructor(new)] class C {} var i = C.new(); i.f = %s; junk(); junk(); print(i.f); print(i.f[1]);" % WIT,
 "instance class": PRE + "fn mk() { #[constructor(new)] class C { fn m(self) { return 5; } } return C.new(); } var i = mk(); junk(); junk(); print(i.m()); print(type(i));",
 "class methods": PRE + "fn mk() { class C { #[static] fn s() { return 6; } fn m(self) { return 5; } } return C; } var k = mk(); junk(); junk(); print(k.s()); print(k);",
 "class superclass": PRE + "fn mk() { class B { fn hi(self) { return 1; } } #[derive(B), constructor(new)] class D {} return D; } var k = mk(); junk(); junk(); var d = k.new(); junk(); print(d.derives(Object)); print(d.derives(k)); print(d.hi());",
 "closure closed upvalue": PRE + "fn mk() { var w = %s; return || w; } var f = mk(); junk(); junk(); print(f()); print(f()[1]);" % WIT,
 "closure open upvalue": PRE + "fn run() { var w = %s; var f = || w; junk(); junk(); print(f()); print(w[1]); } run();" % WIT,
 "closure shared upvalue": PRE + "fn mk() { var w = %s; return (|| w, |x| { w = x; }); } var p = mk(); junk(); p[1]((1, [2])); junk(); junk(); print(p[0]()); " % WIT,
 "bound method receiver": PRE + "#[constructor(new)] class C { fn m(self) { return self.f; } } fn mk() { var i = C.new(); i.f = %s; return i.m; } var b = mk(); junk(); junk(); print(b()); print(b()[1]);" % WIT,
 "bound native receiver": PRE + "fn mk() { var v = [%s]; return v.len; } var b = mk(); junk(); junk(); print(b());" % WIT,
 "vec iterator": PRE + "fn mk() { return [%s, 2].iter(); } var it = mk(); junk(); junk(); print(it.next()); print(it.next());" % WIT,
 "tuple iterator": PRE + "fn mk() { return (%s, 2).iter(); } var it = mk(); junk(); junk(); print(it.next()); print(it.next());" % WIT,
 "range iterator (beyond the range cache)": PRE + "var it = (100..103).iter(); for i in 0..12 { var r = i..(i + 50); } junk(); junk(); print(it.next()); print(it.next()); print(it.next()); print(it.next().derives(StopIter));",
 "map iterator chain": PRE + "fn mk() { return [%s].iter().map(|x| x[1]); } var it = mk(); junk(); junk(); print(it.next());" % WIT,
 "suspended fiber stack": PRE + "var f = Fiber.new(|| { var w = %s; Fiber.yield(1); print(w); print(w[1]); }); f.call(); junk(); junk(); f.call();" % WIT,
 "suspended fiber frames": PRE + "fn inner() { var w = %s; Fiber.yield(1); return w; } var f = Fiber.new(|| { var r = inner(); print(r); }); f.call(); junk(); junk(); f.call();" % WIT,
 "calling fiber": PRE + "var outer = Fiber.new(|| { var w = %s; var inner = Fiber.new(|| { junk(); junk(); Fiber.yield(2); }); inner.call(); print(w); print(w[1]); }); outer.call();" % WIT,
 "fiber yield value": PRE + "var f = Fiber.new(|| { Fiber.yield(%s); }); var r = f.call(); junk(); junk(); print(r); print(r[1]);" % WIT,
 "fiber only held by variable": PRE + "fn mk() { var g = Fiber.new(|| { var w = %s; Fiber.yield(w); return 3; }); g.call(); return g; } var f = mk(); junk(); junk(); print(f.call());" % WIT,
 # ... with several captured variables opened in every order: each open variable must keep the fiber alive by itself, wherever it
 # was spliced into the fiber's list of open variables
 "closures over variables of a dropped suspended fiber, earlier one captured last": PRE + "var g = nil; fn mk() { var f = Fiber.new(|| { var lo = %s; var hi = [1]; var gh = || hi; g = || lo; Fiber.yield(1); print(lo); }); f.call(); } mk(); junk(); junk(); junk(); print(g()); print(g()[1]);" % WIT,
 "closures over variables of a dropped suspended fiber, middle one captured last": PRE + "var g = nil; fn mk() { var f = Fiber.new(|| { var lo = [0]; var mid = %s; var hi = [1]; var gh = || hi; var gl = || lo; g = || mid; Fiber.yield(1); print(mid); }); f.call(); } mk(); junk(); junk(); junk(); print(g()); print(g()[1]);" % WIT,
 "closures over variables of a dropped suspended fiber, callee frame above": PRE + "var g = nil; fn mk() { var f = Fiber.new(|| { var lo = %s; fn deeper() { var top = [2]; var gt = || top; g = || lo; Fiber.yield(1); return top; } deeper(); }); f.call(); } mk(); junk(); junk(); junk(); print(g()); print(g()[1]);" % WIT,
 "closure over variable of a dropped suspended fiber": PRE + "var g = nil; fn mk() { var f = Fiber.new(|| { var w = %s; g = || w; Fiber.yield(1); print(w); }); f.call(); } mk(); junk(); junk(); junk(); print(g());" % WIT,
 "module attributes": "import \"m1\"; fn junk() { return [[1], (2, 3)]; } junk(); junk(); print(m1.w); print(m1.w[1]); print(m1.f());",
 "value held during vec build": PRE + "var v = [%s, junk(), junk(), %s]; print(v[0]); print(v[3]);" % (WIT, WIT),
 "value held during call": PRE + "fn f(a, b, c) { return a; } print(f(%s, junk(), junk()));" % WIT,
 "value held during map build": PRE + "var m = {(1, (2, 3)): junk(), 2: junk()}; print(m.keys().len()); print(m.get((1, (2, 3))).len());",
 "value held during interpolation": PRE + "var s = \"a${%s}b${junk()}c${(1, [2])}\"; print(s);" % WIT,
 "class under construction": PRE + "class K { fn a(self) { return junk(); } fn b(self) { return %s; } #[static] fn c() { return 1; } } #[derive(K), constructor(new)] class L { fn d(self) { return 2; } } var l = L.new(); print(l.b()); print(l.d()); print(L.c());" % WIT,
 "exception object in flight": PRE + "fn thrower() { throw %s; } try { thrower(); } catch e { junk(); junk(); print(e); print(e[1]); }" % WIT,
 "exception through finally": PRE + "fn thrower() { throw %s; } try { try { thrower(); } finally { junk(); junk(); } } catch e { print(e); print(e[1]); }" % WIT,
 "error object context": PRE + "try { [1][5]; } catch e { junk(); junk(); print(e.context); print(type(e)); }",
 "return value through finally": PRE + "fn f() { try { return %s; } finally { junk(); junk(); } } print(f());" % WIT,
 "open captured-variable list link": PRE + "fn run() { var a = %s; var b = (1, [2]); var c = (3, [4]); var fa = || a; { var fb = || b; print(fb()); } var fc = || c; junk(); junk(); print(fa()); print(fc()); return fa; } var k = run(); junk(); print(k());" % WIT,
 "open captured-variable list link (reverse order)": PRE + "fn run() { var a = %s; var b = (1, [2]); var c = (3, [4]); var fc = || c; { var fb = || b; print(fb()); } var fa = || a; junk(); junk(); var fd = || [a, b]; print(fd()); return fa; } var k = run(); junk(); print(k());" % WIT,
 "temporary vec sliced": PRE + "print([%s, (1, [2]), junk()][0..2]); fn mk() { return [%s, (3, [4])]; } print(mk()[0..2]); print(mk()[1]);" % (WIT, WIT),
 "temporary tuple sliced": PRE + "print((%s, (1, [2]), junk())[0..2]); fn mk() { return (%s, (3, [4])); } print(mk()[0..2]); print(mk()[1]);" % (WIT, WIT),
 "temporary receiver of natives": PRE + "fn mk() { return [%s, (3, [4])]; } print(mk().iter().next()); print(mk().pop()); print(mk().push(junk())); var m = {1: %s}; print({1: %s}.values()); print({(1, (2, 3)): 1}.keys()); print({1: %s}.items());" % (WIT, WIT, WIT, WIT),
 "temporary in string operations": "fn s() { return \"ab\" + \"cd\"; } print(s()[1..3] + s()); print((s() + s()).split(\"c\")); print(\"${s()}${[s()]}\"); print(String.from([s(), (1, [2])])); print(s().replace(\"b\", s()));",
 "temporary closure in fiber and bound method": PRE + "fn mk() { var w = %s; return || w; } print(Fiber.new(mk()).call()); #[constructor(new)] class C { fn m(self) { return self.f; } } fn mi() { var i = C.new(); i.f = %s; return i; } print(mi().m()); var bm = mi().m; junk(); print(bm());" % (WIT, WIT),
 "closure escaping a run that died": [PRE + "var g = nil; fn f() { var x = %s; g = || x; throw 1; } f();" % WIT, "junk(); junk(); print(g()); print(g()[1]);"],
 "closure escaping a fiber that died": [PRE + "var g = nil; fn f() { var x = %s; g = || x; throw 1; } Fiber.new(f).call();" % WIT, "junk(); junk(); print(g()); print(g()[1]);"],
 "string pieces": "var parts = \"a,b,c\".split(\",\"); var j = [1]; var k = [2]; print(parts); print(parts[1] + parts[2]);",
}
PROBE_MODULES = {"m1": "var w = %s; fn f() { return w[0]; }" % WIT}

# ---- 6. every operation of Natives.tla with TEMPORARY operands: the operands are expressions, not variables, so the only
#         thing keeping them (and what they hold) alive while the operation allocates is the VM's own rooting discipline
def inline_cases(rep, tier, seed):
    from checks import c02
    forms = ["invoke0", "invoke1", "index", "call", "misc", "binop", "range"]
    out = []
    states = 0
    for f in forms:
        cs, n = c02.tlc_cases(rep, f, tier)
        states += n
        out += [c for c in cs if c["r"]["c"] != "trigger" and c["f"] not in ("derive", "forin", "throw")
                and not (c["f"] == "call" and c["ops"][0] == "nat_clock")]          # the clock is the one nondeterministic operation
    rng = random.Random(seed)
    if tier == "quick" and len(out) > 12000:
        out = rng.sample(out, 12000)
    return out, states


def inline_src(c):
    from checks import c02
    ops = ["(%s)" % c02.EXPR[x] for x in c["ops"]]
    f, name = c["f"], c["name"]
    if f == "invoke":
        e = "%s.%s(%s)" % (ops[0], name, ", ".join(ops[1:]))
    elif f == "getprop":
        e = "%s.%s" % (ops[0], name)
    elif f == "call":
        e = "%s(%s)" % (ops[0], ", ".join(ops[1:]))
    elif f == "binop":
        e = "%s %s %s" % (ops[0], name, ops[1])
    elif f == "index":
        e = "%s[%s]" % (ops[0], ops[1])
    elif f == "range":
        e = "%s..%s" % (ops[0], ops[1])
    elif f == "mapkey":
        e = "{%s: %s}" % (ops[0], ops[0])
    elif f == "show":
        e = '"${%s}" + String.from(%s)' % (ops[0], ops[0])
    else:
        return None
    return "try { var r = %s; junk(); print(r); } catch e { print(type(e)); print(e.context); }" % e



def main(tier, seed):
    rep = Report(PROP, tier, seed, "model_checking")
    rng = random.Random(seed)
    dev = build_harness("dev")
    rel = build_harness("release")

    # ---- 1. collector core: every mutator history x every collection schedule (Heap.tla) ----------
    cfg = "Heap_c01_%s.cfg" % tier
    hists = []
    res = run_tlc("MC_Heap", cfg, workers=12, timeout=3000, keep_lines=False, tag="c01",
                  on_line=lambda t, o: hists.append(o) if t == "HIST" else None)
    if res.violation:
        rep.violation("Heap.tla: TLC reports\n" + res.violation[:2000], {"tlc": res.violation})
    log("[c01] Heap.tla: %d generated, %d distinct, %d histories, %.1fs" % (res.generated, res.distinct, len(hists), res.wall))
    rep.coverage["states"] = res.distinct
    rep.coverage["transitions"] = res.generated
    rep.coverage["exhaustive"] = True
    sample = hists if tier == "thorough" else [h for h in hists if rng.random() < 0.35]
    replay_hists(rep, dev, sample, 2, "collector core replay (checked build)")
    replay_hists(rep, rel, sample[::3], 2, "collector core replay (optimised build)")
    nrep = len(sample) + len(sample[::3])
    for h in sample[:: max(1, len(sample) // 2)][:2]:
        rep.sample({"kind": "mutator history replayed on memory::Heap", "ops": [s["op"] for s in h["ops"]],
                    "expected_reclaimed_at_end": h["ops"][-1]["obs"]["freed"]})

    # ---- 2. non-vacuity: the same model with a kind that misses an edge / the old blacken --------
    expect_tlc_violation("Heap_selftest_leaky.cfg", "GcSafety", "a kind whose mark skips an edge")
    expect_tlc_violation("Heap_selftest_marks.cfg", "NoGreyLeft", "ObjBoundMethod::blacken marking its receiver")
    rep.coverage["selftests"] = ["leaky kind -> GcSafety violated", "mark-in-blacken -> NoGreyLeft violated (the livelock fixed in /repo)"]

    # ---- 3. per-kind edges of the real object graph, measured by probes ---------------------------
    items, modules = vlib.corpus()
    cases = []
    for name, src in PROBES.items():
        for gc in ("never", "always"):
            c = {"id": ["probe", name, gc], "modules": PROBE_MODULES, "gc": gc, "quarantine": True, "events": 1}
            if isinstance(src, list):
                c["snippets"] = [{"src": x} for x in src]      # several runs on one interpreter
            else:
                c["main"] = src
            cases.append(c)
    # ---- 4. whole programs under schedules: the repository's scripts ----------------------------
    scheds = ["never", "always"] + (["every:2:1", "every:3:0", "every:7:3", "every:5:4"] if tier == "thorough" else ["every:3:1"])
    for name, src, exp in items:
        for gc in scheds:
            cases.append({"id": ["corpus", name, gc], "main": src, "modules": modules, "gc": gc, "quarantine": True, "events": 1})
    # ---- 5. the scenario families of the other properties (closures in every capture order and exit path, exceptions,
    #         fibers, classes, iteration, maps) under the same schedules: mid-operation values of every VM operation
    import scenarios
    import yprog
    fam = scenarios.capture_scenarios()[::3] + scenarios.capture_order_scenarios() + scenarios.exception_scenarios() + scenarios.exit_path_scenarios()
    fam += scenarios.thrown_value_scenarios() + scenarios.handler_intact_scenarios()[::2] + scenarios.loop_state_scenarios()[::3] + scenarios.range_cache_scenarios() + scenarios.fiber_lifetime_scenarios()
    n = 300 if tier == "quick" else 3000
    fam += scenarios.fiber_scenarios(random.Random(seed), n, nfib=3) + scenarios.class_scenarios(random.Random(seed), n)
    fam += scenarios.iteration_scenarios(random.Random(seed), n, exhaustive=False) + scenarios.hashmap_scenarios(random.Random(seed), n)
    # several runs on ONE interpreter (what a run that died leaves behind - in the fiber it died in and in the fibers that were calling
    # it - is reachable from later runs only through the closures and fibers stored in globals), module reruns included
    import mrun
    fam += scenarios.snippet_scenarios(random.Random(seed + 2), n) + scenarios.module_rerun_scenarios()[::2]
    nfam = 0
    for pid, toks in fam:
        nfam += 1
        for gc in (("never", "always") if tier == "quick" else ("never", "always", "every:3:1")):
            if isinstance(toks, dict):
                c = mrun.case_of(["scenario", pid, gc], toks, gc)
                c.update({"quarantine": True, "events": 1})
                cases.append(c)
                continue
            src = yprog.program_src(toks)
            cases.append({"id": ["scenario", pid, gc], "main": src, "modules": {}, "gc": gc, "quarantine": True, "events": 1, "natives": True})
    rep.coverage["scenario_programs"] = nfam
    from checks import c02
    icases, istates = inline_cases(rep, tier, seed)
    lines = [x for x in (inline_src(c) for c in icases) if x]
    per = 60
    nbatch = 0
    for i in range(0, len(lines), per):
        src = c02.PRELUDE + PRE + "\n".join(lines[i:i + per]) + "\n"
        nbatch += 1
        for gc in ("never", "always"):
            cases.append({"id": ["operation batch", str(i // per), gc], "main": src, "modules": c02.MODULES, "gc": gc, "quarantine": True, "events": 1})
    rep.coverage["operations_with_temporary_operands"] = len(lines)
    rep.coverage["states"] += istates
    builds = [("dev", dev)] + ([("release", rel)] if tier == "thorough" else [])
    # the optimised build collects only when the byte threshold is crossed (a different code path in allocate_raw): probes, operation
    # batches and the allocation-heavy loops run there under its own pacing, with swept objects quarantined
    from checks.c16 import LOOPS
    rcases = [dict(c, gc="default") for c in cases if c["id"][0] in ("probe", "operation batch") and c["gc"] == "always"]
    rcases += [{"id": ["loop", k, "default"], "main": v % {"N": 3000}, "gc": "default", "quarantine": True, "events": 1} for k, v in LOOPS.items()]
    nprog = 0
    for c, r in zip(rcases, Pool(rel, "run", timeout=120).map(rcases)):
        nprog += 1
        if "runs" not in r:
            rep.violation("%s %s under the optimised build's own pacing did not finish normally: %r" % (c["id"][0], c["id"][1], {k: r[k] for k in r if k != "events"}), {"case": c})
        elif r.get("uaf", 0) > 0:
            uafs = [e for e in r.get("events", []) if e.get("e") == "UseAfterFree"][:3]
            rep.violation("%s '%s' (optimised build, paced collection): a reclaimed object was accessed: %r" % (c["id"][0], c["id"][1], uafs), {"case": c, "events": uafs})
    rep.coverage["paced_release_runs"] = len(rcases)
    for bname, binary in builds:
        replies = Pool(binary, "run", timeout=60).map(cases)
        base = {}
        for c, r in zip(cases, replies):
            kind, name, gc = c["id"]
            key = (kind, name)
            nprog += 1
            if "runs" not in r:
                rep.violation("%s %s under gc=%s (%s build) did not finish normally: %r" % (kind, name, gc, bname, {k: r[k] for k in r if k != 'events'}),
                              {"case": c, "reply": r})
                continue
            if r.get("uaf", 0) > 0:
                uafs = [e for e in r.get("events", []) if e.get("e") == "UseAfterFree"][:3]
                rep.violation("%s '%s' under gc=%s (%s build): a reclaimed object was accessed: %r" % (kind, name, gc, bname, uafs),
                              {"case": c, "events": uafs})
                continue
            run = r["runs"][0]
            obs = (vlib.norm_addr(json.dumps([vlib.run_output_lines(x) for x in r["runs"]])), run.get("ok"), run.get("kind"))
            if gc == "never":
                base[key] = obs
                if kind == "corpus":
                    exp = next(e for n, s, e in items if n == name)
                    if not vlib.match_expected(exp, vlib.run_output_lines(run)) and name != "number/long_decimal":
                        rep.violation("corpus script %s does not print its documented output" % name, {"case": c, "reply": run})
            elif key in base and base[key] != obs:
                rep.violation("%s '%s': output under gc=%s differs from the never-collect run (%s build): %r vs %r" % (kind, name, gc, bname, obs, base[key]),
                              {"case": c, "never": base[key], "this": obs})
    # ---- 7. the reachable set of the specification against the real heap ---------------------------------------------------------
    # Machine.tla computes what is still reachable when a program's last run has ended (Live: module globals, module table, range cache,
    # the interpreter's current fiber chain; through elements, keys, values, fields, class ancestry and methods, the variables a closure's
    # code mentions, bound-method receivers, iterators, the frames of suspended fibers, parked exceptions).  After a forced collection the
    # objects that survive are counted by kind: fewer than the specification says = something reachable was reclaimed (this property),
    # more = garbage is kept (C16).  Every program also has to print what the machine predicts, on the build that collects at every
    # allocation and on the paced one.
    import profcheck
    fam7 = scenarios.fiber_lifetime_scenarios() + scenarios.thrown_value_scenarios() + scenarios.handler_intact_scenarios()[::3]
    fam7 += scenarios.fiber_scenarios(random.Random(seed + 1), n, nfib=3) + scenarios.class_scenarios(random.Random(seed + 1), n)
    fam7 += scenarios.iteration_scenarios(random.Random(seed + 1), n, exhaustive=False) + scenarios.hashmap_scenarios(random.Random(seed + 1), n, exhaustive_pairs=False)
    fam7 += scenarios.capture_order_scenarios() + scenarios.fiber_switch_context_scenarios()
    nlive = profcheck.run_scenarios(rep, "reachableset", fam7, [("dev", dev), ("release", rel)], PROP, trace=False)
    nprog += nlive
    rep.coverage["probe_programs"] = len(PROBES)
    rep.coverage["corpus_scripts"] = len(items)
    rep.coverage["schedules"] = scheds
    rep.coverage["program_runs"] = nprog
    rep.coverage["traces_validated_against_impl"] = nrep + nprog
    rep.sample({"kind": "edge probe", "edge": "map key", "program": PROBES["map key"]})
    rep.coverage["rule"] = ("Heap.tla explored exhaustively (every mutator history over 4 boxes x every collection schedule); every "
                            "history ending in a collection replayed on the real heap comparing the reclaimed set after each "
                            "step; %d edge probes and %d repository scripts run under %d schedules with swept objects quarantined: "
                            "any access to a reclaimed object or any output difference between schedules is a violation"
                            % (len(PROBES), len(items), len(scheds)))
    rep.assumptions += ["the quarantine hook keeps swept objects allocated, so an access to one is observed instead of undefined",
                        "collect-at-every-allocation dominates other schedules for the whole-program layer"]
    return rep.finish()
