"""C04  Accepted programs compile to code the interpreter can run blindly  (Bytecode.tla)."""
import collections
import os
import json
import random

import vlib
import bytecode
import limits
from vlib import Report, Pool, build_harness, log

PROP = "C04"

# problem signatures that are the static face of recorded findings; they are attributed only to
# programs that contain the construct named by the finding (the trigger), never to others
KNOWN = {
    "jump-leaves-try-body-with-its-handler-installed": "break-or-continue-inside-try-body",
    "return-with-handler-installed": "return-inside-nested-try",
    "return-while-a-finally-return-is-pending": "return-inside-try-without-finally",
}


def classify(rep, results, triggers, what):
    """results: per-function outputs of Bytecode.tla; triggers: program id -> set of trigger names"""
    nfn = nst = 0
    for r in results:
        nfn += 1
        nst += r["states"]
        prog = r["id"].split("#")[0]
        for p in r["problems"]:
            # the three signatures are faces of one root cause (try_statement's single in_try_block flag): a program that uses any
            # construct of a recorded try/finally finding may show any of them; programs that use none must show none
            if p["sig"] in KNOWN and triggers.get(prog):
                findings = vlib.load_findings()["findings"]
                hit = [f for f in findings if f["property"] == PROP and f["key"] in triggers[prog]]
                if hit:
                    for f in hit:
                        rep.known_finding(f["key"], "%s (%s)" % (f["what"], f["key"]))
                    continue
            rep.violation("%s: function %s: %s at pc %s (%r)" % (what, r["id"], p["sig"], p["pc"], p["detail"]),
                          {"function": r["id"], "problem": p})
    return nfn, nst


def main(tier, seed, extra_programs=None):
    rep = Report(PROP, tier, seed, "model_checking")
    dev = build_harness("dev")
    items, modules = vlib.corpus()
    core = open(os.path.join(vlib.REPO, "yarel/src/core.yl")).read()

    # ---- 1. everything the repository itself compiles ------------------------------------------
    progs = [(n, s) for n, s, e in items] + [("core.yl", core)]
    fns, rejected, failed = bytecode.export_programs(dev, progs)
    for pid, r in failed.items():
        rep.violation("compiling %s did not return: %r" % (pid, r), {"program": pid})
    results, st, tr = bytecode.analyse(fns, tag="c04corpus")
    nfn, nst = classify(rep, results, {}, "repository script")
    log("[c04] corpus: %d functions, %d abstract states, TLC states %d" % (nfn, nst, st))
    states, trans = st, tr

    # ---- 1b. the same instruction table followed dynamically: every instruction the real interpreter executes for the
    #          repository's scripts must be fetched at an offset and with a value-stack height that TraceOps.tla derives from
    #          the previous one (checked and optimised build) - this binds Opcodes.tla's effect table to vm.rs itself
    import tracevm
    rep.coverage["traceops_selftest_rejected"] = tracevm.selftest_ops(dev)
    for bname, binary in (("dev", dev), ("release", build_harness("release"))):
        cs = [{"id": ["corpus", n], "main": s, "modules": modules, "gc": "default"} for n, s, e in items]
        np_, nev = tracevm.validate_ops(rep, binary, bname, cs, "the repository's scripts", tag="c04ops")
        rep.add("traces_validated_by_TraceOps", np_)
        rep.add("instructions_validated_by_TraceOps", nev)

    # ---- 2. programs on, below and above every encoding limit -----------------------------------
    cases = limits.build(dev, tier)
    run_cases = [{"id": i, "main": c["src"], "gc": "never", "stack_mb": 64} for i, c in enumerate(cases)]
    accepted = []
    nlim = 0
    for c, r in zip(cases, Pool(dev, "run", timeout=180).map(run_cases)):
        nlim += 1
        if "runs" not in r:
            rep.violation("limit program '%s' crashed the host: %r" % (c["name"], {k: r[k] for k in r if k != "events"}), {"case": c["name"], "src": c["src"][:2000]})
            continue
        run = r["runs"][0]
        compile_error = (not run["ok"]) and run.get("kind") == "CompileError"
        if compile_error:
            continue          # rejecting is always allowed
        if not c["encodable"]:
            rep.violation("limit program '%s' exceeds an encoding limit but was accepted (output %r, outcome %r)"
                          % (c["name"], run.get("out"), run.get("kind", "ok")), {"case": c["name"], "src": c["src"][:4000], "run": run})
            continue
        got = vlib.run_output_lines(run)
        if got != c["expect"]:
            rep.violation("limit program '%s' was accepted but printed %r instead of %r" % (c["name"], got[:6], c["expect"][:6]),
                          {"case": c["name"], "src": c["src"][:4000], "run": run})
        accepted.append(("limit:" + c["name"], c["src"]))
    big = accepted if tier == "thorough" else [a for a in accepted if len(a[1]) < 20000]
    lfns, lrej, lfail = bytecode.export_programs(dev, big, timeout=300)
    lres, st2, tr2 = bytecode.analyse(lfns, tag="c04lim", timeout=6000)
    n2, s2 = classify(rep, lres, {}, "limit program")
    states += st2
    trans += tr2
    log("[c04] limits: %d cases, %d accepted, %d functions analysed (%d abstract states)" % (nlim, len(accepted), n2, s2))

    # ---- 3. programs generated by the TLC profiles (they are compiled by the other checks anyway) --
    n3 = s3 = 0
    if extra_programs is None:
        try:
            import genprogs
            extra_programs = genprogs.for_c04(tier, seed)
        except ImportError:
            extra_programs = []
    if extra_programs:
        gprogs = [(p["id"], p["src"]) for p in extra_programs]
        trig = {p["id"]: set(p.get("triggers", ())) for p in extra_programs}
        gfns, grej, gfail = bytecode.export_programs(dev, gprogs)
        for pid, r in gfail.items():
            rep.violation("compiling generated program %s did not return: %r" % (pid, r), {"program": pid})
        gres, st3, tr3 = bytecode.analyse(gfns, tag="c04gen", shards=12)
        n3, s3 = classify(rep, gres, trig, "generated program")
        states += st3
        trans += tr3
        log("[c04] generated: %d programs, %d functions, %d abstract states" % (len(gprogs), n3, s3))

    # ---- 4. "every variable access reads or writes exactly the variable the source names, on every path": the dynamic half.
    #         Heights and handler depths cannot see a Pop emitted where a CloseUpvalue was due; the closure scenario products
    #         (every capturing scope x exit path x capture order) executed by the reference machine can.
    import profcheck
    import profiles
    import scenarios
    import yprog
    bins = [("dev", dev), ("release", build_harness("release"))]
    nscen = 0
    nmix = 80 if tier == "quick" else 1500
    scen_sources, scen_trig = [], {}
    families = [("variables", scenarios.capture_scenarios()[::2] + scenarios.capture_order_scenarios()),
                ("exits", scenarios.exit_path_scenarios() + scenarios.exception_scenarios() + scenarios.function_ending_scenarios()),
                ("mixed", scenarios.class_scenarios(random.Random(seed), nmix) + scenarios.iteration_scenarios(random.Random(seed), nmix, exhaustive=False)
                 + scenarios.fiber_scenarios(random.Random(seed), nmix, nfib=2) + scenarios.fiber_switch_context_scenarios())]
    import mrun
    for fname, progs_ in families:
        if fname == "variables":
            profcheck.run_scenarios(rep, fname, progs_, bins, PROP)
            states += rep.coverage.pop("states", 0)
            trans += rep.coverage.pop("transitions", 0)
            nscen += rep.coverage.pop("traces_validated_against_impl", 0)
            model = {r.get("id"): r for r in rep.last_runs}
        else:
            # only the reference machine's run (which constructs of recorded findings the program uses); the replay of these
            # families belongs to C07 - C09, C18
            model, mres = mrun.model_run(progs_, tag="c04" + fname)
            states += mres.distinct
            trans += mres.generated
        for pid_, toks in progs_:
            if isinstance(toks, dict) or pid_ not in model:
                continue
            if fname == "variables" and tier == "quick" and len(scen_sources) % 3:
                scen_sources.append(None)
                continue
            pid = "scenario:%s:%s" % (fname, pid_)
            scen_sources.append((pid, yprog.program_src(toks)))
            scen_trig[pid] = {profiles.TRIGGER_FINDING[t] for t in model[pid_]["trig"] if t in profiles.TRIGGER_FINDING}
    # ... and the code the compiler emitted for every one of those programs, over all its paths (a compiler slip on a construct
    # the repository's scripts never use - return inside a catch block, break out of a try in a closure-bearing loop - shows up
    # here even when no scenario happens to execute the damaged path)
    scen_sources = [x for x in scen_sources if x]
    sfns, srej, sfail = bytecode.export_programs(dev, scen_sources)
    for pid, r in sfail.items():
        rep.violation("compiling scenario program %s did not return: %r" % (pid, r), {"program": pid})
    sres, st4, tr4 = bytecode.analyse(sfns, tag="c04scen", shards=12)
    n4, s4 = classify(rep, sres, scen_trig, "scenario program")
    states += st4
    trans += tr4
    nscen += n4
    log("[c04] scenario programs: %d programs, %d functions analysed (%d abstract states)" % (len(scen_sources), n4, s4))
    # ---- 5. the code generator itself: Compile.tla is a twin of compiler.rs (locals / captures / scope exits / jumps / desugarings /
    #         line table) for every statement and expression form but classes and imports.  For every scenario program and every
    #         program TLC generates from Gen.tla within the budget, TLC computes the functions the compiler HAS to emit and the
    #         exported chunks must be equal to them byte for byte (code, line table, constants, arity, captures), on both builds.
    import compiletwin
    tw = []
    for fname, progs_ in families:
        tw += [(["scenario", fname, pid_], toks) for pid_, toks in progs_ if isinstance(toks, list)]
    tw += [(["scenario", "more", pid_], toks) for pid_, toks in
           scenarios.closure_retention_scenarios() + scenarios.loop_state_scenarios() + scenarios.handler_intact_scenarios()
           + scenarios.range_cache_scenarios() + scenarios.hashmap_scenarios(random.Random(seed), 60, exhaustive_pairs=False) if isinstance(toks, list)]
    gens = [("scope", ["print", "var", "set", "block", "fn", "call", "lam", "return", "exprstmt"], 5 if tier == "quick" else 6, ("a",), None),
            ("control", ["print", "var", "set", "if", "else", "while", "for", "break", "continue", "block", "arith"], 5 if tier == "quick" else 6, ("a",), None),
            ("exceptions", ["print", "try", "catch", "finally", "throw", "fn", "call", "return", "while", "break", "var"], 6, ("a",), None),
            ("mixed", ["print", "var", "set", "block", "if", "else", "fn", "call", "call1", "lam", "return", "while", "for", "break", "continue",
                       "exprstmt", "arith", "try", "catch", "finally", "throw", "fiber"], 14, ("a", "b"), 3000 if tier == "quick" else 60000)]
    for gname, vocab, budget, names, sim in gens:
        gruns, gstats = profiles.generate(profcheck.make_cfg("c04t" + gname, vocab, budget, names=names, fnnames=("f",)), simulate=sim,
                                          seed=seed + 4, module="MC_Gen", tag="c04t" + gname)
        if gstats.get("violation"):
            rep.violation("generated programs (%s): TLC reports\n%s" % (gname, gstats["violation"][:1500]), {"tlc": gstats["violation"]})
        cap = 3000 if tier == "quick" else 40000
        if len(gruns) > cap:
            random.Random(seed).shuffle(gruns)
            gruns = gruns[:cap]
        tw += [(["generated", gname, r["id"]], r["prog"]) for r in gruns]
        states += max(gstats["distinct"], len(gruns))
        trans += gstats["generated"]
    ntw, nfw = compiletwin.check(rep, bins[:1] if tier == "quick" else bins, tw, "program compiled by compiler.rs vs Compile.tla", tag="c04twin")
    rep.coverage["programs_compared_with_the_compiler_twin"] = ntw
    rep.coverage["functions_compared_byte_for_byte"] = nfw
    nscen += ntw
    rep.coverage["states"] = states
    rep.coverage["transitions"] = trans
    rep.coverage["functions_analysed"] = nfn + n2 + n3
    rep.coverage["abstract_states"] = nst + s2 + s3
    rep.coverage["limit_cases"] = nlim
    rep.coverage["traces_validated_against_impl"] = nfn + n2 + n3 + nlim + nscen
    rep.coverage["exhaustive"] = True
    rep.sample({"kind": "function analysed over all its paths", "id": results[0]["id"], "abstract_states": results[0]["states"]})
    rep.sample({"kind": "limit case", "name": cases[1]["name"], "encodable": cases[1]["encodable"], "expected_output": cases[1]["expect"]})
    rep.coverage["rule"] = ("every function the compiler emitted for the repository's scripts, core.yl, the limit programs and the generated "
                            "profiles is explored over ALL its control-flow paths by Bytecode.tla (worklist dataflow as a TLC behaviour: "
                            "operand decoding as the VM does it, exceptional / finally / return edges); limit programs are sized by measuring "
                            "the operands the compiler really emits")
    rep.assumptions += ["the opcode effect table in Bytecode.tla is read from vm.rs (appendix A of DESIGN.md); it produces no report on 782 corpus functions",
                        "a compiler that rejects an encodable program is not a violation of this property"]
    return rep.finish()
