"""C02  Running a program never panics, crashes or corrupts memory  (Natives.tla, StackBudget part of Machine scenarios).

Part 1 (Natives.tla): every (form, operands) case TLC enumerates over the adversarial value pool is run on
the checked and on the optimised build; the outcome (completes / error class / error text) must be the one
the specification predicts, and the host must survive.
Part 2: limit programs (call depth, wide frames, deep / self-referential data) with the outcome predicted by
the frame-budget rule of the specification."""
import collections
import json
import os
from concurrent.futures import ThreadPoolExecutor

import vlib
from vlib import Report, run_tlc, Pool, build_harness, log

PROP = "C02"

PRELUDE = """class A {
  #[constructor]
  fn new(self) { self.x = 1; }
  fn m(self) { return 1; }
}
#[derive(String), constructor(new)]
class DerString {}
#[derive(Vec), constructor(new)]
class DerVec {}
fn f0() { return 0; }
fn f1(a) { return a; }
fn f2(a, b) { return a; }
fn f3(a, b, c) { return a; }
fn yielder() { Fiber.yield(1); return 2; }
fn mk_vself() { var v = [1]; v.push(v); return v; }
fn mk_mself() { var m = {}; m.insert(1, m); return m; }
fn mk_it_done() { var it = [1].iter(); it.next(); it.next(); return it; }
fn mk_susp() { var f = Fiber.new(yielder); f.call(); return f; }
fn mk_done() { var f = Fiber.new(f0); f.call(); return f; }
import "m1";
"""
MODULES = {"m1": "var q = 1;\nfn g() { return 0; }\n"}

EXPR = {
    "n0": "0", "nm0": "(-0)", "n1": "1", "nm1": "(-1)", "n2": "2", "n5": "5", "n300": "300", "half": "0.5", "nan": "(0 / 0)",
    "inf": "(1 / 0)", "ninf": "(-1 / 0)", "big": "9223372036854775808", "nbig": "(-9223372036854775808)",
    "s_empty": '""', "s_a": '"a"', "s_e": '"é"', "s_ae": '"aé"', "s_12": '"12"',
    "v_empty": "[]", "v_3": "[10, 11, 12]", "v_bytes": "[104, 105]", "v_bad": '[104, "x"]', "v_300": "[300]", "v_half": "[0.5]",
    "v_neg": "[-1]", "v_c3": "[195]", "v_surr": "[55296]", "v_nan": "[0 / 0]", "v_200": "[200]", "v_self": "mk_vself()",
    "v_nest": '["x", "x"]', "v_heap": "[(1, [2]), (3, [4])]",
    "t_empty": "()", "t_1": "(1,)", "t_2": '(1, "x")', "t_vec": "([1],)", "t_heap": "((1, [2]), [3])",
    "m_empty": "{}", "m_1": "{1: 2}", "m_self": "mk_mself()", "m_heap": "{1: (2, [3])}",
    "r_0big": "(0..9223372036854775808)", "r_nbig2": "(-9223372036854775808..2)", "r_m2big": "(-2..9223372036854775808)",
    "r_bignbig": "(9223372036854775808..-9223372036854775808)",
    "r_03": "(0..3)", "r_30": "(3..0)", "r_m21": "(-2..-1)", "r_11": "(1..1)",
    "c_A": "A", "c_String": "String", "c_Fiber": "Fiber", "c_Error": "Error", "c_Vec": "Vec", "c_Type": "Type",
    "i_A": "A.new()", "i_err": 'Error.new("a")', "i_stop": "StopIter.new()", "i_mapiter": "[1, 2].iter().map(f1)",
    "i_derS": "DerString.new()", "i_derV": "DerVec.new()",
    "f0": "f0", "f1": "f1", "f2": "f2", "f3": "f3", "bm": "A.new().m", "bn_len": '"aé".len', "bn_push": "[10, 11, 12].push",
    "bn_find": '"aé".find', "nat_print": "print", "nat_type": "type", "nat_clock": "clock",
    "it_vec": "[1, 2].iter()", "it_vec_done": "mk_it_done()", "it_str": '"ab".iter()', "it_tup": "(1, 2).iter()", "it_rng": "(0..2).iter()",
    "fb_new0": "Fiber.new(f0)", "fb_new1": "Fiber.new(f1)", "fb_susp": "mk_susp()", "fb_done": "mk_done()",
    "nil": "nil", "true": "true", "false": "false", "mod": "m1",
}

FORMS = ["invoke0", "invoke1", "invoke2", "invoke3", "getprop", "setprop", "call", "binop", "unop", "index", "setindex", "range", "misc", "repeat",
         "alias", "iterate"]


def q(s):
    return '"' + s.replace("\\", "\\\\").replace('"', '\\"').replace("$", "\\$") + '"'


def op_expr(c):
    """the operation on the case-local variables o0, o1, ..."""
    f, name, n = c["f"], c["name"], len(c["ops"])
    a = ["o%d" % i for i in range(n)]
    if f == "invoke":
        return "%s.%s(%s)" % (a[0], name, ", ".join(a[1:]))
    if f == "getprop":
        return "%s.%s" % (a[0], name)
    if f == "setprop":
        return "%s.%s = %s" % (a[0], name, a[1])
    if f == "call":
        return "%s(%s)" % (a[0], ", ".join(a[1:]))
    if f == "binop":
        return "%s %s %s" % (a[0], name, a[1])
    if f == "unop":
        return "%s%s" % (name, a[0])
    if f == "index":
        return "%s[%s]" % (a[0], a[1])
    if f == "setindex":
        return "%s[%s] = %s" % (a[0], a[1], a[2])
    if f == "range":
        return "%s..%s" % (a[0], a[1])
    if f == "mapkey":
        return "{%s: 1}" % a[0]
    if f == "show":
        return '"${%s}" + String.from(%s)' % (a[0], a[0])
    raise ValueError(f)


def case_src(c):
    """one block: prints `ok` or the error class and whether the context is the predicted text"""
    ops = c["ops"]
    if c.get("alias"):
        first, parts = {}, []
        for i, x in enumerate(ops):
            if x in first:
                parts.append("var o%d = o%d;" % (i, first[x]))        # the same object again
            else:
                first[x] = i
                parts.append("var o%d = %s;" % (i, EXPR[x]))
        decl = " ".join(parts)
    else:
        decl = " ".join("var o%d = %s;" % (i, EXPR[x]) for i, x in enumerate(ops))
    # a REJECTED operation leaves the variables holding its operands untouched (the error object must not land in a live slot)
    saved = " ".join("var s%d = String.from(o%d);" % (i, i) for i in range(len(ops)))
    intact = " ".join("if String.from(o%d) != s%d { print(\"#operand %d changed\"); }" % (i, i, i) for i in range(len(ops)))
    r = c["r"]
    if r["c"] == "err":
        pieces = []
        for p in r["msg"]:
            pieces.append("String.from(o%d)" % p[1] if isinstance(p, list) else q(str(p)))
        want = " + ".join(pieces) if pieces else '""'
        handler = "print(\"#${type(e)}\"); if e.context == %s { print(\"#ctx ok\"); } else { print(\"#${e.context}\"); } %s" % (want, intact)
    else:
        handler = "print(\"#${type(e)}\"); print(\"#${e.context}\"); %s" % intact
    f = c["f"]
    if f == "forin":
        body = "for z in o0 { break; } print(\"#ok\"); print(\"#-\");"
    elif f == "iternext":
        body = "var it = o0.iter(); it.next(); it.next(); it.next(); print(\"#ok\"); print(\"#-\");"
    elif f == "derive":
        body = "#[derive(o0)] class Z {} print(\"ok\");"
    elif f == "throw":
        body = "try { throw o0; } catch ee { print(\"#ok\"); print(\"#-\"); }"
    elif c.get("repeat"):
        # the same operation twice on the SAME operand objects: a rejected first attempt must leave no trace
        body = "try { var r0 = %s; } catch e0 { } var res = %s; print(\"#ok\"); print(\"#-\");" % (op_expr(c), op_expr(c))
    else:
        body = "var res = %s; print(\"#ok\"); print(\"#-\");" % op_expr(c)
    if f == "derive":
        # a class declaration is only allowed at top level: operands become globals of a fresh name
        return None
    return "{ %s %s try { %s } catch e { %s } }" % (decl, saved, body, handler)


def derive_src(c, k):
    r = c["r"]
    want = " + ".join(q(str(p)) for p in r["msg"]) if r["c"] == "err" else '""'
    return ("var dv%d = %s;\ntry {\n#[derive(dv%d)]\nclass Z%d {}\nprint(\"#ok\"); print(\"#-\");\n} catch e { print(\"#${type(e)}\"); if e.context == %s { print(\"#ctx ok\"); } else { print(\"#${e.context}\"); } }"
            % (k, EXPR[c["ops"][0]], k, k, want))


def expected_lines(c):
    r = c["r"]
    if r["c"] == "ok":
        return ["#ok", "#-"]
    return ["#<class %s>" % r["kind"], "#ctx ok"]


def tlc_cases(rep, form, tier):
    d = os.path.join(vlib.WORK, "cfg")
    os.makedirs(d, exist_ok=True)
    path = os.path.join(d, "Natives_%s_%d.cfg" % (form, os.getpid()))
    with open(path, "w") as f:
        f.write('SPECIFICATION Spec\nCONSTANTS\n  Form = "%s"\n  Shard = 0\n  NShards = 1\nINVARIANTS Defined Emit\nCHECK_DEADLOCK FALSE\n' % form)
    cases = []
    res = run_tlc("Natives", path, workers=3, timeout=3000, keep_lines=False, tag="c02" + form, xmx="3g",
                  on_line=lambda t, o: cases.append(o) if t == "CASE" else None)
    os.remove(path)
    if res.violation:
        rep.violation("Natives.tla (%s): TLC reports\n%s" % (form, res.violation[:1500]), {"tlc": res.violation})
    elif res.rc != 0:
        raise vlib.ToolError("TLC failed on Natives (%s): rc=%s\n%s" % (form, res.rc, res.stdout[-1500:]))
    if form == "repeat":
        for c in cases:
            c["repeat"] = True
    if form == "alias":
        for c in cases:
            c["alias"] = True
    log("[c02] Natives.tla %s: %d cases (%.0fs)" % (form, len(cases), res.wall))
    return cases, res.distinct


TRIGGER_FINDING = {
    "native-method-on-instance-of-class-derived-from-built-in": "native-method-on-instance-of-class-derived-from-built-in",
    "equality-of-distinct-self-containing-containers": "equality-of-distinct-self-containing-containers",
}


def run_natives(rep, binaries, cases, per=120):
    findings = {f["key"]: f for f in vlib.load_findings()["findings"] if f["property"] == PROP}
    normal = [c for c in cases if c["r"]["c"] != "trigger" and c["f"] != "derive"]
    derive = [c for c in cases if c["f"] == "derive"]
    trig = [c for c in cases if c["r"]["c"] == "trigger"]
    progs = []
    for i in range(0, len(normal), per):
        chunk = normal[i:i + per]
        progs.append((PRELUDE + "\n".join(case_src(c) for c in chunk) + "\n", chunk))
    if derive:
        progs.append((PRELUDE + "\n".join(derive_src(c, k) for k, c in enumerate(derive)) + "\n", derive))
    ncmp = 0
    kinds = collections.Counter()

    def check_prog(bname, src, chunk, r, single=False):
        nonlocal ncmp
        if "runs" not in r or not r["runs"][0].get("ok"):
            return False
        out = [l for l in r["runs"][0]["out"] if l.startswith("#")]      # `print` itself is one of the callees
        if len(out) != 2 * len(chunk):
            return False
        pos = 0
        for c in chunk:
            want = expected_lines(c)
            got = out[pos:pos + 2]
            pos += 2
            ncmp += 1
            kinds[c["r"]["kind"] or "ok"] += 1
            if got != want:
                rep.violation("%s build: %s on (%s): the specification predicts %s, the implementation gives %s"
                              % (bname, (c["f"] + " " + c["name"]).strip(), ", ".join(EXPR[x] for x in c["ops"]), want, got),
                              {"case": c, "source": PRELUDE + (case_src(c) or derive_src(c, 0)), "expected": want, "got": got})
        return True

    for bname, binary in binaries:
        items = [{"id": i, "main": src, "modules": MODULES, "gc": "default"} for i, (src, _) in enumerate(progs)]
        replies = Pool(binary, "run", timeout=120).map(items)
        redo = []
        for (src, chunk), r in zip(progs, replies):
            if not check_prog(bname, src, chunk, r):
                redo += chunk
        if redo:
            # the host did not survive a batch (or the program ended early): run its cases one by one to find which
            log("[c02] %s: %d cases re-run individually" % (bname, len(redo)))
            singles = [(PRELUDE + (case_src(c) or derive_src(c, 0)) + "\n", [c]) for c in redo]
            items = [{"id": i, "main": src, "modules": MODULES, "gc": "default"} for i, (src, _) in enumerate(singles)]
            for (src, chunk), r in zip(singles, Pool(binary, "run", timeout=60).map(items)):
                if not check_prog(bname, src, chunk, r, single=True):
                    c = chunk[0]
                    rep.violation("%s build: the host did not survive %s on (%s): %r"
                                  % (bname, (c["f"] + " " + c["name"]).strip(), ", ".join(EXPR[x] for x in c["ops"]), {k: r[k] for k in r if k != "events"}),
                                  {"case": c, "source": src, "reply": r})
        # recorded defects: the ideal outcome is a reported error; today the host panics / aborts
        singles = [(PRELUDE + case_src(c) + "\n", c) for c in trig]
        items = [{"id": i, "main": src, "modules": MODULES, "gc": "default", "stack_mb": 4} for i, (src, _) in enumerate(singles)]
        for (src, c), r in zip(singles, Pool(binary, "run", timeout=60, max_failures=10 ** 6).map(items)):
            ncmp += 1
            key = TRIGGER_FINDING[c["r"]["kind"]]
            survived = "runs" in r and r["runs"][0].get("ok") and len([l for l in r["runs"][0]["out"] if l.startswith("#")]) == 2
            if survived:
                continue      # repaired: a result or a reported error
            if key in findings:
                rep.known_finding(key, "%s (%s)" % (findings[key]["what"], key))
            else:
                rep.violation("%s build: the host did not survive %s on (%s): %r" % (bname, (c["f"] + " " + c["name"]).strip(),
                              ", ".join(EXPR[x] for x in c["ops"]), {k: r[k] for k in r if k != "events"}), {"case": c, "source": src, "reply": r})
    return ncmp, kinds


# ------------------------------------------------------------------------------------------------ part 2: limits
SB_CFG = """SPECIFICATION Spec
CONSTANTS
  FramesMax = 64
  SlotsMax = 16384
  Widths = {0, 100, 250}
  Temps = {0, 200}
  Depths = {%(depths)s}
  CheckSlots = %(check)s
  Nests = {10, 200, 30000}
  SafeNest = 500
  UnsafeNest = 20000
  FiberNests = {2, 63, 64, 65, 300, 1200}
INVARIANTS FramesRespected %(inv)s Emit EmitNests
CHECK_DEADLOCK FALSE
"""


FNESTS = []          # StackBudget.tla's fiber-nesting outcomes of the last stack_budget() run (replayed by C09)


def fiber_nest_src(n, aborted=()):
    """fibers nested n deep, each calling the next (the innermost returns its depth); before that, one run per entry of `aborted` that dies
    with an uncaught exception that many fibers deep (snippets of one interpreter)"""
    lib = ("fn nest(n) { if n == 0 { return 0; } var f = Fiber.new(|| nest(n - 1)); return f.call() + 1; }\n"
           "fn die(n) { if n == 0 { throw \"dies deep inside\"; } var f = Fiber.new(|| die(n - 1)); return f.call(); }\n")
    snips = [lib] + ["die(%d);\n" % d for d in aborted] + ["print(nest(%d));\nvar g = Fiber.new(|| { Fiber.yield(1); return 2; });\nprint((g.call(), g.call()));\n" % n]
    return snips


def stack_budget(rep, ideal, tier):
    d = os.path.join(vlib.WORK, "cfg")
    os.makedirs(d, exist_ok=True)
    path = os.path.join(d, "StackBudget_%s_%d.cfg" % ("ideal" if ideal else "asbuilt", os.getpid()))
    depths = "1, 10, 62, 63, 64, 65, 100" if tier == "quick" else "1, 2, 10, 30, 40, 50, 61, 62, 63, 64, 65, 66, 100, 1000"
    with open(path, "w") as f:
        f.write(SB_CFG % {"depths": depths, "check": "TRUE" if ideal else "FALSE", "inv": "SlotsRespected" if ideal else ""})
    lim, nest = [], []
    FNESTS[:] = []
    res = run_tlc("StackBudget", path, workers=2, timeout=600, keep_lines=False, tag="c02sb",
                  on_line=lambda t, o: lim.append(o) if t == "LIMIT" else nest.append(o) if t == "NEST" else FNESTS.append(o) if t == "FNEST" else None)
    os.remove(path)
    if res.violation:
        rep.violation("StackBudget.tla (%s): TLC reports\n%s" % ("ideal" if ideal else "as built", res.violation[:1500]), {"tlc": res.violation})
    return lim, nest, res.distinct


def limit_src(kind, w, t, depth):
    locs = "".join("var l%d = %d; " % (i, i) for i in range(w))
    callee = {"fn": "rec", "method": "self.rec", "lambda": "rec", "fiber": "rec"}[kind]
    if t:
        rec = "return [%s%s(n - 1)][%d] + 1;" % ("0, " * t, callee, t)
    else:
        rec = "return %s(n - 1) + 1;" % callee
    body = "%sif n == 0 { return 0; } %s" % (locs, rec)
    if kind == "method":
        head = "class R {\n#[constructor] fn new(self) { }\nfn rec(self, n) { %s }\n}\nvar go = R.new().rec;\n" % body
    elif kind == "lambda":
        head = "var rec = nil;\nrec = |n| { %s };\nvar go = rec;\n" % body
    else:
        head = "fn rec(n) { %s }\nvar go = rec;\n" % body
    if kind == "fiber":
        # the chain runs inside a fiber: its first frame plays the role of the script's
        run = ("fn fbody() { try { print(go(%d)); } catch e { print(type(e)); print(e.context); } }\n"
               "var fb = Fiber.new(fbody);\nfb.call();\n" % (depth - 1))
    else:
        run = "try { print(go(%d)); } catch e { print(type(e)); print(e.context); }\n" % (depth - 1)
    return head + run + 'print("after");\n'


def nest_src(n, op):
    build = "var v = [];\nvar i = 0;\nwhile i < %d { v = [v]; i = i + 1; }\n" % n
    if op == "show":
        return build + "print(String.from(v).len());\n", [str(2 * n + 2)]
    if op == "eq":
        return build + "var u = [];\ni = 0;\nwhile i < %d { u = [u]; i = i + 1; }\nprint(u == v);\n" % n, ["true"]
    if op == "tuplekey":
        return ("var v = ();\nvar i = 0;\nwhile i < %d { v = (v,); i = i + 1; }\nvar m = {v: 1};\nprint(m.len());\n" % n), ["1"]
    raise ValueError(op)


def run_limits(rep, binaries, lim, nest):
    findings = {f["key"]: f for f in vlib.load_findings()["findings"] if f["property"] == PROP}
    ncmp = 0
    cases = []
    for c in lim:
        if not c["clear"]:
            continue
        for kind in ("fn", "method", "lambda", "fiber"):
            cases.append((c, kind))
    for bname, binary in binaries:
        items = [{"id": i, "main": limit_src(kind, c["w"], c["t"], c["depth"]), "gc": "default"} for i, (c, kind) in enumerate(cases)]
        for (c, kind), it, r in zip(cases, items, Pool(binary, "run", timeout=120, max_failures=10 ** 6).map(items)):
            ncmp += 1
            what = "%s chain of %d calls, %d locals, %d live temporaries (%s build)" % (kind, c["depth"], c["w"], c["t"], bname)
            if c["status"] == "overrun":
                ok = "runs" in r and r["runs"][0].get("ok") and r["runs"][0]["out"][-1:] == ["after"] and r["runs"][0]["out"][0].startswith("<class ")
                if ok:
                    continue      # reported: repaired
                key = "value-stack-overrun-with-wide-frames"
                if key in findings:
                    rep.known_finding(key, "%s (%s)" % (findings[key]["what"], key))
                else:
                    rep.violation("%s: the value stack is overrun: %r" % (what, {k: r[k] for k in r if k != "events"}), {"case": c, "source": it["main"]})
                continue
            want = [str(c["depth"] - 1), "after"] if c["status"] == "done" else ["<class IndexError>", "Stack overflow.", "after"]
            if "runs" not in r:
                rep.violation("%s: the host did not survive: %r" % (what, r), {"case": c, "source": it["main"]})
            elif not r["runs"][0].get("ok") or r["runs"][0]["out"] != want:
                rep.violation("%s: the specification predicts %r, the implementation gives %r" % (what, want, r["runs"][0]),
                              {"case": c, "source": it["main"], "expected": want})
    ncases = []
    for c in nest:
        if c["status"] == "unclear":
            continue
        for op in ("show", "eq", "tuplekey"):
            ncases.append((c, op))
    for bname, binary in binaries:
        items = []
        for i, (c, op) in enumerate(ncases):
            src, want = nest_src(c["nest"], op)
            # deep cases get a small host stack so that the overflow - if the recursion is unbounded - comes early
            items.append({"id": i, "main": src, "gc": "default", "stack_mb": 1 if c["status"] == "native-overflow" else 8})
        for (c, op), it, r in zip(ncases, items, Pool(binary, "run", timeout=300, max_failures=10 ** 6).map(items)):
            ncmp += 1
            src, want = nest_src(c["nest"], op)
            what = "%s on data nested %d deep (%s build)" % (op, c["nest"], bname)
            survived = "runs" in r and (r["runs"][0].get("ok") and r["runs"][0]["out"] == want or not r["runs"][0].get("ok") and r["runs"][0].get("kind") not in (None, "CompileError"))
            if c["status"] == "native-overflow":
                if survived:
                    continue
                key = "deeply-nested-data-overflows-native-stack"
                if key in findings:
                    rep.known_finding(key, "%s (%s)" % (findings[key]["what"], key))
                else:
                    rep.violation("%s: the host did not survive: %r" % (what, r), {"case": c, "source": src})
            elif "runs" not in r or not r["runs"][0].get("ok") or r["runs"][0]["out"] != want:
                rep.violation("%s: expected %r, got %r" % (what, want, r), {"case": c, "source": src})
    return ncmp


def main(tier, seed):
    rep = Report(PROP, tier, seed, "model_checking")
    dev = build_harness("dev")
    binaries = [("dev", dev), ("release", build_harness("release"))]
    with ThreadPoolExecutor(max_workers=5) as ex:
        results = list(ex.map(lambda f: tlc_cases(rep, f, tier), FORMS))
    cases = [c for cs, _ in results for c in cs]
    states = sum(d for _, d in results)
    if not cases:
        raise vlib.ToolError("Natives.tla produced no cases")
    ncmp, kinds = run_natives(rep, binaries, cases)
    # misuse that needs a HISTORY rather than one operation: containers mutated while iterated, iterators shared between
    # loops, fibers called in every state - the iteration and fiber scenario products, executed by the reference machine
    import random
    import profcheck
    import scenarios
    nsc = 700 if tier == "quick" else 8000
    profcheck.run_scenarios(rep, "iteration", scenarios.iteration_scenarios(random.Random(seed + 2), nsc), binaries, PROP)
    profcheck.run_scenarios(rep, "fibers", scenarios.fiber_scenarios(random.Random(seed + 2), nsc, nfib=3), binaries, PROP)
    # values of every kind in flight as exceptions through finally blocks that allocate; handlers whose frames reuse unwound stack slots
    profcheck.run_scenarios(rep, "thrownvalues", scenarios.thrown_value_scenarios(), binaries, PROP)
    profcheck.run_scenarios(rep, "handlerintact", scenarios.handler_intact_scenarios()[::2], binaries, PROP)
    # captured variables opened in every order (a variable left open on a dead slot ends as a host panic or a wild write sooner or later)
    profcheck.run_scenarios(rep, "captureorder", scenarios.capture_order_scenarios(), binaries, PROP)
    # class hierarchies (ancestry walked by derives / method lookup after the superclass name has been rebound or its scope has ended); like every
    # replay, with reclaimed objects quarantined so that an access to one is an event, not a lucky read
    profcheck.run_scenarios(rep, "classes", scenarios.class_scenarios(random.Random(seed + 4), nsc), binaries, PROP)
    states += rep.coverage.pop("states", 0)
    rep.coverage.pop("transitions", 0)
    ncmp += rep.coverage.pop("traces_validated_against_impl", 0)
    # every indexing / slicing / string-function case of Strings.tla (haystacks, needles, indices and ranges around every byte and character
    # boundary of 1- to 4-byte characters) on the OPTIMISED build: the byte-level fast paths are where an out-of-boundary slice becomes a host panic
    # (C13 runs the same cases on the checked build)
    from checks import c13
    scases, sstates, _ = c13.collect_cases(rep, tier, random.Random(seed + 6), limit=60000 if tier == "quick" else None, tag="c02str")
    nstr = c13.replay_cases(rep, [b for b in binaries if b[0] == "release"] or binaries[-1:], scases)
    ncmp += nstr
    states += sstates
    rep.coverage["string_boundary_cases"] = nstr
    lim_i, nest_i, st_i = stack_budget(rep, True, tier)       # the ideal: both budgets respected (invariant SlotsRespected)
    lim, nest, st_a = stack_budget(rep, False, tier)          # as built: predicted outcomes incl. the recorded overrun
    nlim = run_limits(rep, binaries, lim, nest)
    ncmp += nlim
    states += st_i + st_a
    rep.coverage["limit_cases"] = nlim
    rep.coverage["states"] = states
    rep.coverage["transitions"] = states
    rep.coverage["traces_validated_against_impl"] = ncmp
    rep.coverage["cases_by_form"] = {f: len(cs) for f, (cs, _) in zip(FORMS, results)}
    rep.coverage["predicted_outcomes"] = dict(kinds)
    rep.coverage["exhaustive"] = True
    ex = next((c for c in cases if c["r"]["c"] == "err" and c["f"] == "invoke" and len(c["ops"]) == 3), cases[0])
    rep.sample({"case": ex, "source": case_src(ex)})
    rep.coverage["rule"] = ("every case TLC enumerates from Natives.tla (forms x adversarial pool, see cases_by_form) is run on the checked and the "
                            "optimised build inside try/catch: it must complete or raise exactly the predicted error class with exactly the "
                            "predicted message, and the host process must survive; StackBudget.tla's terminal states give the outcome of call "
                            "chains of 1..100 frames x 0/100/250 locals x 0/200 live temporaries through functions, methods, lambdas and inside "
                            "fibers ('Stack overflow.' IndexError exactly at the 65th frame, catchable, execution continues), and of data nested "
                            "10 / 200 / 30000 deep under printing, ==, and use as a map key")
    rep.assumptions += ["results of successful operations are not compared here (C05, C12, C13 do that)",
                        "cases whose predicted slot usage lies within 300 slots of the value-stack capacity are not replayed"]
    return rep.finish()
