"""C12  HashMap behaves as a map keyed by value equality  (Machine.tla: association list keyed by the language's ==)."""
import random

import profcheck
import scenarios
import vlib
import yprog
from vlib import Report

PROP = "C12"


def main(tier, seed):
    rep = Report(PROP, tier, seed, "model_checking")
    rng = random.Random(seed)
    bins = [("dev", vlib.build_harness("dev")), ("release", vlib.build_harness("release"))]
    progs = scenarios.hashmap_scenarios(rng, 1500 if tier == "quick" else 30000)
    profcheck.run_scenarios(rep, "hashmap", progs, bins, PROP)
    rep.coverage["exhaustive"] = False
    rep.sample({"kind": "hashmap scenario", "source": yprog.program_src(progs[5][1])})
    rep.coverage["rule"] = ("the abstract map is a list of pairs whose keys are pairwise not == (Machine.tla MapFind / MapPut, NaN never equal); key "
                            "pool of 19: 1 and 2-1, 0 and -0, NaN, the string a as a literal and built by concatenation, equal tuples built separately, tuples "
                            "holding 0 / -0, nested tuple, nil, true, a class, a cached range, a vector, tuples containing a vector (fresh and held in "
                            "a variable); all 361 ordered pairs under an 8-operation script, plus seeded sequences of 2-7 operations (insert, "
                            "remove, get, has_key, len, clear, keys / values / items compared as multisets, literals with duplicate keys); unhashable "
                            "keys must raise ValueError and leave the map unchanged")
    return rep.finish()
