"""C06  Lexical scoping; closures capture variables, not values  (Machine.tla cells, Gen.tla static resolution)."""
import profcheck
import scenarios
import vlib

PROP = "C06"
SCOPE = ["print", "var", "set", "block", "if", "else", "fn", "call", "call1", "lam", "return", "while", "for", "break", "exprstmt", "arith"]


def uses_closure(r):
    def has_lam(e):
        if isinstance(e, dict):
            return e.get("k") == "lam" or any(has_lam(v) for v in e.values())
        if isinstance(e, list):
            return any(has_lam(v) for v in e)
        return False
    return any(t.get("t") == "fn" for t in r["prog"]) or has_lam(r["prog"])


def main(tier, seed):
    q = tier == "quick"
    plan = [
        {"name": "scope-exhaustive", "cfg": profcheck.make_cfg("c06x", ["print", "var", "set", "block", "fn", "call", "lam", "return", "exprstmt"],
                                                             5 if q else 6, names=("a",), fnnames=("f",))},
        {"name": "scope-simulated", "cfg": profcheck.make_cfg("c06s", SCOPE, 14, names=("a", "b"), fnnames=("f", "g")),
         "simulate": 8000 if q else 100000},
        {"name": "scope-with-exceptions", "cfg": profcheck.make_cfg("c06e", SCOPE + ["try", "catch", "throw"], 14, names=("a",), fnnames=("f",)),
         "simulate": 3000 if q else 40000, "seed_offset": 3},
    ]
    rep = profcheck.run(PROP, tier, seed, plan, feature=uses_closure)
    bins = [("dev", vlib.build_harness("dev")), ("release", vlib.build_harness("release"))]
    profcheck.run_scenarios(rep, "capture", scenarios.capture_scenarios(), bins, PROP)
    profcheck.run_scenarios(rep, "captureorder", scenarios.capture_order_scenarios(), bins, PROP)
    # which closures outlive the capturing scope (any subset, captured in any order): output and the surviving objects
    profcheck.run_scenarios(rep, "retention", scenarios.closure_retention_scenarios(), bins, PROP)
    rep.coverage["exhaustive"] = True
    rep.coverage["rule"] = ("programs over <= 2 variable names and 2 function names with blocks, functions, lambdas reading / writing a captured "
                            "variable, calls after scope exit, loops (per-iteration variables, the shared loop variable), shadowing; name "
                            "resolution is static in the generator exactly as in the compiler; output must equal the cell-based reference machine")
    return rep.finish()
