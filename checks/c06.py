"""C06  Lexical scoping; closures capture variables, not values  (Machine.tla cells, Gen.tla static resolution)."""
import profcheck
import scenarios
import vlib

PROP = "C06"
SCOPE = ["print", "var", "set", "block", "if", "else", "fn", "call", "call1", "lam", "return", "while", "for", "break", "exprstmt", "arith"]


def uses_closure(r):
    def has_lam(e):
        if isinstance(e, dict):
            return e.get("k") == "lam" or any(has_lam(v) for v in e.values())
        if isinstance(e, list):
            return any(has_lam(v) for v in e)
        return False
    return any(t.get("t") == "fn" for t in r["prog"]) or has_lam(r["prog"])


def main(tier, seed):
    q = tier == "quick"
    plan = [
        {"name": "scope-exhaustive", "cfg": profcheck.make_cfg("c06x", ["print", "var", "set", "block", "fn", "call", "lam", "return", "exprstmt"],
                                                             5 if q else 6, names=("a",), fnnames=("f",))},
        {"name": "scope-simulated", "cfg": profcheck.make_cfg("c06s", SCOPE, 14, names=("a", "b"), fnnames=("f", "g")),
         "simulate": 8000 if q else 100000},
        {"name": "scope-with-exceptions", "cfg": profcheck.make_cfg("c06e", SCOPE + ["try", "catch", "throw"], 14, names=("a",), fnnames=("f",)),
         "simulate": 3000 if q else 40000, "seed_offset": 3},
    ]
    rep = profcheck.run(PROP, tier, seed, plan, feature=uses_closure)
    bins = [("dev", vlib.build_harness("dev")), ("release", vlib.build_harness("release"))]
    profcheck.run_scenarios(rep, "capture", scenarios.capture_scenarios(), bins, PROP)
    profcheck.run_scenarios(rep, "captureorder", scenarios.capture_order_scenarios(), bins, PROP)
    # ... and across fiber switches: the declaring scope yields / calls a function that yields / calls another fiber while closures over
    # its variables exist; direct and closure accesses keep seeing one variable, in the suspended fiber and from the fiber that resumed it
    profcheck.run_scenarios(rep, "captureswitch", scenarios.capture_across_switch_scenarios(), bins, PROP)
    # which closures outlive the capturing scope (any subset, captured in any order): output and the surviving objects
    profcheck.run_scenarios(rep, "retention", scenarios.closure_retention_scenarios(), bins, PROP)
    # a function capturing as many variables as the encoding allows (255 / 256 / 257, through two enclosing levels and relayed by an
    # intermediate function): each closure reads and writes ITS variable; one more than the limit is a compile error, never an alias
    import limits
    lim = [c for c in limits.build(bins[0][1], tier) if "captured" in c["name"]]
    for bname, binary in bins:
        for c, r in zip(lim, vlib.Pool(binary, "run", timeout=180).map([{"id": i, "main": c["src"], "gc": "default", "stack_mb": 64} for i, c in enumerate(lim)])):
            if "runs" not in r:
                rep.violation("program '%s' crashed the host (%s build): %r" % (c["name"], bname, {k: r[k] for k in r if k != "events"}), {"src": c["src"][:3000]})
                continue
            run = r["runs"][0]
            if (not run["ok"]) and run.get("kind") == "CompileError":
                if c["encodable"]:
                    rep.violation("program '%s' is within the limits but was rejected (%s build): %r" % (c["name"], bname, run.get("messages")), {"src": c["src"][:3000]})
                continue
            if not c["encodable"]:
                rep.violation("program '%s' exceeds the capture limit but was accepted (%s build; output %r)" % (c["name"], bname, run.get("out")),
                              {"src": c["src"][:3000], "run": run})
            elif vlib.run_output_lines(run) != c["expect"]:
                rep.violation("program '%s' (%s build) printed %r instead of %r" % (c["name"], bname, vlib.run_output_lines(run)[:6], c["expect"][:6]),
                              {"src": c["src"][:3000], "run": run})
    rep.coverage["capture_limit_programs"] = len(lim)
    rep.coverage["exhaustive"] = True
    rep.coverage["rule"] = ("programs over <= 2 variable names and 2 function names with blocks, functions, lambdas reading / writing a captured "
                            "variable, calls after scope exit, loops (per-iteration variables, the shared loop variable), shadowing; name "
                            "resolution is static in the generator exactly as in the compiler; output must equal the cell-based reference machine")
    return rep.finish()
