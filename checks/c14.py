"""C14  Modules load once, keep their own globals, and cycles are reported  (Machine.tla modules)."""
import random

import profcheck
import scenarios
import vlib
from vlib import Report

PROP = "C14"


def main(tier, seed):
    rep = Report(PROP, tier, seed, "model_checking")
    rng = random.Random(seed)
    bins = [("dev", vlib.build_harness("dev")), ("release", vlib.build_harness("release"))]
    progs = scenarios.module_scenarios(rng, 1500 if tier == "quick" else 25000)
    profcheck.run_scenarios(rep, "modules", progs, bins, PROP)
    profcheck.run_scenarios(rep, "crossmodule", scenarios.cross_module_scenarios(), bins, PROP)
    # "within one interpreter ... at most once": the same module imported again by later runs of one interpreter, after runs that failed in
    # every way; and imports made while a function of the imported module is on the call stack (loaded: no cycle; still loading: a cycle)
    profcheck.run_scenarios(rep, "rerunreentry", scenarios.module_rerun_scenarios(), bins, PROP)
    # the module table is keyed by the path as written (extension included); a loaded module is imported without a call frame; an aliased
    # import without a file name is a run-time ImportError
    profcheck.run_scenarios(rep, "modulepaths", scenarios.module_path_scenarios(), bins, PROP)
    # "each module sees the built-ins": a built-in name rebound by the importer or by another module, before or after the load
    profcheck.run_scenarios(rep, "modulebuiltins", scenarios.module_builtin_scenarios(), bins, PROP)
    rep.coverage["exhaustive"] = False
    rep.sample({"kind": "modules scenario", "id": progs[0][0], "structure": {"snippets": len(progs[0][1]["snips"]), "modules": [m["path"] for m in progs[0][1]["mods"]]}})
    rep.coverage["rule"] = ("seeded import graphs over main + 1-3 modules: every edge present or absent (self loops, 2- and 3-cycles, diamonds), imports at top "
        "level / inside try / inside functions, members missing, uncompilable or throwing while loading, the same global name in every module, "
        "attribute reads, writes and calls through the module object, identity of repeated imports, built-ins (including the error classes and "
        "core.yl's iterator classes) used inside modules; the reference machine runs a module body once as a call in the importing fiber")
    return rep.finish()
