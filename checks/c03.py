"""C03  Compilation is total: any text yields a function or a compile error  (Scanner.tla, TraceParser.tla)."""
import itertools
import json
import os
import random
import re

import vlib
from vlib import Report, run_tlc, Pool, build_harness, log

PROP = "C03"
KINDS = ["LeftParen", "RightParen", "LeftBrace", "RightBrace", "LeftBracket", "RightBracket", "Comma", "Dot", "DotDot", "Minus", "MinusEqual",
         "Plus", "PlusEqual", "Colon", "SemiColon", "Slash", "SlashEqual", "Star", "StarEqual", "Bang", "BangEqual", "Equal", "EqualEqual",
         "Greater", "GreaterEqual", "Less", "LessEqual", "Amp", "AmpEqual", "Bar", "BarEqual", "Caret", "CaretEqual", "Percent", "PercentEqual",
         "GreaterGreater", "GreaterGreaterEqual", "LessLess", "LessLessEqual", "AmpAmp", "BarBar", "Tilde", "Hash", "Identifier", "Str",
         "Interpolation", "Number", "CapSelf", "Catch", "Class", "Else", "False", "Finally", "For", "Fn", "If", "Import", "As", "In", "Nil",
         "Return", "Self_", "Super", "Break", "Continue", "Throw", "True", "Try", "Var", "While", "Error", "Eof"]
TOKEN_TEXT = ["(", ")", "{", "}", "[", "]", ",", ".", "..", "-", "-=", "+", "+=", ":", ";", "/", "/=", "*", "*=", "!", "!=", "=", "==", ">", ">=",
              "<", "<=", "&", "&=", "|", "|=", "^", "^=", "%", "%=", ">>", ">>=", "<<", "<<=", "&&", "||", "~", "#", "x", "\"s\"", "\"a${1}b\"",
              "1", "Self", "catch", "class", "else", "false", "finally", "for", "fn", "if", "import", "as", "in", "nil", "return", "self",
              "super", "break", "continue", "throw", "true", "try", "var", "while", "derive", "constructor", "static", "new", "1.5", "\"m\""]
SCAN_GROUPS = ["Broad", "Numbers", "Strings6", "Escapes", "Words", "Ops2", "Lines", "EscapesU"]


def scanner_part(rep, dev, tier, groups=SCAN_GROUPS):
    """Scanner.tla predictions vs the real scanner, for every enumerated source."""
    n = states = 0
    for g in groups:
        cases = []
        res = run_tlc("MC_Scanner", "Scanner_%s.cfg" % g, workers=10, timeout=3000, keep_lines=False, tag="c03" + g,
                      on_line=lambda t, o: cases.append(o) if t == "SCAN" else None)
        if res.violation:
            rep.violation("Scanner.tla (%s): TLC reports\n%s" % (g, res.violation[:1500]), {"tlc": res.violation})
        states += res.distinct
        items = [{"id": i, "src": "".join(c["src"])} for i, c in enumerate(cases)]
        bad = 0
        for c, r in zip(cases, Pool(dev, "tokenize", timeout=6).map(items)):
            n += 1
            text = "".join(c["src"])
            if "tokens" not in r:
                bad += 1
                if bad <= 8:
                    rep.violation("the scanner did not survive %r: %r" % (text, {k: r[k] for k in r}), {"source": text})
                if bad > 40:
                    break
                continue
            got = [(KINDS[k] if k < len(KINDS) else "?%d" % k, s, l) for k, l, s in r["tokens"]]
            want = [(t["k"], t["s"], t["l"]) for t in c["toks"]]
            ok = len(got) == len(want)
            if ok:
                for (gk, gs, gl), (wk, ws, wl) in zip(got, want):
                    if gk != wk or gl != wl or (("#" not in ws and "?" not in ws) and gs != ws):
                        ok = False
            if not ok:
                bad += 1
                if bad <= 8:
                    rep.violation("token stream of %r differs: spec %r impl %r" % (text, want, got), {"source": text, "spec": want, "impl": got})
        log("[c03] scanner group %s: %d sources" % (g, len(cases)))
        if cases:
            rep.sample({"kind": "scanner case", "source": "".join(cases[len(cases) // 2]["src"]), "tokens": cases[len(cases) // 2]["toks"]}, limit=3)
    return n, states


def mutations(rng, items, tier):
    """corpus-driven parser inputs: prefixes, token-range deletions / duplications / swaps / substitutions, character noise"""
    out = []
    per = 6 if tier == "quick" else 40
    noise = ["é", "😀", "\u0000", "​", "ß", "\t", "\"", "${", "}", "{", "\\", "'", "`", "﻿", "½", "न"]
    for name, src, exp in items:
        toks = re.findall(r"\"(?:[^\"\\]|\\.)*\"|[A-Za-z_][A-Za-z_0-9]*|\d+(?:\.\d+)?|[^\sA-Za-z_0-9]|\s+", src)
        for _ in range(per):
            kind = rng.choice(["prefix-char", "prefix-token", "delete", "dup", "swap", "subst", "noise", "insert"])
            t = list(toks)
            if not t:
                continue
            i = rng.randrange(len(t))
            if kind == "prefix-char":
                out.append(src[: rng.randrange(len(src) + 1)])
                continue
            if kind == "prefix-token":
                out.append("".join(t[:i]))
                continue
            if kind == "delete":
                del t[i: i + rng.randint(1, 4)]
            elif kind == "dup":
                t[i:i] = t[i: i + rng.randint(1, 3)]
            elif kind == "swap":
                j = rng.randrange(len(t))
                t[i], t[j] = t[j], t[i]
            elif kind == "subst":
                t[i] = rng.choice(TOKEN_TEXT)
            elif kind == "insert":
                t.insert(i, rng.choice(TOKEN_TEXT))
            else:
                s2 = "".join(t)
                k = rng.randrange(len(s2) + 1)
                out.append(s2[:k] + rng.choice(noise) + s2[k + rng.randint(0, 1):])
                continue
            out.append("".join(t))
    return out


FORMS = ["import \"\" as odd;", "import \"..\" as odd;", "import \"/\";", "var v = 1;", "var v;", "v = v + 1;", "v += 2 * 3;", "print(v, 1);", "import \"lib/util\";", "import \"lib/util\" as u;", "fn g(a, b) { return a; }",
         "var f = |a, b| a + b;", "var f = || { return 1; };", "if v { v = 1; } else if w { v = 2; } else { v = 3; }", "while v < 3 { v = v + 1; continue; }",
         "for i in 0..3 { if i { break; } }", "return v;", "throw Error.new(\"x\");", "try { v = 1; } catch e { v = 2; } finally { v = 3; }", "try { v = 1; } finally { v = 3; }",
         "{ var inner = 1; { var inner = 2; } }", "class K { fn m(self, a) { return self.a; } #[static] fn s() { return Self; } }",
         "#[constructor(new), derive(Base)] class K { #[constructor] fn make(self) { super.make(); } fn m(self) { return super.m; } }",
         "#[constructor] class K {}", "#[derive] class K {}", "#[derive(K)] class K {}", "#[static] fn g() {}", "var s = \"a${v}b${1 + 2}c\";", "var m = {1: 2, \"k\": [1, 2, (3,)]};",
         "v.a.b[1](2).c = v[0..2];", "v = !-~v && v || v == v != v <= v;", "var t = (1, 2); var u = (1,); var w = ();", "x.y += 1; x[0] = 2;"]
CONTEXTS = [("", ""), ("{ ", " }"), ("fn outer() { var o = 1; ", " return o; }"), ("class C { fn meth(self) { ", " } }"), ("while true { var l = 1; ", " }"),
            ("try { ", " } catch err { }"), ("var lam = || { ", " };"), ("if c { var t = 1; { ", " } }")]
TAIL = "\nvar after = 1;\n{ var again = after; fn later() { return again; } }\nprint(after);\n"


def skeleton_sources():
    """every statement form in every context, cut after each token / with each token deleted / doubled, followed by more code: a syntax error
    anywhere inside any construct, at any scope depth, and the parser has to carry on with what follows"""
    out = []
    for form in FORMS:
        toks = re.findall(r"\"(?:[^\"\\\\]|\\\\.)*\"|[A-Za-z_][A-Za-z_0-9]*|\d+(?:\.\d+)?|\.\.|[-+*/%&|^<>=!]=|&&|\|\||<<=?|>>=?|[^\sA-Za-z_0-9]", form)
        for pre, post in CONTEXTS:
            out.append(pre + form + post + TAIL)
            for i in range(len(toks)):
                out.append(pre + " ".join(toks[:i]) + post + TAIL)                       # cut short, context closed
                out.append(pre + " ".join(toks[:i] + toks[i + 1:]) + post + TAIL)        # one token missing
                out.append(pre + " ".join(toks[:i] + [toks[i]] + toks[i:]) + post + TAIL)  # one token doubled
            out.append(pre + form)                                                         # context left open
    return out


def parser_part(rep, dev, tier, rng, sources, what):
    """compile every source with parser events on; TraceParser.tla validates the recovery discipline and the result"""
    cases = [{"id": i, "main": s, "compile_only": True, "events": 8, "stack_mb": 64} for i, s in enumerate(sources)]
    replies = Pool(dev, "run", timeout=15).map(cases)
    path = os.path.join(vlib.WORK, "traces", "c03-%d-%s.ndjson" % (os.getpid(), what))
    os.makedirs(os.path.dirname(path), exist_ok=True)
    bad = 0
    with open(path, "w") as f:
        for c, r in zip(cases, replies):
            if "runs" not in r:
                bad += 1
                if bad <= 10:
                    rep.violation("%s: compiling %r did not return: %r" % (what, c["main"][:200], {k: r[k] for k in r if k != "events"}), {"source": c["main"]})
                continue
            run = r["runs"][0]
            if not run["ok"]:
                located = all(re.match(r"^\[module \"main\", line \d+\] Error", m) for m in run["messages"]) and run["messages"]
                if run.get("kind") != "CompileError" or not located:
                    bad += 1
                    if bad <= 10:
                        rep.violation("%s: compile failure without a located compile error: %r" % (what, run), {"source": c["main"]})
            f.write(json.dumps({"e": "Reset"}) + "\n")
            for ev in r.get("events", []):
                if ev.get("e") in ("ErrorAt", "Synchronise", "ParseEnd"):
                    f.write(json.dumps(ev) + "\n")
            f.write(json.dumps({"e": "Result", "ok": 1 if run["ok"] else 0, "messages": 0 if run["ok"] else len(run["messages"])}) + "\n")
    tr = run_tlc("TraceParser", "TraceParser.cfg", workers=1, timeout=1200, env_extra={"TRACE": path},
                 jvm=["-Dtlc2.tool.queue.IStateQueue=StateDeque"], tag="c03trace", xmx="6g")
    if tr.violation or "REJECT" in tr.stdout:
        rep.violation("TraceParser.tla rejects the recorded parser events (%s):\n%s" % (what, (tr.violation or tr.stdout)[-1200:]), {"trace": path})
    else:
        os.remove(path)
    return len(cases), tr.distinct


def main(tier, seed):
    rep = Report(PROP, tier, seed, "model_checking")
    rng = random.Random(seed)
    dev = build_harness("dev")
    nscan, states = scanner_part(rep, dev, tier)
    items, modules = vlib.corpus()
    srcs = mutations(rng, items, tier)
    n1, s1 = parser_part(rep, dev, tier, rng, srcs, "corpus mutation")
    # every sequence of 3 (thorough: a sample of 4) tokens over the full token vocabulary, rendered to text
    vocab = TOKEN_TEXT
    seqs = [" ".join(p) for p in itertools.product(vocab, repeat=2)]
    k3 = 60000 if tier == "quick" else 400000
    seqs += [" ".join(rng.choice(vocab) for _ in range(rng.choice([3, 3, 4, 5, 8]))) for _ in range(k3)]
    n2, s2 = parser_part(rep, dev, tier, rng, seqs, "token sequences")
    # ---- the grammar: Parser.tla (the recogniser half of compiler.rs as a total function of the token sequence) predicts for every input
    #      whether compilation succeeds and, if not, the first recorded error - offending token, its line, message; the compiler must agree.
    #      Inputs: the repository's scripts, their mutations, all token pairs and a sample of longer sequences (one token per line, so that
    #      the line of the offending token is part of what is compared)
    import parsertwin
    n4, s4 = parsertwin.check(rep, dev, [s for _n, s, _e in items] + srcs, "repository scripts and their mutations", tag="c03twinA")
    vocab2 = [t for t in vocab if t != "\"a${1}b\""] + ["\"a${1}\"", "\"${x}b\"", "@", "{", "}"]
    n8, s8 = parsertwin.check_generated(rep, dev, 2 if tier == "quick" else 3, "token sequences enumerated by TLC", tag="c03pgen")
    lines = ["\n".join(rng.choice(vocab2) for _ in range(rng.choice([3, 3, 4, 5, 6, 8, 12]))) for _ in range(20000 if tier == "quick" else 300000)]
    n5, s5 = parsertwin.check(rep, dev, lines, "token sequences, one token per line", tag="c03twinB")
    # every statement form x context x (cut / missing / doubled token), followed by more code
    skel = skeleton_sources()
    n6, s6 = parser_part(rep, dev, tier, rng, skel, "statement skeletons")
    n7, s7 = parsertwin.check(rep, dev, skel, "statement skeletons", tag="c03twinC")
    rep.coverage["skeleton_sources"] = len(skel)
    # the context rules under every chain of up to three enclosing constructs
    ctx = parsertwin.context_sources(3)
    n9, s9 = parsertwin.check(rep, dev, ctx, "context rules under every chain of enclosing constructs", tag="c03ctx")
    rep.coverage["context_rule_sources"] = n9
    # nesting within stated bounds (blocks and conditionals also around 256 open scopes)
    deep = ["(" * d + "1" + ")" * d + ";" for d in (1, 10, 64)] + ["{" * d + "}" * d for d in (1, 10, 64, 255, 256, 257, 300)] + \
           ["fn f(c) { " + "if c { " * d + "print(c);" + " }" * d + " }\nf(true);" for d in (64, 255, 256, 257)] + \
           ["var s = " + ("\"a${" * d) + "1" + ("}\"" * d) + ";" for d in (7, 8, 9, 12)] + ["[" * d + "]" * d + ";" for d in (10, 64)]
    n3, s3 = parser_part(rep, dev, tier, rng, deep, "nesting")
    rep.coverage["states"] = states + s1 + s2 + s3 + s4 + s5 + s6 + s7 + s8 + s9
    rep.coverage["transitions"] = states + s1 + s2 + s3 + s4 + s5 + s6 + s7 + s8
    rep.coverage["traces_validated_against_impl"] = nscan + n1 + n2 + n3 + n4 + n5 + n6 + n7 + n8 + n9
    rep.coverage["scanner_sources"] = nscan
    rep.coverage["parser_inputs"] = n1 + n2 + n3
    rep.coverage["exhaustive"] = True
    rep.coverage["rule"] = ("Scanner.tla predicts the token stream of every source over six alphabets (26 class representatives up to 3 characters; "
                            "number, string / interpolation, escape, keyword and operator alphabets up to 4-6 characters) and the real scanner must "
                            "produce exactly that; the parser is driven with every prefix kind, token-range deletions / duplications / swaps / "
                            "substitutions / insertions and Unicode noise over the 546 repository scripts, all pairs and a large sample of longer "
                            "sequences over the token vocabulary, and nesting at and beyond the stated interpolation bound; every compilation must "
                            "return, fail only with located compile errors, and its ErrorAt / Synchronise / ParseEnd events must satisfy TraceParser.tla "
                            "(first error after a synchronisation point is recorded; a function is returned iff no error was recorded); Parser.tla - the "
                            "recogniser half of compiler.rs (Pratt table, every consume, statements, attributes, the context rules for return / break / "
                            "continue / self / Self / super, duplicate declarations, reads in own initialiser) - predicts accept / reject and the first "
                            "recorded error (token, line, message) for the repository scripts, their mutations and the token sequences, and the compiler "
                            "must agree")
    rep.assumptions += ["after the first recorded error only the recovery discipline is specified (TraceParser.tla), not which later messages appear",
                        "sources whose token texts contain non-ASCII characters, quotes or backslashes are not given to the parser twin (TLC strings); they are still compiled and trace-validated"]
    return rep.finish()
