"""C13  Indexing, slicing and string functions match a byte-exact model  (Strings.tla)."""
import os
import random

import vlib
from vlib import Report, run_tlc, Pool, build_harness, log

PROP = "C13"


def s_lit(bs):
    text = bytes(bs).decode("utf-8")
    return '"' + text.replace("\\", "\\\\").replace('"', '\\"').replace("$", "\\$") + '"'


def arg_src(a):
    k = a[0]
    return {"int": lambda: str(a[1]), "frac": lambda: "0.5", "nan": lambda: "(0 / 0)", "inf": lambda: "(1 / 0)", "ninf": lambda: "(-1 / 0)",
            "big": lambda: "9223372036854775808", "nbig": lambda: "-9223372036854775808", "nil": lambda: "nil", "str": lambda: '"x"',
            "bool": lambda: "true"}[k]()


def bound_src(n):
    """slice bounds: +-1000000 in the specification stand for the saturated ends of the integer domain"""
    if n >= 1000000:
        return "9223372036854775808"
    if n <= -1000000:
        return "-9223372036854775808"
    return str(n)


def seq_src(kind, xs):
    if kind == "v":
        return "[%s]" % ", ".join(map(str, xs))
    if len(xs) == 1:
        return "(%d,)" % xs[0]
    return "(%s)" % ", ".join(map(str, xs))


def case_src(c):
    op = c["op"]
    if op == "index":
        e = "%s[%s]" % (s_lit(c["s"]), arg_src(c["a"]))
    elif op == "slice":
        e = "%s[%s..%s]" % (s_lit(c["s"]), bound_src(c["b"]), bound_src(c["e"]))
    elif op in ("vindex", "tindex"):
        e = "%s[%s]" % (seq_src(op[0], c["s"]), arg_src(c["a"]))
    elif op in ("vslice", "tslice"):
        e = "%s[%s..%s]" % (seq_src(op[0], c["s"]), bound_src(c["b"]), bound_src(c["e"]))
    elif op in ("len", "count_chars", "is_alpha", "is_digit", "is_hexdigit", "to_bytes", "to_code_points"):
        e = "%s.%s()" % (s_lit(c["s"]), op)
    elif op == "iterate":
        return "var out = [];\nfor ch in %s { out.push(ch); }\nprint(out);\n" % s_lit(c["s"])
    elif op == "char_byte_index":
        e = "%s.char_byte_index(%s)" % (s_lit(c["s"]), arg_src(c["a"]))
    elif op in ("starts_with", "ends_with", "split"):
        e = "%s.%s(%s)" % (s_lit(c["s"]), op, s_lit(c["t"]))
    elif op == "find":
        e = "%s.find(%s, %s)" % (s_lit(c["s"]), s_lit(c["t"]), arg_src(c["a"]))
    elif op == "replace":
        e = "%s.replace(%s, %s)" % (s_lit(c["s"]), s_lit(c["t"]), s_lit(c["u"]))
    elif op == "from_utf8":
        e = "String.from_utf8([%s])" % ", ".join(map(str, c["s"]))
    elif op == "from_code_points":
        e = "String.from_code_points([%s])" % ", ".join(map(str, c["s"]))
    else:
        raise ValueError(op)
    return "try {\nprint(%s);\n} catch e {\nprint(type(e));\nprint(e.context);\n}\n" % e


def render(v, tuple_=False):
    k = v[0]
    if k == "str":
        return bytes(v[1]).decode("utf-8")
    if k == "num":
        return str(v[1])
    if k == "bool":
        return "true" if v[1] else "false"
    if k == "nil":
        return "nil"
    if k == "vec":
        inner = ", ".join(render(x) for x in v[1])
        if tuple_:
            return "(%s%s)" % (inner, "," if len(v[1]) == 1 else "")
        return "[%s]" % inner
    raise ValueError(k)


def expected_lines(c, r):
    if r["ok"]:
        return [render(r["val"], tuple_=(c["op"] == "tslice"))]
    return ["<class %s>" % r["kind"], "".join(str(x) for x in r["msg"])]


def collect_cases(rep, tier, rng, limit=None, tag="c13"):
    """every case Strings.tla enumerates (as TLC initial states) with the result the specification predicts"""
    cases = []
    states = trans = 0
    for group in ("A", "B", "C"):
        cfg = "Strings_%s.cfg" % group
        if tier == "thorough":
            path = os.path.join(vlib.WORK, "cfg", "Strings_%s_t_%s.cfg" % (group, tag))
            os.makedirs(os.path.dirname(path), exist_ok=True)
            open(path, "w").write(open(os.path.join(vlib.SPEC, cfg)).read().replace("MaxChars = 2", "MaxChars = 3"))
            cfg = path
        got = []
        res = run_tlc("MC_Strings", cfg, workers=12, timeout=3000, keep_lines=False, tag=tag + group,
                      on_line=lambda t, o: got.append(o) if t == "CASE" else None)
        if res.violation:
            rep.violation("Strings.tla: TLC reports\n" + res.violation[:1500], {"tlc": res.violation})
        states += res.distinct
        trans += res.generated
        lim = limit or (40000 if tier == "quick" else 400000)
        if len(got) > lim:
            rng.shuffle(got)
            got = got[:lim]
        cases += got
        log("[%s] Strings.tla group %s: %d cases (TLC %d states)" % (tag, group, len(got), res.distinct))
    return cases, states, trans


def replay_cases(rep, bins, cases):
    """one implementation run per case: the printed result / error class and message must be exactly what Strings.tla says; the host must survive"""
    ncmp = 0
    for bname, binary in bins:
        items = [{"id": i, "main": case_src(x["c"]), "gc": "default"} for i, x in enumerate(cases)]
        for x, r in zip(cases, Pool(binary, "run", timeout=30).map(items)):
            ncmp += 1
            want = expected_lines(x["c"], x["r"])
            if "runs" not in r:
                rep.violation("%s build: the host did not survive %s: %r" % (bname, case_src(x["c"]).strip(), {k: r[k] for k in r}),
                              {"case": x["c"], "source": case_src(x["c"])})
                continue
            run = r["runs"][0]
            got = list(run.get("out", []))
            if not run["ok"] or got != want:
                rep.violation("%s build: %s  -> spec %r impl %r %s" % (bname, case_src(x["c"]).split("\n")[1], want, got,
                                                                     "" if run["ok"] else run.get("messages")),
                              {"case": x["c"], "source": case_src(x["c"]), "spec": want, "impl": run})
    return ncmp


def main(tier, seed):
    rep = Report(PROP, tier, seed, "model_checking")
    rng = random.Random(seed)
    bins = [("dev", build_harness("dev"))] + ([("release", build_harness("release"))] if tier == "thorough" else [])
    cases, states, trans = collect_cases(rep, tier, rng)
    ncmp = replay_cases(rep, bins, cases)
    # conversion to and from numbers: NumFormat.tla (exact doubles, exact decimal expansions) on the boundary numbers, random patterns and short texts
    from checks import c19
    nconv, cstates, nnum, ntext = c19.conversion_layer(rep, bins, tier, seed)
    ncmp += nconv
    states += cstates
    trans += cstates
    rep.coverage["number_conversion"] = {"numbers": nnum, "texts": ntext, "comparisons": nconv}
    rep.coverage["states"] = states
    rep.coverage["transitions"] = trans
    rep.coverage["traces_validated_against_impl"] = ncmp
    rep.coverage["exhaustive"] = tier == "quick" or len(cases) < 400000 * 3
    for x in cases[:: max(1, len(cases) // 3)][:3]:
        rep.sample({"case": x["c"], "expected": expected_lines(x["c"], x["r"]), "source": case_src(x["c"])})
    rep.coverage["rule"] = ("Strings.tla enumerates, as TLC initial states, every string of <= 2 (thorough 3) characters over {a, b, e-acute (2 bytes), "
                            "euro (3), emoji (4), devanagari na (3, lead byte E0)} x every index in -len-2..len+2 plus 0.5, NaN, +-inf, +-2^63, nil, a "
                            "string, a boolean; every range over the same bounds; vectors and tuples of length 0, 1, 3; every string function with "
                            "every argument combination from the pools (find with every start, replace, split, starts/ends_with, classification, "
                            "bytes, code points, char_byte_index, iteration, from_utf8 / from_code_points on valid and invalid sequences); the model "
                            "also proves every produced string is valid UTF-8 (invariant ProducesValidUtf8)")
    rep.assumptions += ["to_num / String.from on numbers: the boundary, random-pattern and short-text parts of NumFormat.tla run here; the lattice sweep is C19's", "the Rust side cannot hold invalid UTF-8 in a String: an out-of-boundary slice shows up as a host panic"]
    return rep.finish()
