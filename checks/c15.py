"""C15  An interpreter can be reused: failed runs leave no residue  (Machine.tla snippet sequencing)."""
import random

import profcheck
import scenarios
import vlib
from vlib import Report

PROP = "C15"


def main(tier, seed):
    rep = Report(PROP, tier, seed, "model_checking")
    rng = random.Random(seed)
    bins = [("dev", vlib.build_harness("dev")), ("release", vlib.build_harness("release"))]
    progs = scenarios.snippet_scenarios(rng, 1500 if tier == "quick" else 25000)
    profcheck.run_scenarios(rep, "snippets", progs, bins, PROP)
    snippet_runs = rep.last_runs
    # modules across runs: a module imported by an early snippet, then failures of every kind, then the import again
    profcheck.run_scenarios(rep, "modulereruns", [p for p in scenarios.module_rerun_scenarios() if p[0].startswith("modrerun:")], bins, PROP)
    rep.last_runs = snippet_runs + rep.last_runs
    # the same sequences typed into the shipped REPL (yarel-cli with no argument): one snippet per line on stdin
    import cli
    seqs = [(r, r["prog"]) for r in rep.last_runs if r["done"] and not r["oom"] and not r["trig"]
            and not any(sn.get("reset") for sn in r["prog"]["snips"])]
    seqs = seqs[:: max(1, len(seqs) // (300 if tier == "quick" else 3000))]
    nrepl = 0
    for prof in ("dev", "release"):
        nrepl += cli.run_repl(rep, cli.build_cli(prof), prof, seqs, "snippet sequence")
    rep.coverage["sequences_typed_into_the_repl"] = nrepl
    rep.coverage["traces_validated_against_impl"] += nrepl
    rep.coverage["exhaustive"] = False
    rep.sample({"kind": "snippets scenario", "id": progs[0][0], "structure": {"snippets": len(progs[0][1]["snips"]), "modules": [m["path"] for m in progs[0][1]["mods"]]}})
    rep.coverage["rule"] = ("seeded sequences of 2-6 snippets from a catalogue of 23 (definitions and their later uses, compile errors, uncaught throws at top "
        "level / in nested calls through finally / inside a fiber / inside finally, failing built-ins, imports of a good and of a failing module, "
        "fibers kept across snippets, closures kept across snippets, a run dying in the middle of a class definition, reset) fed to ONE "
        "interpreter; per snippet the printed lines and the outcome must equal the reference machine's, which keeps globals / modules / heap and "
        "starts every snippet with a fresh main fiber")
    return rep.finish()
