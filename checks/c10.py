"""C10  Optimised and checked builds behave identically  (the same Machine.tla is the arbiter for every configuration)."""
import json
import random

import profcheck
import profiles
import scenarios
import mrun
import vlib
from vlib import Report, Pool, build_harness, log

PROP = "C10"
FEATURES = ["safe_stack", "safe_active_fiber", "safe_vm_opcodes", "safe_class_lookup", "debug_stress_gc"]


def builds(tier):
    bs = [("dev", build_harness("dev")), ("release", build_harness("release"))]
    if tier == "thorough":
        for f in FEATURES:
            bs.append(("release+" + f, build_harness("release", (f,))))
        bs.append(("release+all", build_harness("release", tuple(FEATURES))))
        bs.append(("dev+all", build_harness("dev", tuple(FEATURES))))
    return bs


SLOTS_MAX = 16384


def stack_program(depth, rows):
    """`depth` nested calls of a function holding 250 locals; the innermost builds nested vector literals whose pending elements stay on the stack"""
    locs = " ".join("var l%d = %d;" % (i, i) for i in range(250))
    expr = "0"
    for r in reversed(rows):
        expr = "[" + "0, " * r + expr + "]"
    return ("fn rec(n) { %s if n == 0 { var v = %s; return v.len(); } return rec(n - 1); }\nprint(rec(%d));\n" % (locs, expr, depth))


def stack_boundary(rep, bins):
    import tracevm
    by = dict(bins)
    rel = by.get("release") or bins[-1][1]
    depth = 61

    def peak(rows):
        c = {"id": "sb", "main": stack_program(depth, rows), "gc": "never", "events": tracevm.EV_OPS, "stack_mb": 64}
        r = Pool(rel, "run", timeout=120).map([c])[0]
        hs = [e.get("sl", 0) for e in r.get("events", []) if isinstance(e, dict) and e.get("e") == "Op"]
        return (max(hs) if hs else 0), r
    base, _ = peak([0])
    if base == 0 or base >= SLOTS_MAX - 10:
        raise vlib.ToolError("stack boundary probe: no usable base measurement (%r)" % base)
    n = 0
    for target in (SLOTS_MAX - 2, SLOTS_MAX - 1, SLOTS_MAX):
        need = target - base
        rows, left = [], need
        while left > 0:
            rows.append(min(250, left))
            left -= rows[-1]
        # each further nesting level costs slots of its own: measure and adjust the last row
        for _ in range(6):
            p, rr = peak(rows)
            if p == target:
                break
            rows[-1] += target - p
            if rows[-1] < 0 or rows[-1] > 255:
                break
        p, rr = peak(rows)
        if p != target:
            raise vlib.ToolError("stack boundary probe: could not build a program with peak %d (got %d)" % (target, p))
        src = stack_program(depth, rows)
        outs = {}
        for bname, binary in bins:
            r = Pool(binary, "run", timeout=120).map([{"id": "sb", "main": src, "gc": "never", "stack_mb": 64}])[0]
            n += 1
            outs[bname] = ("ok", vlib.run_output_lines(r["runs"][0])) if "runs" in r and r["runs"][0]["ok"] else ("failed", {k: r[k] for k in r if k != "events"})
        for bname, o in outs.items():
            if o[0] != "ok" or o != outs[bins[0][0]]:
                rep.violation("a call chain whose value stack peaks at %d of %d slots does not complete alike on every build: %r" % (target, SLOTS_MAX, outs),
                              {"source": src[:3000], "peak": target, "outcomes": outs})
                break
    rep.coverage["stack_boundary_programs"] = n
    return n


def main(tier, seed):
    rep = Report(PROP, tier, seed, "model_checking")
    rng = random.Random(seed)
    bins = builds(tier)
    n = 250 if tier == "quick" else 2500
    fams = [("capture", scenarios.capture_scenarios()), ("exceptions", scenarios.exception_scenarios()),
            ("fibers", scenarios.fiber_scenarios(rng, n, nfib=3, exhaustive_small=False)), ("classes", scenarios.class_scenarios(rng, n)),
            ("iteration", scenarios.iteration_scenarios(rng, n, exhaustive=False)), ("errors", scenarios.error_scenarios(rng, n)),
            ("modules", scenarios.module_scenarios(rng, n)), ("snippets", scenarios.snippet_scenarios(rng, n)),
            ("hashmap", scenarios.hashmap_scenarios(rng, n, exhaustive_pairs=(tier == "thorough"))),
            ("thrownvalues", scenarios.thrown_value_scenarios()), ("handlerintact", scenarios.handler_intact_scenarios()),
            ("loopstate", scenarios.loop_state_scenarios()), ("rangecache", scenarios.range_cache_scenarios())]
    total = 0
    for name, progs in fams:
        if len(progs) > n:
            rng.shuffle(progs)
            progs = progs[:n]
        total += profcheck.run_scenarios(rep, name, progs, bins, PROP)
    # generated programs (random control flow / closures / exceptions): agreement with the machine on every build
    for vocab, pname in ((["print", "var", "set", "if", "else", "while", "for", "break", "continue", "block", "arith", "fn", "call", "lam", "return",
                           "exprstmt", "try", "catch", "throw"], "mixed"),):
        cfg = profcheck.make_cfg("c10" + pname, vocab, 14, names=("a", "b"), fnnames=("f",))
        runs, stats = profiles.generate(cfg, simulate=1500 if tier == "quick" else 20000, seed=seed, tag="c10gen")
        # programs whose ideal run touches a recorded try/finally finding (property C08) are not used here
        runs = [r for r in runs if not r["trig"]]
        k, u = profiles.replay(rep, runs, bins, "generated program (%s)" % pname, PROP)
        total += k
        rep.coverage["states"] = rep.coverage.get("states", 0) + max(stats["generated"], len(runs))
        rep.coverage["transitions"] = rep.coverage.get("transitions", 0) + stats["generated"]
    # the value stack's last slots: StackBudget.tla gives a fiber SlotsMax = 16384 slots; call chains whose measured peak height (the largest
    # value-stack height in the instruction events of the optimised build, Opcodes.tla's effect per instruction) is SlotsMax - 2 .. SlotsMax
    # must complete, with the same output, on every build - the checked build's bounds test may not refuse a slot the optimised build uses.
    # (A peak above SlotsMax is the recorded finding value-stack-overrun-with-wide-frames of C02 and is not run here.)
    total += stack_boundary(rep, bins)
    # allocation-heavy loops (several collections under the paced policy): no expectation from the machine (too long a run),
    # every build must print the same
    from checks.c16 import LOOPS
    lcases = [{"id": "loop:" + k, "main": v % {"N": 4000 if tier == "quick" else 20000}, "gc": "default"} for k, v in LOOPS.items()]
    lref = None
    for bname, binary in bins:
        obs = {}
        for c, r in zip(lcases, Pool(binary, "run", timeout=300).map(lcases)):
            total += 1
            obs[c["id"]] = json.dumps(r.get("runs", r))[:2000] if "runs" in r else "crash: " + json.dumps({k: r[k] for k in r})[:300]
            obs[c["id"]] = vlib.norm_addr(obs[c["id"]])
        if lref is None:
            lref = (bname, obs)
        else:
            for nme in obs:
                strip = lambda t: __import__("re").sub(r'"state": \{[^}]*\}', "", t)
                if strip(obs[nme]) != strip(lref[1][nme]):
                    rep.violation("%s behaves differently on %s and %s: %s vs %s" % (nme, lref[0], bname, strip(lref[1][nme])[:300], strip(obs[nme])[:300]),
                                  {"program": nme})
    # value-level operations with boundary operands, and programs whose correctness depends on WHEN the collector runs: the builds
    # differ exactly in overflow checking, unchecked fast paths and collection schedule, so these are where they can diverge
    from checks import c01, c02
    ncases = []
    for form in ("binop", "range", "iterate", "index", "fiberops"):
        cs, n_ = c02.tlc_cases(rep, form, tier)
        rep.coverage["states"] = rep.coverage.get("states", 0) + n_
        ncases += [c for c in cs if c["r"]["c"] != "trigger"]
    if tier == "quick":
        small = [c for c in ncases if c["f"] not in ("binop", "index")]          # iteration, ranges, fiber operations: all of them
        big = [c for c in ncases if c["f"] in ("binop", "index")]
        rng.shuffle(big)
        ncases = small + big[:12000]
    save = c02.PROP
    c02.PROP = PROP
    try:
        nn, _k = c02.run_natives(rep, bins, ncases)
    finally:
        c02.PROP = save
    total += nn
    pcases = []
    for name, src in c01.PROBES.items():
        c = {"id": "probe:" + name, "modules": c01.PROBE_MODULES, "gc": "default"}
        if isinstance(src, list):
            c["snippets"] = [{"src": x} for x in src]
        else:
            c["main"] = src
        pcases.append(c)
    pref = None
    for bname, binary in bins:
        obs = {}
        for c, r in zip(pcases, Pool(binary, "run", timeout=120).map(pcases)):
            total += 1
            obs[c["id"]] = vlib.norm_addr(json.dumps([vlib.run_output_lines(x) for x in r["runs"]])) if "runs" in r else "crash: " + json.dumps({k: r[k] for k in r if k != "events"})[:300]
        if pref is None:
            pref = (bname, obs)
        else:
            for nme in obs:
                if obs[nme] != pref[1][nme]:
                    rep.violation("%s behaves differently on %s and %s: %s vs %s" % (nme, pref[0], bname, pref[1][nme][:300], obs[nme][:300]), {"program": nme})
    # the repository's scripts: identical observable behaviour on every build (and the documented output)
    items, modules = vlib.corpus()
    cases = [{"id": nme, "main": src, "modules": modules, "gc": "default"} for nme, src, exp in items]
    ref = None
    for bname, binary in bins:
        obs = {}
        for c, r in zip(cases, Pool(binary, "run", timeout=60).map(cases)):
            total += 1
            if "runs" not in r:
                obs[c["id"]] = ("crash", json.dumps({k: r[k] for k in r if k != "events"})[:300])
            else:
                run = r["runs"][0]
                obs[c["id"]] = (vlib.norm_addr(json.dumps(vlib.run_output_lines(run))), run.get("ok"), run.get("kind"))
        if ref is None:
            ref = (bname, obs)
            for nme, src, exp in items:
                o = obs[nme]
                if o[0] == "crash" and nme != "number/long_decimal":
                    rep.violation("corpus script %s crashed on the %s build: %s" % (nme, bname, o[1]), {"script": nme})
        else:
            for nme in obs:
                if obs[nme] != ref[1][nme]:
                    rep.violation("corpus script %s behaves differently on %s and %s: %r vs %r" % (nme, ref[0], bname, ref[1][nme], obs[nme]),
                                  {"script": nme, ref[0]: ref[1][nme], bname: obs[nme]})
    # and their control events are a behaviour of TraceVm.tla on every build (fib = ufib at every event, handler / frame discipline)
    import tracevm
    ncorp = 0
    for bname, binary in bins:
        cs = [{"id": ["corpus", nme], "main": src, "modules": modules, "gc": "default"} for nme, src, exp in items]
        np_, nev = tracevm.validate(rep, binary, bname, cs, "the repository's scripts", tag="c10corpus")
        ncorp += nev
        # ... instruction by instruction (TraceOps.tla): same offsets, same value-stack heights on every build
        cs = [{"id": ["corpus", nme], "main": src, "modules": modules, "gc": "default"} for nme, src, exp in items]
        np_, nev = tracevm.validate_ops(rep, binary, bname, cs, "the repository's scripts", tag="c10ops")
        rep.add("instructions_validated_by_TraceOps", nev)
    rep.coverage["corpus_events_validated_by_TraceVm"] = ncorp
    rep.coverage["traces_validated_against_impl"] = total
    rep.coverage["builds"] = [b for b, _ in bins]
    rep.coverage["exhaustive"] = False
    rep.sample({"kind": "configuration matrix", "builds": [b for b, _ in bins], "programs_per_family": n, "corpus_scripts": len(items)})
    rep.coverage["rule"] = ("a stratified sample of every scenario family and of TLC-generated programs, with the reference machine's expectation, "
                            "is replayed on every build of the configuration set (quick: dev, release; thorough: + release with each safe_* switch, "
                            "debug_stress_gc, all switches, dev with all switches): agreement with the specification on each build implies "
                            "pairwise agreement; the repository's 546 scripts are additionally compared pairwise across builds")
    return rep.finish()
